/-
  Panoptica.Model.Result — edge-case handler (utils/edge_case_handling.py), list metrics
  (metrics/metrics.py: Evaluation_List_Metric), `PanopticaResult` derived metrics and `to_dict`
  (panoptica_result.py), the zero-instance early exit (panoptica_evaluator.py).
-/
import Panoptica.Model.Basic
namespace Panoptica

inductive Scenario where
  | NO_INSTANCES | EMPTY_PRED | EMPTY_REF | NORMAL
  deriving DecidableEq, Repr

/-- `MetricZeroTPEdgeCaseHandling` after its constructor resolved the default. -/
structure ZeroTP where
  noInstances : EdgeVal
  emptyPred : EdgeVal
  emptyRef : EdgeVal
  normal : EdgeVal
  deriving DecidableEq, Repr

/-- constructor: `default_result` fills the unspecified scenarios; asserts that everything is
    defined. -/
def ZeroTP.construct (dflt noInst emptyPred emptyRef normal : Option EdgeVal) : Option ZeroTP :=
  match dflt with
  | some d => some { noInstances := noInst.getD d, emptyPred := emptyPred.getD d,
                     emptyRef := emptyRef.getD d, normal := normal.getD d }
  | none =>
    match noInst, emptyPred, emptyRef, normal with
    | some a, some b, some c, some d => some { noInstances := a, emptyPred := b, emptyRef := c, normal := d }
    | _, _, _, _ => none

def ZeroTP.get (h : ZeroTP) : Scenario → EdgeVal
  | .NO_INSTANCES => h.noInstances
  | .EMPTY_PRED => h.emptyPred
  | .EMPTY_REF => h.emptyRef
  | .NORMAL => h.normal

/-- the `if/elif` chain of `MetricZeroTPEdgeCaseHandling.__call__` for `tp = 0` -/
def scenarioOf (nPred nRef : Nat) : Scenario :=
  if nPred + nRef == 0 then .NO_INSTANCES
  else if nRef == 0 then .EMPTY_REF
  else if nPred == 0 then .EMPTY_PRED
  else .NORMAL

/-- `MetricZeroTPEdgeCaseHandling.__call__` -/
def ZeroTP.call (h : ZeroTP) (tp nPred nRef : Nat) : Bool × EdgeVal :=
  if tp != 0 then (false, .NONE) else (true, h.get (scenarioOf nPred nRef))

/-- `EdgeCaseHandler` -/
structure Handler where
  table : List (Metric × ZeroTP)
  emptyListStd : EdgeVal
  deriving Repr

def Handler.lookup (h : Handler) (m : Metric) : Option ZeroTP :=
  (h.table.find? (fun e => e.1 == m)).map (·.2)

/-- `EdgeCaseHandler.handle_zero_tp`; `none` = NotImplementedError (metric without handling) -/
def Handler.handleZeroTP (h : Handler) (m : Metric) (tp nPred nRef : Nat) : Option (Bool × EdgeVal) :=
  if tp != 0 then some (false, .NONE)
  else match h.lookup m with
    | none => none
    | some z => some (z.call tp nPred nRef)

/-- the default `EdgeCaseHandler()` -/
def Handler.default : Handler :=
  { table := [
      (.DSC,   { noInstances := .NAN, emptyPred := .ZERO, emptyRef := .ZERO, normal := .ZERO }),
      (.clDSC, { noInstances := .NAN, emptyPred := .ZERO, emptyRef := .ZERO, normal := .ZERO }),
      (.IOU,   { noInstances := .NAN, emptyPred := .ZERO, emptyRef := .ZERO, normal := .ZERO }),
      (.ASSD,  { noInstances := .NAN, emptyPred := .INF,  emptyRef := .INF,  normal := .INF }),
      (.RVD,   { noInstances := .NAN, emptyPred := .NAN,  emptyRef := .NAN,  normal := .NAN })],
    emptyListStd := .NAN }

abbrev RVal := Val Rat

def edgeToVal (e : EdgeVal) : RVal := e.toVal (0 : Rat) (1 : Rat)

def sumR (l : List Rat) : Rat := l.foldl (· + ·) 0

/-- `np.average(l)`; NaN for the empty list -/
def avgR (l : List Rat) : RVal := if l.isEmpty then .nan else .num (sumR l / (l.length : Rat))

/-- population variance (`np.std(l)**2`) -/
def varR (l : List Rat) : Rat :=
  let n : Rat := (l.length : Rat)
  let mu := sumR l / n
  sumR (l.map (fun x => (x - mu) * (x - mu))) / n

def minR : List Rat → Option Rat
  | [] => none
  | x :: xs => some (xs.foldl (fun a b => if b < a then b else a) x)
def maxR : List Rat → Option Rat
  | [] => none
  | x :: xs => some (xs.foldl (fun a b => if a < b then b else a) x)

/-- `Evaluation_List_Metric` (value list present). `stdSq` is the *variance*: the harness compares
    `STD**2` with it. -/
structure ListMetric where
  all : List Rat
  avg : RVal
  sum : RVal
  min : RVal
  max : RVal
  stdSq : RVal
  deriving Repr

def mkListMetric (emptyListStd : EdgeVal) (vals : List Rat) (isEdge : Bool) (edge : EdgeVal) : ListMetric :=
  let std : RVal := if vals.isEmpty then edgeToVal emptyListStd else .num (varR vals)
  if isEdge then
    { all := vals, avg := edgeToVal edge, sum := edgeToVal edge, min := edgeToVal edge,
      max := edgeToVal edge, stdSq := std }
  else
    { all := vals, avg := avgR vals, sum := .num (sumR vals),
      min := (match minR vals with | some x => .num x | none => .none),
      max := (match maxR vals with | some x => .num x | none => .none),
      stdSq := std }

/-- Python float multiplication on `RVal` (`None * x` raises → `none` here means "not computed") -/
def mulVal : RVal → RVal → Option RVal
  | .none, _ => none
  | _, .none => none
  | .nan, _ => some .nan
  | _, .nan => some .nan
  | .num a, .num b => some (.num (a * b))
  | .inf, .num b => some (if b > 0 then .inf else if b < 0 then .ninf else .nan)
  | .ninf, .num b => some (if b > 0 then .ninf else if b < 0 then .inf else .nan)
  | .num a, .inf => some (if a > 0 then .inf else if a < 0 then .ninf else .nan)
  | .num a, .ninf => some (if a > 0 then .ninf else if a < 0 then .inf else .nan)
  | .inf, .inf => some .inf
  | .ninf, .ninf => some .inf
  | .inf, .ninf => some .ninf
  | .ninf, .inf => some .ninf

/-- input of the `PanopticaResult` constructor that matters for the derived metrics -/
structure ResultIn where
  nRef : Nat
  nPred : Nat
  tp : Nat
  lists : List (Metric × List Rat)
  handler : Handler
  deriving Repr

def ResultIn.fp (r : ResultIn) : Int := (r.nPred : Int) - (r.tp : Int)
def ResultIn.fn (r : ResultIn) : Int := (r.nRef : Int) - (r.tp : Int)

/-- `rq` -/
def ResultIn.rq (r : ResultIn) : RVal :=
  if r.tp == 0 then (if r.nPred + r.nRef > 0 then .num 0 else .nan)
  else
    let d : Rat := (2 * (r.tp : Int) + r.fp + r.fn : Int)
    if d == 0 then .nan   -- ZeroDivisionError in Python; only for inconsistent direct construction
    else .num ((2 * (r.tp : Int) : Int) / d)

/-- `prec`, `rec`: `none` = ZeroDivisionError (metric stays uncomputed) -/
def ResultIn.precision (r : ResultIn) : Option Rat :=
  let d : Int := (r.tp : Int) + r.fp
  if d == 0 then none else some (((r.tp : Int) : Rat) / (d : Rat))
def ResultIn.recall (r : ResultIn) : Option Rat :=
  let d : Int := (r.tp : Int) + r.fn
  if d == 0 then none else some (((r.tp : Int) : Rat) / (d : Rat))

/-- the list metric for `m` as built in `PanopticaResult.__init__`;
    `none` when `m` was not evaluated; `error` when the handler does not define `m` at tp = 0 -/
def ResultIn.listMetric (r : ResultIn) (m : Metric) : Except String (Option ListMetric) :=
  match (r.lists.find? (fun e => e.1 == m)) with
  | none => .ok none
  | some (_, vals) =>
    match r.handler.handleZeroTP m r.tp r.nPred r.nRef with
    | none => .error "NotImplementedError: no edge handling for metric"
    | some (isEdge, ev) => .ok (some (mkListMetric r.handler.emptyListStd vals isEdge ev))

def ResultIn.sq (r : ResultIn) (m : Metric) : Except String (Option RVal) := do
  let lm ← r.listMetric m
  pure (lm.map (·.avg))

def ResultIn.sqStdSq (r : ResultIn) (m : Metric) : Except String (Option RVal) := do
  let lm ← r.listMetric m
  pure (lm.map (·.stdSq))

/-- `pq_<m> = sq_<m> * rq` (`none`: not computable, key absent from `to_dict`) -/
def ResultIn.pq (r : ResultIn) (m : Metric) : Except String (Option RVal) := do
  match ← r.sq m with
  | none => pure none
  | some s => pure (mulVal s r.rq)

/-- `_handle_zero_instances_cases`: early exit to a result when a side has no instances -/
def zeroInstancesCase (nPred nRef : Nat) (evalMetrics : List Metric) (h : Handler) : Option ResultIn :=
  if nPred == 0 || nRef == 0 then
    some { nRef := nRef, nPred := nPred, tp := 0, lists := evalMetrics.map (fun m => (m, [])), handler := h }
  else none

/-- `_calc_global_bin_metric` (after the fix): handler value when a foreground is empty, else the
    metric on the binarised arrays (`metricVal`, a parameter). `none` = handler lacks the metric. -/
def globalBin (h : Handler) (m : Metric) (predEmpty refEmpty : Bool) (metricVal : RVal) : Option RVal :=
  if predEmpty || refEmpty then
    match h.handleZeroTP m 0 (if predEmpty then 0 else 1) (if refEmpty then 0 else 1) with
    | none => none
    | some (_, ev) => some (edgeToVal ev)
  else some metricVal

/-- pre-fix argument order (emptiness flags passed as counts), kept to document the repaired defect -/
def globalBinLegacy (h : Handler) (m : Metric) (predEmpty refEmpty : Bool) (metricVal : RVal) : Option RVal :=
  if predEmpty || refEmpty then
    match h.handleZeroTP m 0 (if predEmpty then 1 else 0) (if refEmpty then 1 else 0) with
    | none => none
    | some (_, ev) => some (edgeToVal ev)
  else some metricVal

end Panoptica
