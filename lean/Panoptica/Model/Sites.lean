/-
  Panoptica.Model.Sites — small deep embeddings of two decision expressions that the extractor
  (harness/extract/key_exprs.py) reads from the source on every run, with interpreters:
  `score_beats_threshold` (metrics/metrics.py, both copies) and the scenario `if/elif` chain of
  `MetricZeroTPEdgeCaseHandling.__call__` (utils/edge_case_handling.py).
  The obligations (Extracted/Sites.lean) are *semantic*: the interpreted extracted tree must agree
  with the model on every abstract case, so a rewrite that keeps the meaning keeps the obligation.
-/
import Panoptica.Model.Basic
import Panoptica.Model.Result
namespace Panoptica.Sites

inductive Cmp where
  | ge | le | gt | lt | eq
  deriving DecidableEq, Repr

/-- boolean expressions over `self.increasing`, `self.decreasing` and comparisons
    `matching_score <op> matching_threshold` -/
inductive BExpr where
  | increasing | decreasing
  | cmp (c : Cmp)
  | and (a b : BExpr)
  | or (a b : BExpr)
  | not (a : BExpr)
  | ite (c a b : BExpr)          -- `a if c else b`
  | other (src : String)
  deriving DecidableEq, Repr

/-- how the score compares with the threshold -/
inductive Ord3 where
  | lt | eq | gt
  deriving DecidableEq, Repr

def Ord3.all : List Ord3 := [.lt, .eq, .gt]

theorem Ord3.mem_all (o : Ord3) : o ∈ Ord3.all := by cases o <;> simp [Ord3.all]

def Cmp.eval : Cmp → Ord3 → Bool
  | .ge, o => o != .lt
  | .le, o => o != .gt
  | .gt, o => o == .gt
  | .lt, o => o == .lt
  | .eq, o => o == .eq

def BExpr.eval (dec : Bool) (o : Ord3) : BExpr → Option Bool
  | .increasing => some (!dec)
  | .decreasing => some dec
  | .cmp c => some (c.eval o)
  | .and a b => do pure ((← a.eval dec o) && (← b.eval dec o))
  | .or a b => do pure ((← a.eval dec o) || (← b.eval dec o))
  | .not a => do pure (!(← a.eval dec o))
  | .ite c a b => do if (← c.eval dec o) then a.eval dec o else b.eval dec o
  | .other _ => none

/-- the model's `beats` on the three-way abstraction -/
def beatsAbs (dec : Bool) (o : Ord3) : Bool := if dec then o != .gt else o != .lt

/-- three-way comparison induced by a total preorder `le` -/
def ord3 {S : Type} (le : S → S → Bool) (s t : S) : Ord3 :=
  if le s t && le t s then .eq else if le s t then .lt else .gt

/-! scenario chain -/

inductive Cond where
  | tpNonzero | sumZero | refZero | predZero | bothPos
  | tt                              -- a final `else`
  | not (a : Cond) | and (a b : Cond) | or (a b : Cond)
  | other (src : String)
  deriving DecidableEq, Repr

inductive Res where
  | noEdge
  | scenario (name : String)
  | other (src : String)
  deriving DecidableEq, Repr

/-- abstract call: is tp zero, is num_pred zero, is num_ref zero -/
def Cond.eval (tpZ pZ rZ : Bool) : Cond → Option Bool
  | .tpNonzero => some (!tpZ)
  | .sumZero => some (pZ && rZ)
  | .refZero => some rZ
  | .predZero => some pZ
  | .bothPos => some (!pZ && !rZ)
  | .tt => some true
  | .not a => (a.eval tpZ pZ rZ).map (!·)
  | .and a b => match a.eval tpZ pZ rZ, b.eval tpZ pZ rZ with
    | some x, some y => some (x && y) | _, _ => none
  | .or a b => match a.eval tpZ pZ rZ, b.eval tpZ pZ rZ with
    | some x, some y => some (x || y) | _, _ => none
  | .other _ => none

/-- first branch whose condition holds (`none`: a condition outside the embedding, or fall-through) -/
def chainEval (tpZ pZ rZ : Bool) : List (Cond × Res) → Option Res
  | [] => none
  | (c, r) :: rest =>
    match c.eval tpZ pZ rZ with
    | none => none
    | some true => some r
    | some false => chainEval tpZ pZ rZ rest

def scenarioName : Scenario → String
  | .NO_INSTANCES => "NO_INSTANCES" | .EMPTY_PRED => "EMPTY_PRED" | .EMPTY_REF => "EMPTY_REF" | .NORMAL => "NORMAL"

/-- what the model says for the abstract call (counts 0 or 1 stand for zero / non-zero) -/
def modelChain (tpZ pZ rZ : Bool) : Res :=
  if !tpZ then .noEdge
  else .scenario (scenarioName (scenarioOf (if pZ then 0 else 1) (if rZ then 0 else 1)))

/-! matcher loop bodies (`NaiveThresholdMatching._match_instances`, `MaximizeMergeMatching._match_instances`) -/

/-- strict improvement on the three-way abstraction (`new` compared with `old`) -/
def strictlyBetterAbs (dec : Bool) (o : Ord3) : Bool := if dec then o == .lt else o == .gt

inductive LCond where
  | containsPred            -- labelmap.contains_pred(pred_label)
  | containsRef             -- labelmap.contains_ref(ref_label)
  | allowManyToOne          -- self._allow_many_to_one
  | beats                   -- self._matching_metric.score_beats_threshold(matching_score, self._matching_threshold)
  | improves (e : BExpr)    -- an expression over increasing / decreasing and new_score <op> score_ref[ref_label]
  | not (a : LCond)
  | and (a b : LCond)
  | or (a b : LCond)
  | other (src : String)
  deriving Repr

/-- one abstract situation of one loop iteration -/
structure LEnv where
  cp : Bool        -- prediction label already assigned
  cr : Bool        -- reference label already assigned
  m2o : Bool
  beats : Bool     -- candidate score passes the threshold
  dec : Bool       -- metric is decreasing
  o : Ord3         -- new combination score compared with the stored score of the reference
  deriving DecidableEq, Repr

def LCond.eval (v : LEnv) : LCond → Option Bool
  | .containsPred => some v.cp
  | .containsRef => some v.cr
  | .allowManyToOne => some v.m2o
  | .beats => some v.beats
  | .improves e => e.eval v.dec v.o
  | .not a => (a.eval v).map (!·)
  | .and a b => match a.eval v, b.eval v with
    | some x, some y => some (x && y) | _, _ => none
  | .or a b => match a.eval v, b.eval v with
    | some x, some y => some (x || y) | _, _ => none
  | .other _ => none

inductive LAct where
  | add          -- labelmap.add_labelmap_entry(pred_label, ref_label)
  | setNew       -- score_ref[ref_label] = new_score
  | setMatch     -- score_ref[ref_label] = matching_score
  deriving DecidableEq, Repr

inductive LProg where
  | nil
  | cont                                      -- `continue`
  | act (a : LAct) (rest : LProg)
  | ite (c : LCond) (t e rest : LProg)
  | other (src : String)
  deriving Repr

/-- actions of one iteration; the flag says `continue` was executed -/
def LProg.exec (v : LEnv) : LProg → Option (List LAct × Bool)
  | .nil => some ([], false)
  | .cont => some ([], true)
  | .other _ => none
  | .act a rest => match rest.exec v with
    | some (as, r) => some (a :: as, r)
    | none => none
  | .ite c t e rest =>
    match c.eval v with
    | none => none
    | some b =>
      match (if b then t.exec v else e.exec v) with
      | none => none
      | some (as, true) => some (as, true)
      | some (as, false) => match rest.exec v with
        | some (bs, r) => some (as ++ bs, r)
        | none => none

/-- what the model's `naiveStep` does in situation `v` -/
def naiveAbs (v : LEnv) : List LAct :=
  if v.cp || (v.cr && !v.m2o) then [] else if v.beats then [.add] else []

/-- what the model's `mergeStep` does in situation `v` -/
def mergeAbs (v : LEnv) : List LAct :=
  if v.cp then []
  else if v.cr then (if strictlyBetterAbs v.dec v.o then [.add, .setNew] else [])
  else if v.beats then [.add, .setMatch] else []

def LEnv.all : List LEnv :=
  [false, true].flatMap fun cp => [false, true].flatMap fun cr => [false, true].flatMap fun m2o =>
  [false, true].flatMap fun b => [false, true].flatMap fun dec => Ord3.all.map fun o => ⟨cp, cr, m2o, b, dec, o⟩

/-! the edge-case call of `PanopticaResult._calc_global_bin_metric` -/

inductive GExpr where
  | predEmpty | refEmpty
  | lit (n : Nat)
  | not (a : GExpr) | or (a b : GExpr) | and (a b : GExpr)
  | intOf (a : GExpr)
  | other (src : String)
  deriving Repr

/-- booleans as 0 / 1, like Python's `int(bool)` -/
def GExpr.eval (pe re : Bool) : GExpr → Option Nat
  | .predEmpty => some pe.toNat
  | .refEmpty => some re.toNat
  | .lit n => some n
  | .not a => (a.eval pe re).map (fun x => if x = 0 then 1 else 0)
  | .or a b => match a.eval pe re, b.eval pe re with
    | some x, some y => some (if x ≠ 0 then x else y) | _, _ => none
  | .and a b => match a.eval pe re, b.eval pe re with
    | some x, some y => some (if x = 0 then x else y) | _, _ => none
  | .intOf a => a.eval pe re
  | .other _ => none

/-- guard of the edge-case branch and the three count arguments handed to `handle_zero_tp` -/
structure GCall where
  guard : GExpr
  tp : GExpr
  nPred : GExpr
  nRef : GExpr
  metricArgOk : Bool      -- first argument is the metric being computed
  returnsResultIfEdge : Bool
  deriving Repr

/-! a generic guarded-action language over named atoms, for loop bodies whose atoms are plain
    predicates (the decision loop of `evaluate_matched_instance`) -/

inductive NCond where
  | atom (n : String)
  | not (a : NCond) | and (a b : NCond) | or (a b : NCond)
  | other (src : String)
  deriving Repr

def NCond.eval (v : String → Option Bool) : NCond → Option Bool
  | .atom n => v n
  | .not a => (a.eval v).map (!·)
  | .and a b => match a.eval v, b.eval v with
    | some x, some y => some (x && y) | _, _ => none
  | .or a b => match a.eval v, b.eval v with
    | some x, some y => some (x || y) | _, _ => none
  | .other _ => none

inductive NProg where
  | nil
  | cont
  | act (n : String) (rest : NProg)
  | ite (c : NCond) (t e rest : NProg)
  | other (src : String)
  deriving Repr

def NProg.exec (v : String → Option Bool) : NProg → Option (List String × Bool)
  | .nil => some ([], false)
  | .cont => some ([], true)
  | .other _ => none
  | .act a rest => match rest.exec v with
    | some (as, r) => some (a :: as, r)
    | none => none
  | .ite c t e rest =>
    match c.eval v with
    | none => none
    | some b =>
      match (if b then t.exec v else e.exec v) with
      | none => none
      | some (as, true) => some (as, true)
      | some (as, false) => match rest.exec v with
        | some (bs, r) => some (as ++ bs, r)
        | none => none

/-- valuation of the three atoms of the decision loop -/
def decisionVal (decisionNone thresholdSet decisionBeats : Bool) : String → Option Bool
  | "decisionNone" => some decisionNone
  | "thresholdSet" => some thresholdSet
  | "decisionBeats" => some decisionBeats
  | _ => none

end Panoptica.Sites
