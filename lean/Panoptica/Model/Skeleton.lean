/-
  Panoptica.Model.Skeleton — the lock / file-operation skeleton of `Panoptica_Aggregator`
  (`evaluate` with `_save_one_subject` inlined, `make_statistic`, and the file part of `__init__`)
  as a small program language that the extractor (harness/extract/agg_skeleton.py) reads from the
  source on every run, with an interpreter `exec` that produces the sequence of lock and file
  events of one call under a given outcome of the guards.

  On the model side the same sequences are *computed from the step functions the C16 / C17 theorems
  are about* (`Agg.step` run solo, `Agg.ctorStep` iterated). The obligations in
  `Extracted/Skeleton.lean` say the two agree for every outcome of the guards, so they are semantic:
  re-arranging the source without changing which operation happens under which lock, in which
  order, on which path, keeps them.
-/
import Panoptica.Model.Aggregator
namespace Panoptica.Agg

inductive LockName where
  | l1   -- inevalfilelock
  | l2   -- filelock
  deriving DecidableEq, Repr

inductive FileName where
  | out | buf
  deriving DecidableEq, Repr

inductive Act where
  | load (f : FileName)     -- _load_first_column_entries(f)
  | readHdr                 -- _read_first_row(output file)
  | write (f : FileName)    -- _write_content(f, …)
  | remove (f : FileName)   -- os.remove(f)
  | create (f : FileName)   -- open(f, "a").close()
  | compute                 -- evaluator.evaluate(…)
  | statRead                -- Panoptica_Statistic.from_file(output file)
  deriving DecidableEq, Repr

inductive Guard where
  | claimed        -- subject_name in id_list
  | outExists      -- output_file.exists()
  | hdrEmpty       -- len(header_list) == 0
  | hdrMatches     -- header hash equals the hash of the first row
  | bufExists      -- out_buffer_file.exists()
  | continueFile   -- continue_file
  deriving DecidableEq, Repr

inductive Ev where
  | acquire (l : LockName)
  | release (l : LockName)
  | act (a : Act)
  | raised
  deriving DecidableEq, Repr

/-- straight-line programs with `with lock:` blocks, two-way branches, `return` and `assert` -/
inductive Prog where
  | nil
  | act (a : Act) (rest : Prog)
  | withLock (l : LockName) (body rest : Prog)
  | ite (g : Guard) (neg : Bool) (thenB elseB rest : Prog)
  | assertG (g : Guard) (rest : Prog)
  | ret
  | other (src : String)        -- a statement outside the extractor's subset
  deriving Repr

/-- events of one call; the flag says the call has ended (return / raise) inside this fragment.
    Leaving a `with` block by `return` or by an exception releases the lock. -/
def Prog.exec (env : Guard → Bool) : Prog → Option (List Ev × Bool)
  | .nil => some ([], false)
  | .ret => some ([], true)
  | .other _ => none
  | .act a rest =>
    match rest.exec env with
    | some (es, r) => some (.act a :: es, r)
    | none => none
  | .assertG g rest => if env g then rest.exec env else some ([.raised], true)
  | .withLock l body rest =>
    match body.exec env with
    | none => none
    | some (eb, true) => some (.acquire l :: eb ++ [.release l], true)
    | some (eb, false) =>
      match rest.exec env with
      | some (er, r) => some (.acquire l :: eb ++ [.release l] ++ er, r)
      | none => none
  | .ite g neg t e rest =>
    match (if env g != neg then t.exec env else e.exec env) with
    | none => none
    | some (eb, true) => some (eb, true)
    | some (eb, false) =>
      match rest.exec env with
      | some (er, r) => some (eb ++ er, r)
      | none => none

/-! ### the same sequences, computed from the model's step functions -/

def pcEvs : PC → List Ev
  | .start => [.acquire .l1]
  | .read => [.act (.load .buf)]
  | .writeBuf => [.act (.write .buf)]
  | .relL1 | .relL1Skip => [.release .l1]
  | .compute => [.act .compute]
  | .wantL2 | .sWant => [.acquire .l2]
  | .writeOut1 => [.act (.write .out)]     -- the row append is one `_write_content` call,
  | .writeOut2 => []                        -- modelled as two steps
  | .relL2 | .sRel => [.release .l2]
  | .sRead => [.act .statRead]
  | .done => []

/-- program counters thread `i` goes through when it runs alone -/
def soloTrace (name : Nat → Nat) (s : St) (i : Nat) : Nat → List PC
  | 0 => []
  | n + 1 => match step name s i with
    | some s' => s.pc i :: soloTrace name s' i n
    | none => []

def soloEvs (name : Nat → Nat) (s : St) (i : Nat) (fuel : Nat) : List Ev :=
  (soloTrace name s i fuel).flatMap pcEvs

def cpcEvs (w : World) : CPC → List Ev
  | .checkExists => []
  | .writeHdrNew | .writeHdrEmpty => [.act (.write .out)]
  | .readHdr => [.act .readHdr]
  | .rmBuf => if w.bufExists then [.act (.remove .buf)] else []
  | .mkBuf => [.act (.create .buf)]
  | .acq1 => [.acquire .l1]
  | .acq2 => [.acquire .l2]
  | .readIds => [.act (.load .out)]
  | .writeIds _ => [.act (.write .buf)]
  | .rel2 => [.release .l2]
  | .rel1 => [.release .l1]

/-- events of the constructor from world `w`; the flag says it raised -/
def ctorEvs (w : World) : Nat → List Ev × Bool
  | 0 => ([], false)
  | n + 1 => match w.phase with
    | .ctor pc => let r := ctorEvs (ctorStep w pc) n; (cpcEvs w pc ++ r.1, r.2)
    | .failed => ([.raised], true)
    | _ => ([], false)

/-- guard outcomes the constructor sees in world `w` (`continue_file` left at its default) -/
def ctorEnv (w : World) : Guard → Bool
  | .outExists => w.outExists
  | .hdrEmpty => w.hdrs = 0 ∧ w.st.out = []
  | .hdrMatches => w.hdrs ≠ 0
  | .bufExists => w.bufExists
  | .continueFile => true
  | .claimed => false

def evalEnv (claimed : Bool) : Guard → Bool
  | .claimed => claimed
  | _ => false

/-- the file states the constructor can meet: output absent / empty / header only / header and
    rows / rows without header (foreign first row), each with and without a stale buffer file -/
def ctorWorlds : List World :=
  [false, true].flatMap fun bufE =>
    [ initWorld false false [] bufE [], initWorld true false [] bufE [], initWorld true true [] bufE [],
      initWorld true true [⟨3, 0, true⟩] bufE [3], initWorld true false [⟨3, 0, true⟩] bufE [] ].map
      fun w => { w with phase := .ctor .checkExists }

end Panoptica.Agg
