/-
  Panoptica.Model.StatsCode — the decisions of the statistics side (panoptica_statistics.py), as read from the
  source by harness/extract/stats_code.py: how `from_file` classifies one table cell (a decision tree over what
  the cell holds), what `ValueSummary` computes its four fields with, which filter `get(..., remove_nones=True)`
  applies, and what `get_summary` / `get_summary_across_groups` summarise.  Obligations: Extracted/StatsCode.lean.
-/
import Panoptica.Model.Table
namespace Panoptica.StatsCode

/-- what a cell of the table holds -/
inductive Cell where
  | empty | finite | nan | posInf | negInf
  deriving DecidableEq, Repr

/-- tests the loader applies to a cell / to the float read from it (`none`: the test cannot be evaluated — `float("")`) -/
inductive FCond where
  | nonEmpty            -- len(value) > 0, value != "", value
  | isNan | isInf       -- np.isnan(v) / math.isnan(v), np.isinf(v) / math.isinf(v)
  | isFinite            -- np.isfinite(v) / math.isfinite(v)
  | ltInf | gtNegInf    -- v < inf, v > -inf
  | isNone              -- v is None (never true for a float)
  | not (c : FCond) | and (a b : FCond) | or (a b : FCond)
  | other (src : String)
  deriving Repr

def FCond.eval (k : Cell) : FCond → Option Bool
  | .nonEmpty => some (k != .empty)
  | .isNan => if k = .empty then none else some (k = .nan)
  | .isInf => if k = .empty then none else some (k = .posInf || k = .negInf)
  | .isFinite => if k = .empty then none else some (k = .finite)
  | .ltInf => if k = .empty then none else some (k = .finite || k = .negInf)      -- NaN compares false
  | .gtNegInf => if k = .empty then none else some (k = .finite || k = .posInf)
  | .isNone => some false
  | .not c => (c.eval k).map (!·)
  | .and a b => match a.eval k with          -- Python's `and` / `or` short-circuit
    | some false => some false
    | some true => b.eval k
    | none => none
  | .or a b => match a.eval k with
    | some true => some true
    | some false => b.eval k
    | none => none
  | .other _ => none

inductive Leaf where
  | keep | missing | other (src : String)
  deriving DecidableEq, Repr

inductive CellTree where
  | leaf (l : Leaf)
  | ite (c : FCond) (t e : CellTree)
  deriving Repr

def CellTree.eval (k : Cell) : CellTree → Option Leaf
  | .leaf l => some l
  | .ite c t e => match c.eval k with
    | some true => t.eval k
    | some false => e.eval k
    | none => none

/-- the model's classification (Model/Table.lean `classify`), on cell kinds -/
def expectedLeaf : Cell → Leaf
  | .finite => .keep
  | _ => .missing

end Panoptica.StatsCode
