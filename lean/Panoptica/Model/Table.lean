/-
  Panoptica.Model.Table — what the aggregator writes (header cells `<group>-<metric>`, one row per
  subject; panoptica_aggregator.py) and what the statistics loader reads back
  (panoptica_statistics.py: header parsing by splitting at the last '-', value classification,
  per-subject lookup, summaries).  The csv quoting layer and float<->text are external: the model
  works on lists of cells; names are `List Char`.
-/
namespace Panoptica.Tbl

abbrev Str := List Char

/-- a value as written into a cell: a finite float (abstract token `F`), or one of the
    non-finite / absent values -/
inductive WVal (F : Type) where
  | fin (x : F)
  | nan | inf | ninf
  | none            -- Python `None` (csv writes the empty string)
  deriving DecidableEq, Repr

/-- the loader's classification: only finite values are kept, everything else is "missing" -/
def classify {F : Type} : Option (WVal F) → Option F
  | some (.fin x) => some x
  | _ => Option.none          -- NaN, ±inf, None, and "key absent from to_dict" (empty cell)

def subjectCol : Str := "subject_name".toList

def headerCell (g m : Str) : Str := g ++ '-' :: m

/-- `["subject_name"] + [f"{g}-{m}" for g in groups for m in metrics]` -/
def mkHeader (groups keys : List Str) : List Str :=
  subjectCol :: groups.flatMap (fun g => keys.map (fun m => headerCell g m))

/-- split at the last '-' (`c.rsplit("-", 1)`): (before, after); no '-' gives ([], c) -/
def rsplitDash : Str → Str × Str
  | [] => ([], [])
  | c :: cs =>
    let (a, b) := rsplitDash cs
    if cs.contains '-' then (c :: a, b)
    else if c == '-' then ([], cs)
    else ([], c :: cs)

/-- `_save_one_subject`: subject name followed by one cell per (group, key) in header order;
    `res g m = none` means the key is absent from `to_dict()` (empty cell) -/
def mkRow {F : Type} (groups keys : List Str) (subject : Str) (res : Str → Str → Option (WVal F)) :
    Str × List (Option (WVal F)) :=
  (subject, groups.flatMap (fun g => keys.map (fun m => res g m)))

structure Loaded (F : Type) where
  subjects : List Str
  keys : List (Str × Str)                 -- keys_in_order
  cols : List (List (Option F))           -- per row, per column (row-major)

/-- `Panoptica_Statistic.from_file` on header + rows -/
def load {F : Type} (header : List Str) (rows : List (Str × List (Option (WVal F)))) : Loaded F :=
  { subjects := rows.map (·.1),
    keys := header.tail.map rsplitDash,
    cols := rows.map (fun r => r.2.map classify) }

/-- `get_one_subject(s)[g][m]`: the value in the row of the first subject named `s`, in the first
    column whose parsed key is `(g, m)` -/
def Loaded.get {F : Type} (t : Loaded F) (s g m : Str) : Option (Option F) :=
  match t.subjects.idxOf? s, t.keys.idxOf? (g, m) with
  | some i, some j => (t.cols[i]?).bind (fun row => row[j]?)
  | _, _ => none

/-- `get(g, m)`: the column over all subjects -/
def Loaded.column {F : Type} (t : Loaded F) (g m : Str) : List (Option F) :=
  match t.keys.idxOf? (g, m) with
  | some j => t.cols.map (fun row => (row[j]?).getD none)
  | none => []

/-! ### summaries (ValueSummary, get_summary, get_summary_across_groups) -/

def finite (l : List (Option Rat)) : List Rat := l.filterMap id

def sumQ (l : List Rat) : Rat := l.foldl (· + ·) 0

structure Summary where
  avg : Rat
  var : Rat       -- population variance = std²
  min : Rat
  max : Rat
  deriving Repr

def minQ : List Rat → Rat
  | [] => 0
  | x :: xs => xs.foldl (fun a b => if b < a then b else a) x
def maxQ : List Rat → Rat
  | [] => 0
  | x :: xs => xs.foldl (fun a b => if a < b then b else a) x

/-- `ValueSummary(values)` for a non-empty list of finite values -/
def summarize (vals : List Rat) : Summary :=
  let n : Rat := (vals.length : Rat)
  let mu := sumQ vals / n
  { avg := mu, var := sumQ (vals.map (fun x => (x - mu) * (x - mu))) / n, min := minQ vals, max := maxQ vals }

/-- `get_summary(g, m)`: statistics of the finite recorded values of the column -/
def summary (col : List (Option Rat)) : Summary := summarize (finite col)

/-- `get_summary_across_groups()[m]`: the same statistics over the per-group averages -/
def acrossGroups (cols : List (List (Option Rat))) : Summary :=
  summarize (cols.map (fun c => (summary c).avg))

end Panoptica.Tbl
