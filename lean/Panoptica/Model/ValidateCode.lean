/-
  Panoptica.Model.ValidateCode — input validation of the processing pairs (utils/processing_pair.py `_check_array_integrity`):
  the language the extractor harness/extract/validate_code.py emits, and the model's acceptance predicate.
-/
namespace Panoptica.VCode

/-- the facts about a call `_check_array_integrity(prediction, reference, dtype)` -/
structure Facts where
  predIsArray : Bool
  refIsArray : Bool
  shapesEqual : Bool
  dtypesEqual : Bool
  predSub : Bool        -- prediction dtype is a sub-dtype of the expected one
  refSub : Bool
  dtypeGiven : Bool
  deriving DecidableEq, Repr

inductive V where
  | predIsArray | refIsArray | shapesEqual | dtypesEqual | predSub | refSub | dtypeGiven
  | not (a : V) | and (a b : V) | or (a b : V)
  | other (src : String)
  deriving Repr

def V.eval (f : Facts) : V → Option Bool
  | .predIsArray => some f.predIsArray | .refIsArray => some f.refIsArray
  | .shapesEqual => some f.shapesEqual | .dtypesEqual => some f.dtypesEqual
  | .predSub => some f.predSub | .refSub => some f.refSub | .dtypeGiven => some f.dtypeGiven
  | .not a => (a.eval f).map (!·)
  | .and a b => match a.eval f, b.eval f with | some x, some y => some (x && y) | _, _ => none
  | .or a b => match a.eval f, b.eval f with | some x, some y => some (x || y) | _, _ => none
  | .other _ => none

/-- every requirement holds -/
def accepts (rs : List V) (f : Facts) : Option Bool :=
  rs.foldl (fun acc r => match acc, r.eval f with | some a, some b => some (a && b) | _, _ => none) (some true)

/-- the model: a pair is accepted iff both are arrays of one shape and one dtype, and — when a dtype is expected — that dtype is
    of the expected kind -/
def modelAccepts (f : Facts) : Bool :=
  f.predIsArray && f.refIsArray && f.shapesEqual && f.dtypesEqual && (!f.dtypeGiven || (f.predSub && f.refSub))

/-- expected dtype kinds -/
inductive D where
  | anyInteger | unsignedInteger | signedInteger | noCheck
  | param (i : Nat)
  | other (src : String)
  deriving DecidableEq, Repr

def allFacts : List Facts :=
  [true, false].flatMap fun a => [true, false].flatMap fun b => [true, false].flatMap fun c => [true, false].flatMap fun d =>
  [true, false].flatMap fun e => [true, false].flatMap fun g => [true, false].map fun h => ⟨a, b, c, d, e, g, h⟩

end Panoptica.VCode
