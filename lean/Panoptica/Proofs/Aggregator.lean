/- helper lemmas for C16 / C17 (aggregator machine invariants) -/
import Panoptica.Model.Aggregator
namespace Panoptica.Agg
end Panoptica.Agg
