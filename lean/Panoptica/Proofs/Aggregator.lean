/- helper lemmas for C16 / C17 (aggregator machine invariants) -/
import Panoptica.Model.Aggregator
namespace Panoptica.Agg

/-! ### auxiliary predicates on program counters -/

/-- thread holds `inevalfilelock` -/
def holds1 : PC → Bool
  | .read | .writeBuf | .relL1 | .relL1Skip => true
  | _ => false

/-- thread holds `filelock` -/
def holds2 : PC → Bool
  | .writeOut1 | .writeOut2 | .relL2 | .sRead | .sRel => true
  | _ => false

/-- claimed in the buffer, row not yet appended -/
def pending : PC → Bool
  | .relL1 | .compute | .wantL2 | .writeOut1 => true
  | _ => false

/-- the row of this thread has been appended -/
def wrote : PC → Bool
  | .writeOut2 | .relL2 | .done => true
  | _ => false

def statPc : PC → Bool
  | .sWant | .sRead | .sRel => true
  | _ => false

def initPc (kind : Nat → Kind) (i : Nat) : PC :=
  match kind i with | .eval => .start | .stat => .sWant

def names (l : List Row) : List Nat := l.map (·.name)

theorem names_nil : names [] = [] := rfl

theorem names_append (l : List Row) (r : Row) : names (l ++ [r]) = names l ++ [r.name] := by
  simp [names]

theorem mem_names_of_mem {l : List Row} {r : Row} (h : r ∈ l) : r.name ∈ names l :=
  List.mem_map.mpr ⟨r, h, rfl⟩

theorem exists_of_mem_names {l : List Row} {n : Nat} (h : n ∈ names l) : ∃ r ∈ l, r.name = n :=
  List.mem_map.mp h

/-! ### completeLast -/

theorem names_completeLast : ∀ l : List Row, names (completeLast l) = names l
  | [] => rfl
  | [r] => rfl
  | r :: r' :: rs => by
    have ih := names_completeLast (r' :: rs)
    simp only [completeLast, names, List.map_cons] at ih ⊢
    rw [ih]

theorem completeLast_complete : ∀ l : List Row,
    (∀ r ∈ l.dropLast, r.complete = true) → ∀ r ∈ completeLast l, r.complete = true
  | [], _, r, hr => by simp [completeLast] at hr
  | [x], _, r, hr => by
    simp only [completeLast, List.mem_singleton] at hr
    subst hr; rfl
  | x :: y :: rs, h, r, hr => by
    simp only [completeLast, List.mem_cons] at hr
    rw [List.dropLast_cons_cons] at h
    rcases hr with hr | hr
    · subst hr; exact h r List.mem_cons_self
    · exact completeLast_complete (y :: rs) (fun r' hr' => h r' (List.mem_cons_of_mem _ hr')) r hr

/-- every row of `completeLast l` comes from a row of `l` with the same name and thread, and is
    that very row if the latter was complete -/
theorem mem_completeLast : ∀ (l : List Row) (r : Row), r ∈ completeLast l →
    ∃ r' ∈ l, r'.name = r.name ∧ r'.tid = r.tid ∧ (r'.complete = true → r' = r)
  | [], r, hr => by simp [completeLast] at hr
  | [x], r, hr => by
    simp only [completeLast, List.mem_singleton] at hr
    subst hr
    refine ⟨x, List.mem_singleton.mpr rfl, rfl, rfl, ?_⟩
    intro hc; cases x; simp_all
  | x :: y :: rs, r, hr => by
    simp only [completeLast, List.mem_cons] at hr
    rcases hr with hr | hr
    · subst hr; exact ⟨r, List.mem_cons_self, rfl, rfl, fun _ => rfl⟩
    · obtain ⟨r', h1, h2⟩ := mem_completeLast (y :: rs) r hr
      exact ⟨r', List.mem_cons_of_mem _ h1, h2⟩

theorem mem_completeLast_of_complete : ∀ (l : List Row) (r : Row), r ∈ l → r.complete = true →
    r ∈ completeLast l
  | [], r, hr, _ => by simp at hr
  | [x], r, hr, hc => by
    simp only [List.mem_singleton] at hr
    subst hr
    simp only [completeLast, List.mem_singleton]
    cases r; simp_all
  | x :: y :: rs, r, hr, hc => by
    simp only [completeLast, List.mem_cons]
    rcases List.mem_cons.mp hr with hr | hr
    · exact Or.inl hr
    · exact Or.inr (mem_completeLast_of_complete (y :: rs) r hr hc)

/-! ### the protocol invariant -/

structure Inv (name : Nat → Nat) (kind : Nat → Kind) (old : List Row) (s : St) : Prop where
  bufNodup : s.buf.Nodup
  outNodup : (names s.out).Nodup
  outSub : ∀ n ∈ names s.out, n ∈ s.buf
  l1Own : ∀ i, holds1 (s.pc i) = true ↔ s.l1 = some i
  l2Own : ∀ i, holds2 (s.pc i) = true ↔ s.l2 = some i
  pendIn : ∀ i, pending (s.pc i) = true → name i ∈ s.buf ∧ name i ∉ names s.out
  pendUniq : ∀ i j, pending (s.pc i) = true → pending (s.pc j) = true → name i = name j → i = j
  wbFresh : ∀ i, s.pc i = .writeBuf → name i ∉ s.buf
  covered : ∀ n ∈ s.buf, n ∈ names s.out ∨ ∃ i, pending (s.pc i) = true ∧ name i = n
  doneIn : ∀ i, kind i = .eval →
    (s.pc i = .done ∨ s.pc i = .relL2 ∨ s.pc i = .relL1Skip ∨ s.pc i = .writeOut2) → name i ∈ s.buf
  partialA : ∀ r ∈ s.out.dropLast, r.complete = true
  partialB : ∀ r ∈ s.out, r.complete = false → s.pc r.tid = .writeOut2
  rowTid : ∀ r ∈ s.out, r ∈ old ∨ (kind r.tid = .eval ∧ name r.tid = r.name ∧ wrote (s.pc r.tid) = true)
  oldC : ∀ r ∈ old, r.complete = true
  oldKept : ∀ r ∈ old, r ∈ s.out
  seenC : ∀ i, ∀ r ∈ s.seen i, r.complete = true
  kindStat : ∀ i, kind i = .stat → statPc (s.pc i) = true ∨ s.pc i = .done
  kindEval : ∀ i, kind i = .eval → statPc (s.pc i) = false

section steps
variable (name : Nat → Nat) (kind : Nat → Kind) (old : List Row) (s : St) (i : Nat)

theorem inv_start (h : Inv name kind old s) (hpc : s.pc i = .start) (hl : s.l1 = none) :
    Inv name kind old { s with l1 := some i, pc := upd s.pc i .read } := by
  obtain ⟨h1,h2,h3,h4,h5,h6,h7,h8,h9,h10,h11,h12,h13,h14,h15,h16,h17,h18⟩ := h
  constructor <;> (try simp only []) <;>
    grind [upd, holds1, holds2, pending, wrote, statPc, List.nodup_append]

theorem inv_readSkip (h : Inv name kind old s) (hpc : s.pc i = .read) (hb : name i ∈ s.buf) :
    Inv name kind old { s with pc := upd s.pc i .relL1Skip } := by
  obtain ⟨h1,h2,h3,h4,h5,h6,h7,h8,h9,h10,h11,h12,h13,h14,h15,h16,h17,h18⟩ := h
  constructor <;> (try simp only []) <;>
    grind [upd, holds1, holds2, pending, wrote, statPc, List.nodup_append]

theorem inv_readNew (h : Inv name kind old s) (hpc : s.pc i = .read) (hb : name i ∉ s.buf) :
    Inv name kind old { s with pc := upd s.pc i .writeBuf } := by
  obtain ⟨h1,h2,h3,h4,h5,h6,h7,h8,h9,h10,h11,h12,h13,h14,h15,h16,h17,h18⟩ := h
  constructor <;> (try simp only []) <;>
    grind [upd, holds1, holds2, pending, wrote, statPc, List.nodup_append]

theorem inv_writeBuf (h : Inv name kind old s) (hpc : s.pc i = .writeBuf)  :
    Inv name kind old { s with buf := s.buf ++ [name i], pc := upd s.pc i .relL1 } := by
  obtain ⟨h1,h2,h3,h4,h5,h6,h7,h8,h9,h10,h11,h12,h13,h14,h15,h16,h17,h18⟩ := h
  constructor <;> (try simp only []) <;>
    grind [upd, holds1, holds2, pending, wrote, statPc, List.nodup_append]

theorem inv_relL1 (h : Inv name kind old s) (hpc : s.pc i = .relL1)  :
    Inv name kind old { s with l1 := none, pc := upd s.pc i .compute } := by
  obtain ⟨h1,h2,h3,h4,h5,h6,h7,h8,h9,h10,h11,h12,h13,h14,h15,h16,h17,h18⟩ := h
  constructor <;> (try simp only []) <;>
    grind [upd, holds1, holds2, pending, wrote, statPc, List.nodup_append]

theorem inv_relL1Skip (h : Inv name kind old s) (hpc : s.pc i = .relL1Skip)  :
    Inv name kind old { s with l1 := none, pc := upd s.pc i .done } := by
  obtain ⟨h1,h2,h3,h4,h5,h6,h7,h8,h9,h10,h11,h12,h13,h14,h15,h16,h17,h18⟩ := h
  constructor <;> (try simp only []) <;>
    grind [upd, holds1, holds2, pending, wrote, statPc, List.nodup_append]

theorem inv_compute (h : Inv name kind old s) (hpc : s.pc i = .compute)  :
    Inv name kind old { s with pc := upd s.pc i .wantL2 } := by
  obtain ⟨h1,h2,h3,h4,h5,h6,h7,h8,h9,h10,h11,h12,h13,h14,h15,h16,h17,h18⟩ := h
  constructor <;> (try simp only []) <;>
    grind [upd, holds1, holds2, pending, wrote, statPc, List.nodup_append]

theorem inv_wantL2 (h : Inv name kind old s) (hpc : s.pc i = .wantL2) (hl : s.l2 = none) :
    Inv name kind old { s with l2 := some i, pc := upd s.pc i .writeOut1 } := by
  obtain ⟨h1,h2,h3,h4,h5,h6,h7,h8,h9,h10,h11,h12,h13,h14,h15,h16,h17,h18⟩ := h
  constructor <;> (try simp only []) <;>
    grind [upd, holds1, holds2, pending, wrote, statPc, List.nodup_append]

theorem inv_writeOut1 (h : Inv name kind old s) (hpc : s.pc i = .writeOut1)  :
    Inv name kind old { s with out := s.out ++ [⟨name i, i, false⟩], pc := upd s.pc i .writeOut2 } := by
  obtain ⟨h1,h2,h3,h4,h5,h6,h7,h8,h9,h10,h11,h12,h13,h14,h15,h16,h17,h18⟩ := h
  have e5 := names_append s.out ⟨name i, i, false⟩
  have hk : kind i = .eval := by
    cases hk : kind i with
    | eval => rfl
    | stat => have := h17 i hk; simp [hpc, statPc] at this
  have e6 : (s.out ++ [(⟨name i, i, false⟩ : Row)]).dropLast = s.out := List.dropLast_concat
  constructor <;> (try simp only []) <;>
    grind [upd, holds1, holds2, pending, wrote, statPc, List.nodup_append]

theorem inv_writeOut2 (h : Inv name kind old s) (hpc : s.pc i = .writeOut2)  :
    Inv name kind old { s with out := completeLast s.out, pc := upd s.pc i .relL2 } := by
  obtain ⟨h1,h2,h3,h4,h5,h6,h7,h8,h9,h10,h11,h12,h13,h14,h15,h16,h17,h18⟩ := h
  have e1 := names_completeLast s.out
  have e2 := completeLast_complete s.out h11
  have e3 := mem_completeLast s.out
  have e4 := mem_completeLast_of_complete s.out
  have e7 : ∀ r ∈ (completeLast s.out).dropLast, r ∈ completeLast s.out := fun r hr => List.dropLast_subset _ hr
  constructor <;> (try simp only []) <;>
    grind [upd, holds1, holds2, pending, wrote, statPc, List.nodup_append]

theorem inv_relL2 (h : Inv name kind old s) (hpc : s.pc i = .relL2)  :
    Inv name kind old { s with l2 := none, pc := upd s.pc i .done } := by
  obtain ⟨h1,h2,h3,h4,h5,h6,h7,h8,h9,h10,h11,h12,h13,h14,h15,h16,h17,h18⟩ := h
  constructor <;> (try simp only []) <;>
    grind [upd, holds1, holds2, pending, wrote, statPc, List.nodup_append]

theorem inv_sWant (h : Inv name kind old s) (hpc : s.pc i = .sWant) (hl : s.l2 = none) :
    Inv name kind old { s with l2 := some i, pc := upd s.pc i .sRead } := by
  obtain ⟨h1,h2,h3,h4,h5,h6,h7,h8,h9,h10,h11,h12,h13,h14,h15,h16,h17,h18⟩ := h
  constructor <;> (try simp only []) <;>
    grind [upd, holds1, holds2, pending, wrote, statPc, List.nodup_append]

theorem inv_sRead (h : Inv name kind old s) (hpc : s.pc i = .sRead)  :
    Inv name kind old { s with seen := upd s.seen i s.out, pc := upd s.pc i .sRel } := by
  obtain ⟨h1,h2,h3,h4,h5,h6,h7,h8,h9,h10,h11,h12,h13,h14,h15,h16,h17,h18⟩ := h
  constructor <;> (try simp only []) <;>
    grind [upd, holds1, holds2, pending, wrote, statPc, List.nodup_append]

theorem inv_sRel (h : Inv name kind old s) (hpc : s.pc i = .sRel)  :
    Inv name kind old { s with l2 := none, pc := upd s.pc i .done } := by
  obtain ⟨h1,h2,h3,h4,h5,h6,h7,h8,h9,h10,h11,h12,h13,h14,h15,h16,h17,h18⟩ := h
  constructor <;> (try simp only []) <;>
    grind [upd, holds1, holds2, pending, wrote, statPc, List.nodup_append]

end steps

theorem step_inv (name : Nat → Nat) (kind : Nat → Kind) (old : List Row) (s s' : St) (i : Nat)
    (h : Inv name kind old s) (hs : step name s i = some s') : Inv name kind old s' := by
  unfold step at hs
  split at hs
  all_goals (try split at hs) <;> (try cases hs) <;> (try (injection hs with hs; subst hs))
  · exact inv_start name kind old s i h ‹_› ‹_›
  · exact inv_readSkip name kind old s i h ‹_› ‹_›
  · exact inv_readNew name kind old s i h ‹_› ‹_›
  · exact inv_writeBuf name kind old s i h ‹_›
  · exact inv_relL1 name kind old s i h ‹_›
  · exact inv_relL1Skip name kind old s i h ‹_›
  · exact inv_compute name kind old s i h ‹_›
  · exact inv_wantL2 name kind old s i h ‹_› ‹_›
  · exact inv_writeOut1 name kind old s i h ‹_›
  · exact inv_writeOut2 name kind old s i h ‹_›
  · exact inv_relL2 name kind old s i h ‹_›
  · exact inv_sWant name kind old s i h ‹_› ‹_›
  · exact inv_sRead name kind old s i h ‹_›
  · exact inv_sRel name kind old s i h ‹_›

section runs
variable (name : Nat → Nat) (kind : Nat → Kind)

theorem run_inv (old : List Row) (sched : List Nat) :
    ∀ s, Inv name kind old s → Inv name kind old (run name s sched) := by
  induction sched with
  | nil => intro s h; exact h
  | cons i is ih =>
    intro s h
    unfold run
    split
    · rename_i s' hs; exact ih s' (step_inv name kind old s s' i h hs)
    · exact ih s h

theorem initPc_cases (i : Nat) : initPc kind i = .start ∨ initPc kind i = .sWant := by
  unfold initPc; cases kind i <;> simp

theorem initSt_pc (old : List Row) (i : Nat) : (initSt kind old).pc i = initPc kind i := rfl

theorem init_inv (old : List Row) (hn : (names old).Nodup) (hc : ∀ r ∈ old, r.complete = true) :
    Inv name kind old (initSt kind old) := by
  have hp : ∀ i, (initSt kind old).pc i = .start ∨ (initSt kind old).pc i = .sWant := initPc_cases kind
  have hk : ∀ i, kind i = .stat → (initSt kind old).pc i = .sWant := by
    intro i h; simp [initSt, h]
  have hk' : ∀ i, kind i = .eval → (initSt kind old).pc i = .start := by
    intro i h; simp [initSt, h]
  have hb : (initSt kind old).buf = names old := rfl
  have ho : (initSt kind old).out = old := rfl
  have h1 : (initSt kind old).l1 = none := rfl
  have h2 : (initSt kind old).l2 = none := rfl
  have hs : ∀ i, (initSt kind old).seen i = [] := fun _ => rfl
  have hd : ∀ r ∈ old.dropLast, r ∈ old := fun r hr => List.dropLast_subset _ hr
  constructor <;> grind [holds1, holds2, pending, wrote, statPc]

/-- every thread that has left its initial program counter is below `N` -/
def Moved (N : Nat) (s : St) : Prop := ∀ i, s.pc i ≠ initPc kind i → i < N

theorem init_moved (old : List Row) (N : Nat) : Moved kind N (initSt kind old) := by
  intro i h; exact absurd rfl h

theorem step_progress (s s' : St) (i : Nat) (h : step name s i = some s') :
    remaining (s'.pc i) < remaining (s.pc i) ∧ ∀ j, j ≠ i → s'.pc j = s.pc j := by
  unfold step at h
  split at h
  all_goals (try split at h) <;> (try cases h) <;> (try (injection h with h; subst h))
  all_goals simp_all [upd, remaining]

theorem step_moved (N : Nat) (s s' : St) (i : Nat) (hi : i < N) (hm : Moved kind N s)
    (h : step name s i = some s') : Moved kind N s' := by
  intro j hj
  by_cases hji : j = i
  · subst hji; exact hi
  · rw [(step_progress name s s' i h).2 j hji] at hj; exact hm j hj

theorem run_moved (N : Nat) (sched : List Nat) :
    ∀ s, (∀ i ∈ sched, i < N) → Moved kind N s → Moved kind N (run name s sched) := by
  induction sched with
  | nil => intro s _ h; exact h
  | cons i is ih =>
    intro s hs h
    unfold run
    split
    · rename_i s' hst
      exact ih s' (fun j hj => hs j (List.mem_cons_of_mem _ hj))
        (step_moved name kind N s s' i (hs i List.mem_cons_self) h hst)
    · exact ih s (fun j hj => hs j (List.mem_cons_of_mem _ hj)) h

theorem run_append (s : St) (a b : List Nat) : run name s (a ++ b) = run name (run name s a) b := by
  induction a generalizing s with
  | nil => rfl
  | cons i is ih =>
    simp only [List.cons_append, run]
    split <;> exact ih _

theorem final_rows_gen (old : List Row) (N : Nat) (s : St) (hinv : Inv name kind old s)
    (hm : Moved kind N s) (hdone : ∀ i < N, s.pc i = .done) :
    (names s.out).Nodup ∧ (∀ r ∈ s.out, r.complete = true) ∧
    (∀ i < N, kind i = .eval → ∃ r ∈ s.out, r.name = name i) ∧
    (∀ r ∈ old, r ∈ s.out) ∧
    (∀ r ∈ s.out, r ∈ old ∨ (r.tid < N ∧ kind r.tid = .eval ∧ name r.tid = r.name)) := by
  have hmv : ∀ j, s.pc j ≠ .start → s.pc j ≠ .sWant → s.pc j = .done := by
    intro j h1 h2
    apply hdone j (hm j _)
    rcases initPc_cases kind j with h | h <;> rw [h] <;> assumption
  refine ⟨hinv.outNodup, ?_, ?_, hinv.oldKept, ?_⟩
  · intro r hr
    cases hc : r.complete with
    | true => rfl
    | false =>
      have h1 := hinv.partialB r hr hc
      have h2 := hmv r.tid (by simp [h1]) (by simp [h1])
      rw [h1] at h2; cases h2
  · intro i hi hk
    have hb := hinv.doneIn i hk (Or.inl (hdone i hi))
    rcases hinv.covered _ hb with h | ⟨j, hj, hn⟩
    · exact exists_of_mem_names h
    · have h2 := hmv j (by intro h; simp [h, pending] at hj) (by intro h; simp [h, pending] at hj)
      simp [h2, pending] at hj
  · intro r hr
    rcases hinv.rowTid r hr with h | ⟨h1, h2, h3⟩
    · exact Or.inl h
    · refine Or.inr ⟨hm r.tid ?_, h1, h2⟩
      rcases initPc_cases kind r.tid with h | h <;> rw [h] <;> intro h' <;> simp [h', wrote] at h3

theorem no_deadlock_gen (old : List Row) (N : Nat) (s : St) (h : Inv name kind old s)
    (hm : Moved kind N s) (i : Nat) (hiN : i < N) (hi : s.pc i ≠ .done) :
    ∃ j, j < N ∧ (step name s j).isSome = true := by
  by_cases h1 : (step name s i).isSome
  · exact ⟨i, hiN, h1⟩
  · have key1 : ∀ o, s.l1 = some o → ∃ j, j < N ∧ (step name s j).isSome = true := by
      intro o ho
      have := (h.l1Own o).mpr ho
      refine ⟨o, hm o ?_, ?_⟩
      · rcases initPc_cases kind o with h' | h' <;> rw [h'] <;> intro h'' <;> simp [h'', holds1] at this
      · unfold step
        revert this
        cases hpo : s.pc o <;> simp [holds1]
        split <;> rfl
    have key2 : ∀ o, s.l2 = some o → ∃ j, j < N ∧ (step name s j).isSome = true := by
      intro o ho
      have := (h.l2Own o).mpr ho
      refine ⟨o, hm o ?_, ?_⟩
      · rcases initPc_cases kind o with h' | h' <;> rw [h'] <;> intro h'' <;> simp [h'', holds2] at this
      · unfold step
        revert this
        cases hpo : s.pc o <;> simp [holds2]
    unfold step at h1
    split at h1 <;> simp_all
    all_goals
      first
      | (split at h1 <;> simp at h1; done)
      | (obtain ⟨o, ho⟩ := Option.ne_none_iff_exists'.mp h1; exact key1 o ho)
      | (obtain ⟨o, ho⟩ := Option.ne_none_iff_exists'.mp h1; exact key2 o ho)

/-- total number of steps the threads below `N` still have to take -/
def total (pc : Nat → PC) : Nat → Nat
  | 0 => 0
  | n + 1 => total pc n + remaining (pc n)

theorem total_congr (f g : Nat → PC) : ∀ N, (∀ i < N, f i = g i) → total f N = total g N
  | 0, _ => rfl
  | n + 1, h => by
    simp only [total]
    rw [total_congr f g n (fun i hi => h i (Nat.lt_succ_of_lt hi)), h n (Nat.lt_succ_self n)]

theorem total_lt (f g : Nat → PC) (j : Nat) (hj : remaining (f j) < remaining (g j))
    (ho : ∀ i, i ≠ j → f i = g i) : ∀ N, j < N → total f N < total g N
  | 0, h => absurd h (Nat.not_lt_zero _)
  | n + 1, h => by
    simp only [total]
    by_cases hjn : j = n
    · subst hjn
      rw [total_congr f g j (fun i hi => ho i (Nat.ne_of_lt hi))]
      omega
    · have := total_lt f g j hj ho n (by omega)
      rw [ho n (fun h => hjn h.symm)]
      omega

theorem total_zero (f : Nat → PC) : ∀ N, total f N = 0 → ∀ i < N, f i = .done
  | 0, _, i, hi => absurd hi (Nat.not_lt_zero _)
  | n + 1, h, i, hi => by
    simp only [total] at h
    by_cases hin : i = n
    · subst hin
      have : remaining (f i) = 0 := by omega
      revert this; cases f i <;> simp [remaining]
    · exact total_zero f n (by omega) i (by omega)

theorem can_finish_gen (old : List Row) (N : Nat) : ∀ (m : Nat) (s : St), total s.pc N = m →
    Inv name kind old s → Moved kind N s →
    ∃ more : List Nat, (∀ i ∈ more, i < N) ∧ ∀ i < N, (run name s more).pc i = .done := by
  intro m
  induction m using Nat.strongRecOn with
  | _ m ih =>
    intro s hm hinv hmv
    by_cases hall : ∀ i < N, s.pc i = .done
    · exact ⟨[], by simp, hall⟩
    · have ⟨i, hi⟩ : ∃ i, i < N ∧ s.pc i ≠ .done := by
        apply Classical.byContradiction
        intro hne
        apply hall
        intro i hi
        apply Classical.byContradiction
        intro hd
        exact hne ⟨i, hi, hd⟩
      obtain ⟨j, hjN, hj⟩ := no_deadlock_gen name kind old N s hinv hmv i hi.1 hi.2
      obtain ⟨s', hs'⟩ := Option.isSome_iff_exists.mp hj
      have hp := step_progress name s s' j hs'
      have hlt : total s'.pc N < m := by
        rw [← hm]; exact total_lt s'.pc s.pc j hp.1 hp.2 N hjN
      obtain ⟨more, h1, h2⟩ := ih _ hlt s' rfl (step_inv name kind old s s' j hinv hs')
        (step_moved name kind N s s' j hjN hmv hs')
      refine ⟨j :: more, ?_, ?_⟩
      · intro k hk
        rcases List.mem_cons.mp hk with hk | hk
        · subst hk; exact hjN
        · exact h1 k hk
      · intro k hk
        simp only [run, hs']
        exact h2 k hk

end runs

/-! ### constructor, crash, restart -/

section world
variable (name : Nat → Nat)

/-- same as `C17.FileOK` -/
def FileOK' (w : World) : Prop :=
  (w.outExists = false → w.hdrs = 0 ∧ w.st.out = []) ∧
  w.hdrs ≤ 1 ∧
  (w.st.out ≠ [] → w.hdrs = 1) ∧
  (w.st.out.map (·.name)).Nodup ∧
  (∀ r ∈ w.st.out, r.complete = false → w.phase = .running ∧ w.st.pc r.tid = .writeOut2)

/-- what the constructor has established when it is about to execute `pc` -/
def CtorOK (w : World) : CPC → Prop
  | .checkExists => True
  | .writeHdrNew => w.outExists = false
  | .readHdr => w.outExists = true
  | .writeHdrEmpty => w.outExists = true ∧ w.hdrs = 0 ∧ w.st.out = []
  | .rmBuf => w.outExists = true ∧ w.hdrs = 1
  | .mkBuf => w.outExists = true ∧ w.hdrs = 1 ∧ w.st.buf = []
  | .acq1 => w.outExists = true ∧ w.hdrs = 1 ∧ w.st.buf = []
  | .acq2 => w.outExists = true ∧ w.hdrs = 1 ∧ w.st.buf = [] ∧ w.st.l1 = some 0
  | .readIds => w.outExists = true ∧ w.hdrs = 1 ∧ w.st.buf = [] ∧ w.st.l1 = some 0 ∧ w.st.l2 = some 0
  | .writeIds ids => w.outExists = true ∧ w.hdrs = 1 ∧ w.st.buf = [] ∧ w.st.l1 = some 0 ∧
      w.st.l2 = some 0 ∧ ids = names w.st.out
  | .rel2 => w.outExists = true ∧ w.hdrs = 1 ∧ w.st.buf = names w.st.out ∧ w.st.l1 = some 0 ∧
      w.st.l2 = some 0
  | .rel1 => w.outExists = true ∧ w.hdrs = 1 ∧ w.st.buf = names w.st.out ∧ w.st.l1 = some 0 ∧
      w.st.l2 = none

def PhaseOK (w : World) : Phase → Prop
  | .idle => True
  | .failed => False
  | .running => w.outExists = true ∧ w.hdrs = 1 ∧ ∃ kind old, Inv name kind old w.st
  | .ctor pc => (∃ kind, w.st.pc = initPc kind ∧ w.st.seen = fun _ => []) ∧ CtorOK w pc

def WInv (w : World) : Prop := FileOK' w ∧ PhaseOK name w w.phase

theorem initSt_eq (kind : Nat → Kind) (st : St) (h1 : st.buf = names st.out) (h2 : st.l2 = none)
    (h3 : st.pc = initPc kind) (h4 : st.seen = fun _ => []) :
    { st with l1 := none } = initSt kind st.out := by
  obtain ⟨b, o, l1, l2, pc, seen⟩ := st
  simp only at h1 h2 h3 h4
  subst h1 h2 h3 h4
  rfl

theorem step_out_kept (s s' : St) (i : Nat) (h : step name s i = some s') (r : Row)
    (hr : r ∈ s.out) (hc : r.complete = true) : r ∈ s'.out := by
  have e4 := mem_completeLast_of_complete s.out r hr hc
  unfold step at h
  split at h
  all_goals (try split at h) <;> (try cases h) <;> (try (injection h with h; subst h))
  all_goals simp_all

theorem wstep_out_kept (w : World) (op : Op) (r : Row)
    (hr : r ∈ w.st.out) (hc : r.complete = true) : r ∈ (wstep name w op).st.out := by
  cases op with
  | newSession kind => simp only [wstep]; split <;> exact hr
  | ctor =>
    simp only [wstep]; split
    · rename_i pc _
      cases pc <;> simp only [ctorStep] <;> (try split) <;> (try split) <;> exact hr
    · exact hr
  | thread i =>
    simp only [wstep]; split
    · split
      · rename_i s' hs; exact step_out_kept name w.st s' i hs r hr hc
      · exact hr
    · exact hr
  | crash => simp only [wstep]; split <;> exact hr

theorem wrun_out_kept (ops : List Op) : ∀ (w : World) (r : Row),
    r ∈ w.st.out → r.complete = true → r ∈ (wrun name w ops).st.out := by
  induction ops with
  | nil => intro w r hr _; exact hr
  | cons op ops ih =>
    intro w r hr hc
    exact ih (wstep name w op) r (wstep_out_kept name w op r hr hc) hc

theorem rows_complete_of_not_running (w : World) (hf : FileOK' w) (hp : w.phase ≠ .running) :
    ∀ r ∈ w.st.out, r.complete = true := by
  intro r hr
  cases hc : r.complete with
  | true => rfl
  | false => exact absurd (hf.2.2.2.2 r hr hc).1 hp

theorem winv_ctor (w : World) (pc : CPC) (hw : WInv name w) (hph : w.phase = .ctor pc) :
    WInv name (ctorStep w pc) := by
  obtain ⟨hf, hp⟩ := hw
  have hcomp := rows_complete_of_not_running w hf (by rw [hph]; intro h; cases h)
  obtain ⟨f1, f2, f3, f4, f5⟩ := hf
  rw [hph] at hp
  obtain ⟨⟨kind, hk1, hk2⟩, hc⟩ := hp
  cases pc with
  | rel1 =>
    obtain ⟨c1, c2, c3, c4, c5⟩ := hc
    have e := initSt_eq kind w.st c3 c5 hk1 hk2
    refine ⟨⟨?_, f2, ?_, ?_, ?_⟩, ?_⟩
    · exact f1
    · exact f3
    · exact f4
    · intro r hr hc'; have := hcomp r hr; rw [hc'] at this; cases this
    · refine ⟨c1, c2, kind, w.st.out, ?_⟩
      simp only [ctorStep]
      rw [e]
      exact init_inv name kind w.st.out f4 hcomp
  | _ =>
    simp only [CtorOK] at hc
    simp only [WInv, FileOK', PhaseOK, CtorOK, ctorStep]
    grind [names]

theorem winv_thread (w : World) (i : Nat) (s' : St) (hw : WInv name w) (hph : w.phase = .running)
    (hs : step name w.st i = some s') : WInv name { w with st := s' } := by
  obtain ⟨⟨f1, f2, f3, f4, f5⟩, hp⟩ := hw
  rw [hph] at hp
  obtain ⟨c1, c2, kind, old, hinv⟩ := hp
  have hinv' := step_inv name kind old w.st s' i hinv hs
  refine ⟨⟨?_, f2, fun _ => c2, hinv'.outNodup, ?_⟩, ?_⟩
  · intro h; simp only at h; rw [c1] at h; cases h
  · intro r hr hc; exact ⟨hph, hinv'.partialB r hr hc⟩
  · simp only [hph]
    exact ⟨c1, c2, kind, old, hinv'⟩

theorem winv_step (w : World) (op : Op) (hw : WInv name w) : WInv name (wstep name w op) := by
  cases op with
  | newSession kind =>
    simp only [wstep]; split
    · rename_i hph
      have hcomp := rows_complete_of_not_running w hw.1 (by rw [hph]; intro h; cases h)
      obtain ⟨⟨f1, f2, f3, f4, f5⟩, _⟩ := hw
      refine ⟨⟨f1, f2, f3, f4, ?_⟩, ⟨kind, rfl, rfl⟩, trivial⟩
      intro r hr hc'; have := hcomp r hr; rw [hc'] at this; cases this
    · exact hw
  | ctor =>
    simp only [wstep]; split
    · rename_i pc hph; exact winv_ctor name w pc hw hph
    · exact hw
  | thread i =>
    simp only [wstep]; split
    · rename_i hph
      split
      · rename_i s' hs; exact winv_thread name w i s' hw hph hs
      · exact hw
    · exact hw
  | crash =>
    simp only [wstep]; split
    · exact hw
    · rename_i hmid
      obtain ⟨⟨f1, f2, f3, f4, f5⟩, _⟩ := hw
      refine ⟨⟨f1, f2, f3, f4, ?_⟩, trivial⟩
      intro r hr hc
      exact absurd ⟨r, hr, hc⟩ hmid

theorem winv_run (ops : List Op) : ∀ w : World, WInv name w → WInv name (wrun name w ops) := by
  induction ops with
  | nil => intro w h; exact h
  | cons op ops ih => intro w h; exact ih _ (winv_step name w op h)

theorem winv_of_idle (w : World) (hf : FileOK' w) (hidle : w.phase = .idle) : WInv name w := by
  refine ⟨hf, ?_⟩; rw [hidle]; trivial

theorem wrun_append (w : World) (a b : List Op) :
    wrun name w (a ++ b) = wrun name (wrun name w a) b := List.foldl_append

theorem wrun_threads (sched : List Nat) : ∀ w : World, w.phase = .running →
    wrun name w (sched.map Op.thread) = { w with st := run name w.st sched } := by
  induction sched with
  | nil => intro w _; rfl
  | cons i is ih =>
    intro w hph
    simp only [List.map_cons, wrun, List.foldl_cons, run]
    cases hs : step name w.st i with
    | none =>
      have e : wstep name w (Op.thread i) = w := by simp only [wstep, hph, hs]
      rw [e]; exact ih w hph
    | some s' =>
      have e : wstep name w (Op.thread i) = { w with st := s' } := by simp only [wstep, hph, hs]
      rw [e]; exact ih { w with st := s' } hph

theorem ctor_run_eq (w : World) (hf : FileOK' w) (hidle : w.phase = .idle) (kind : Nat → Kind) :
    wrun name w (Op.newSession kind :: List.replicate 12 Op.ctor) =
      { outExists := true, hdrs := 1, bufExists := true, st := initSt kind w.st.out,
        phase := .running } := by
  obtain ⟨oe, hdrs, be, st, ph⟩ := w
  obtain ⟨f1, f2, f3, f4, f5⟩ := hf
  simp only at hidle f1 f2 f3
  subst hidle
  cases oe with
  | false =>
    obtain ⟨h1, h2⟩ := f1 rfl
    subst h1
    simp [wrun, wstep, ctorStep, List.replicate, h2, initSt]
  | true =>
    by_cases h0 : hdrs = 0
    · subst h0
      have h2 : st.out = [] := by
        apply Classical.byContradiction; intro h; have := f3 h; omega
      simp [wrun, wstep, ctorStep, List.replicate, h2, initSt]
    · have h1 : hdrs = 1 := by omega
      subst h1
      simp [wrun, wstep, ctorStep, List.replicate, initSt]

theorem restart_gen (w : World) (hf : FileOK' w) (hidle : w.phase = .idle) (kind : Nat → Kind)
    (N : Nat) (sched : List Nat) (hsched : ∀ i ∈ sched, i < N)
    (hdone : ∀ i < N,
      (wrun name w (Op.newSession kind :: List.replicate 12 Op.ctor ++ sched.map Op.thread)).st.pc i = .done) :
    let w' := wrun name w (Op.newSession kind :: List.replicate 12 Op.ctor ++ sched.map Op.thread)
    w'.hdrs = 1 ∧ (w'.st.out.map (·.name)).Nodup ∧ (∀ r ∈ w'.st.out, r.complete = true) ∧
    (∀ i < N, kind i = .eval → ∃ r ∈ w'.st.out, r.name = name i) ∧
    (∀ r ∈ w.st.out, r ∈ w'.st.out) ∧
    (∀ r ∈ w'.st.out, r ∈ w.st.out ∨ (r.tid < N ∧ kind r.tid = .eval ∧ name r.tid = r.name)) := by
  have e : wrun name w (Op.newSession kind :: List.replicate 12 Op.ctor ++ sched.map Op.thread) =
      { outExists := true, hdrs := 1, bufExists := true,
        st := run name (initSt kind w.st.out) sched, phase := .running } := by
    rw [wrun_append, ctor_run_eq name w hf hidle kind, wrun_threads name sched _ rfl]
  rw [e] at hdone
  simp only [e]
  have hcomp := rows_complete_of_not_running w hf (by rw [hidle]; intro h; cases h)
  have hinv := run_inv name kind w.st.out sched _ (init_inv name kind w.st.out hf.2.2.2.1 hcomp)
  exact ⟨trivial, final_rows_gen name kind w.st.out N _ hinv
    (run_moved name kind N sched _ hsched (init_moved kind w.st.out N)) hdone⟩

end world

end Panoptica.Agg
