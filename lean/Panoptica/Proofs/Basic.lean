/- basic lemmas about `uniqueSorted`, `labelsOf`, `maxOf` (used by C02, C04, C09) -/
import Panoptica.Model.Basic
namespace Panoptica

theorem mem_insertSorted (x y : Nat) (l : List Nat) : y ∈ insertSorted x l ↔ y = x ∨ y ∈ l := by
  induction l with
  | nil => simp [insertSorted]
  | cons z zs ih =>
    simp only [insertSorted]
    split
    · simp
    · split
      · subst_vars; simp
      · simp only [List.mem_cons, ih]
        constructor <;> (intro h; rcases h with h | h | h <;> simp [h])

theorem insertSorted_sorted (x : Nat) (l : List Nat) (h : l.Pairwise (· < ·)) :
    (insertSorted x l).Pairwise (· < ·) := by
  induction l with
  | nil => simp [insertSorted]
  | cons z zs ih =>
    simp only [insertSorted]
    have hz := List.pairwise_cons.1 h
    split
    · refine List.pairwise_cons.2 ⟨?_, h⟩
      intro a ha
      rcases List.mem_cons.1 ha with rfl | ha
      · assumption
      · have := hz.1 a ha; omega
    · split
      · exact h
      · refine List.pairwise_cons.2 ⟨?_, ih hz.2⟩
        intro a ha
        rcases (mem_insertSorted x a zs).1 ha with rfl | ha
        · omega
        · exact hz.1 a ha

theorem mem_uniqueSorted (l : List Nat) (x : Nat) : x ∈ uniqueSorted l ↔ x ∈ l := by
  induction l with
  | nil => simp [uniqueSorted]
  | cons y ys ih =>
    have : uniqueSorted (y :: ys) = insertSorted y (uniqueSorted ys) := rfl
    rw [this, mem_insertSorted, ih, List.mem_cons]

theorem uniqueSorted_sorted (l : List Nat) : (uniqueSorted l).Pairwise (· < ·) := by
  induction l with
  | nil => simp [uniqueSorted]
  | cons y ys ih => exact insertSorted_sorted y _ ih

theorem uniqueSorted_nodup (l : List Nat) : (uniqueSorted l).Nodup := by
  refine (uniqueSorted_sorted l).imp ?_
  intro a b h
  exact Nat.ne_of_lt h

/-- `np.unique(arr[arr != 0])` contains exactly the non-zero values of the array -/
theorem mem_labelsOf (a : Flat) (x : Lab) : x ∈ labelsOf a ↔ x ∈ a ∧ x ≠ 0 := by
  simp [labelsOf, mem_uniqueSorted, List.mem_filter]

theorem labelsOf_nodup (a : Flat) : (labelsOf a).Nodup := uniqueSorted_nodup _

theorem foldl_max_ge (l : List Nat) (a : Nat) :
    a ≤ l.foldl max a ∧ ∀ x ∈ l, x ≤ l.foldl max a := by
  induction l generalizing a with
  | nil => simp
  | cons y ys ih =>
    simp only [List.foldl_cons, List.mem_cons]
    have h := ih (max a y)
    refine ⟨by have := h.1; omega, ?_⟩
    intro x hx
    rcases hx with rfl | hx
    · have := h.1; omega
    · exact h.2 x hx

theorem le_maxOf (l : List Nat) (x : Nat) (h : x ∈ l) : x ≤ maxOf l :=
  (foldl_max_ge l 0).2 x h

theorem maxOf_lt (l : List Nat) (b : Nat) (hb : 0 < b) (h : ∀ x ∈ l, x < b) : maxOf l < b := by
  unfold maxOf
  suffices ∀ a, a < b → l.foldl max a < b from this 0 hb
  induction l with
  | nil => intro a ha; simpa
  | cons y ys ih =>
    intro a ha
    simp only [List.foldl_cons]
    apply ih (fun x hx => h x (List.mem_cons_of_mem _ hx))
    have := h y (List.mem_cons_self ..)
    omega

/-- inserting into a strictly ascending list whose elements are all larger puts the element in front -/
theorem insertSorted_lt_all (x : Nat) (l : List Nat) (h : ∀ y ∈ l, x < y) : insertSorted x l = x :: l := by
  cases l with
  | nil => rfl
  | cons y ys => simp [insertSorted, h y (by simp)]

/-- a strictly ascending list is a fixed point of `uniqueSorted` (= `sorted(set(.))`) -/
theorem uniqueSorted_of_sorted (l : List Nat) (h : l.Pairwise (· < ·)) : uniqueSorted l = l := by
  induction l with
  | nil => rfl
  | cons x xs ih =>
    have hx := List.pairwise_cons.1 h
    show insertSorted x (uniqueSorted xs) = x :: xs
    rw [ih hx.2]
    exact insertSorted_lt_all x xs hx.1

/-- `sorted(set(sorted(set(l)))) = sorted(set(l))`: the canonical normalisation is idempotent -/
theorem uniqueSorted_idem (l : List Nat) : uniqueSorted (uniqueSorted l) = uniqueSorted l :=
  uniqueSorted_of_sorted _ (uniqueSorted_sorted l)

/-- two strictly increasing lists with the same members are equal -/
theorem sorted_ext : ∀ (l₁ l₂ : List Nat), l₁.Pairwise (· < ·) → l₂.Pairwise (· < ·) →
    (∀ x, x ∈ l₁ ↔ x ∈ l₂) → l₁ = l₂
  | [], [], _, _, _ => rfl
  | [], b :: bs, _, _, h => absurd ((h b).2 (List.mem_cons_self ..)) (by simp)
  | a :: as, [], _, _, h => absurd ((h a).1 (List.mem_cons_self ..)) (by simp)
  | a :: as, b :: bs, h₁, h₂, h => by
    have ha := List.pairwise_cons.1 h₁
    have hb := List.pairwise_cons.1 h₂
    have hab : a = b := by
      have h1 := (h a).1 (List.mem_cons_self ..)
      have h2 := (h b).2 (List.mem_cons_self ..)
      rcases List.mem_cons.1 h1 with e | e
      · exact e
      · rcases List.mem_cons.1 h2 with e' | e'
        · exact e'.symm
        · have := hb.1 a e
          have := ha.1 b e'
          omega
    subst hab
    congr 1
    apply sorted_ext as bs ha.2 hb.2
    intro x
    constructor
    · intro hx
      rcases List.mem_cons.1 ((h x).1 (List.mem_cons_of_mem _ hx)) with e | e
      · have := ha.1 x hx
        omega
      · exact e
    · intro hx
      rcases List.mem_cons.1 ((h x).2 (List.mem_cons_of_mem _ hx)) with e | e
      · have := hb.1 x hx
        omega
      · exact e

end Panoptica
