/- helper lemmas for C05 (closure by saturation = reachability; component numbering) -/
import Panoptica.Model.Geometry
import Panoptica.Spec.Reach
import Panoptica.Proofs.Basic
namespace Panoptica
open Panoptica.Spec

section CC
set_option linter.unusedSectionVars false
variable {α : Type} [BEq α] [LawfulBEq α]

/-! ### saturation = reachability -/

/-- every set in the saturation chain is `V.filter p` for some `p` -/
def IsFilt (V S : List α) : Prop := ∃ p : α → Bool, S = V.filter p

theorem expand_isFilt (adj : α → α → Bool) (V S : List α) : IsFilt V (expand adj V S) := ⟨_, rfl⟩

theorem sub_expand (adj : α → α → Bool) (V S : List α) (h : IsFilt V S) :
    S.Sublist (expand adj V S) := by
  obtain ⟨p, rfl⟩ := h
  unfold expand
  have : V.filter p = (V.filter (fun v => (V.filter p).contains v ||
      (V.filter p).any (fun s => adj s v))).filter p := by
    rw [List.filter_filter]
    apply List.filter_congr
    intro x hx
    by_cases hp : p x = true
    · have : x ∈ V.filter p := List.mem_filter.mpr ⟨hx, hp⟩
      simp [hp, this]
    · simp [hp]
  conv => lhs; rw [this]
  exact List.filter_sublist

theorem expand_eq_of_len (adj : α → α → Bool) (V S : List α) (h : IsFilt V S)
    (hl : (expand adj V S).length ≤ S.length) : expand adj V S = S :=
  ((sub_expand adj V S h).eq_of_length_le hl).symm

theorem iter_isFilt (adj : α → α → Bool) (V : List α) :
    ∀ n S, IsFilt V S → IsFilt V (iter adj V n S)
  | 0, _, h => h
  | n+1, S, _ => iter_isFilt adj V n _ (expand_isFilt adj V S)

theorem iter_succ' (adj : α → α → Bool) (V : List α) :
    ∀ n S, iter adj V (n+1) S = expand adj V (iter adj V n S)
  | 0, _ => rfl
  | n+1, S => by
    show iter adj V (n+1) (expand adj V S) = expand adj V (iter adj V n (expand adj V S))
    exact iter_succ' adj V n _

/-- key lemma: either already stable by round n, or the length grew by at least n+1 -/
theorem stable_or_grow (adj : α → α → Bool) (V : List α) (S : List α) (h : IsFilt V S) :
    ∀ n, expand adj V (iter adj V n S) = iter adj V n S ∨
      S.length + (n+1) ≤ (iter adj V (n+1) S).length
  | 0 => by
    by_cases hl : (expand adj V S).length ≤ S.length
    · left; exact expand_eq_of_len adj V S h hl
    · right
      show S.length + 1 ≤ (expand adj V S).length
      omega
  | n+1 => by
    have ih := stable_or_grow adj V S h n
    have hf := iter_isFilt adj V (n+1) S h
    rcases ih with ih | ih
    · left
      rw [iter_succ' adj V n S, ih, ih]
    · by_cases hl : (expand adj V (iter adj V (n+1) S)).length ≤ (iter adj V (n+1) S).length
      · left; exact expand_eq_of_len adj V _ hf hl
      · right
        rw [iter_succ' adj V (n+1) S]
        omega

theorem iter_len_le (adj : α → α → Bool) (V : List α) (n : Nat) (S : List α) (h : IsFilt V S) :
    (iter adj V n S).length ≤ V.length := by
  obtain ⟨p, hp⟩ := iter_isFilt adj V n S h
  rw [hp]; exact List.length_filter_le _ _

theorem closure_fixed (adj : α → α → Bool) (V : List α) (S : List α) (h : IsFilt V S) :
    expand adj V (iter adj V V.length S) = iter adj V V.length S := by
  rcases stable_or_grow adj V S h V.length with h1 | h1
  · exact h1
  · exfalso
    have := iter_len_le adj V (V.length+1) S h
    omega

theorem mem_expand (adj : α → α → Bool) (V S : List α) (v : α) :
    v ∈ expand adj V S ↔ v ∈ V ∧ (v ∈ S ∨ ∃ s ∈ S, adj s v = true) := by
  simp [expand, List.mem_filter]

theorem closure_isFilt (adj : α → α → Bool) (V : List α) (seed : α) :
    IsFilt V (closure adj V seed) :=
  iter_isFilt adj V _ _ ⟨_, rfl⟩

theorem closure_complete (adj : α → α → Bool) (V : List α) (seed b : α)
    (hr : Reach adj V seed b) : b ∈ closure adj V seed := by
  have hS0 : IsFilt V (V.filter (· == seed)) := ⟨_, rfl⟩
  have hfix := closure_fixed adj V _ hS0
  induction hr with
  | refl hmem =>
    have h0 : seed ∈ V.filter (· == seed) := by simp [List.mem_filter, hmem]
    have : ∀ n S, IsFilt V S → seed ∈ S → seed ∈ iter adj V n S := by
      intro n; induction n with
      | zero => intro S _ h; exact h
      | succ n ih =>
        intro S hS h
        exact ih _ (expand_isFilt adj V S) ((sub_expand adj V S hS).subset h)
    exact this _ _ hS0 h0
  | step _ hc hadj ih =>
    unfold closure at *
    rw [← hfix]
    exact (mem_expand adj V _ _).mpr ⟨hc, Or.inr ⟨_, ih, hadj⟩⟩

theorem closure_sound (adj : α → α → Bool) (V : List α) (seed b : α)
    (hb : b ∈ closure adj V seed) : Reach adj V seed b := by
  have : ∀ n S, (∀ x ∈ S, Reach adj V seed x) → ∀ x ∈ iter adj V n S, Reach adj V seed x := by
    intro n; induction n with
    | zero => intro S h x hx; exact h x hx
    | succ n ih =>
      intro S h x hx
      apply ih (expand adj V S) _ x hx
      intro y hy
      rcases (mem_expand adj V S y).mp hy with ⟨hyV, hyS | ⟨s, hs, hadj⟩⟩
      · exact h y hyS
      · exact Reach.step (h s hs) hyV hadj
  apply this _ _ _ b hb
  intro x hx
  simp [List.mem_filter] at hx
  obtain ⟨hxV, rfl⟩ := hx
  exact Reach.refl _ hxV

theorem mem_closure_iff (adj : α → α → Bool) (V : List α) (seed b : α) :
    b ∈ closure adj V seed ↔ Reach adj V seed b :=
  ⟨closure_sound adj V seed b, closure_complete adj V seed b⟩

theorem closure_nodup (adj : α → α → Bool) (V : List α) (hnd : V.Nodup) (seed : α) :
    (closure adj V seed).Nodup := by
  obtain ⟨p, hp⟩ := closure_isFilt adj V seed
  rw [hp]
  exact hnd.sublist List.filter_sublist

/-! ### `Reach` is an equivalence on `V` for symmetric adjacency -/

theorem Reach.mem_right {adj : α → α → Bool} {V : List α} {a b : α} (h : Reach adj V a b) :
    b ∈ V := by
  cases h with
  | refl h => exact h
  | step _ h _ => exact h

theorem Reach.mem_left {adj : α → α → Bool} {V : List α} {a b : α} (h : Reach adj V a b) :
    a ∈ V := by
  induction h with
  | refl h => exact h
  | step _ _ _ ih => exact ih

theorem Reach.trans {adj : α → α → Bool} {V : List α} {a b c : α}
    (h1 : Reach adj V a b) (h2 : Reach adj V b c) : Reach adj V a c := by
  induction h2 with
  | refl _ => exact h1
  | step _ hc hadj ih => exact Reach.step ih hc hadj

theorem Reach.symm {adj : α → α → Bool} (hsymm : ∀ a b, adj a b = adj b a) {V : List α} {a b : α}
    (h : Reach adj V a b) : Reach adj V b a := by
  induction h with
  | refl h => exact Reach.refl _ h
  | @step b c _ hc hadj ih =>
    have hb : b ∈ V := Reach.mem_left ih
    have hcb : Reach adj V c b :=
      Reach.step (Reach.refl c hc) hb (by rw [hsymm]; exact hadj)
    exact Reach.trans hcb ih

/-! ### the numbering loop -/

/-- loop invariant of `ccGo adj V rest acc next` -/
structure CCInv (adj : α → α → Bool) (V : List α) (acc : List (α × Nat)) (next : Nat) : Prop where
  pos : 1 ≤ next
  keysV : ∀ e ∈ acc, e.1 ∈ V
  nodup : (acc.map (·.1)).Nodup
  lt : ∀ e ∈ acc, 1 ≤ e.2 ∧ e.2 < next
  used : ∀ k, 1 ≤ k → k < next → ∃ v, (v, k) ∈ acc
  conn : ∀ a b n, (a, n) ∈ acc → (b, n) ∈ acc → Reach adj V a b
  closed : ∀ x y n, (x, n) ∈ acc → Reach adj V x y → (y, n) ∈ acc

theorem CCInv.init (adj : α → α → Bool) (V : List α) : CCInv adj V [] 1 where
  pos := Nat.le_refl _
  keysV := by intro e he; cases he
  nodup := by simp
  lt := by intro e he; cases he
  used := by intro k h1 h2; omega
  conn := by intro a b n h; cases h
  closed := by intro x y n h; cases h

theorem any_key_iff (acc : List (α × Nat)) (v : α) :
    acc.any (fun e => e.1 == v) = true ↔ ∃ n, (v, n) ∈ acc := by
  rw [List.any_eq_true]
  constructor
  · rintro ⟨⟨a, n⟩, he, h⟩
    have : a = v := eq_of_beq h
    subst this
    exact ⟨n, he⟩
  · rintro ⟨n, h⟩
    exact ⟨(v, n), h, beq_self_eq_true v⟩

theorem nodup_keys_unique {acc : List (α × Nat)} (h : (acc.map (·.1)).Nodup) {a : α} {n m : Nat}
    (h1 : (a, n) ∈ acc) (h2 : (a, m) ∈ acc) : n = m := by
  induction acc with
  | nil => cases h1
  | cons e es ih =>
    rw [List.map_cons, List.nodup_cons] at h
    rcases List.mem_cons.1 h1 with h1 | h1 <;> rcases List.mem_cons.1 h2 with h2 | h2
    · rw [← h1] at h2; exact (Prod.mk.inj h2).2.symm ▸ rfl
    · exfalso; apply h.1; rw [← h1]; exact List.mem_map.2 ⟨_, h2, rfl⟩
    · exfalso; apply h.1; rw [← h2]; exact List.mem_map.2 ⟨_, h1, rfl⟩
    · exact ih h.2 h1 h2

theorem CCInv.step {adj : α → α → Bool} (hsymm : ∀ a b, adj a b = adj b a) {V : List α}
    (hnd : V.Nodup) {acc : List (α × Nat)} {next : Nat} (inv : CCInv adj V acc next)
    {v : α} (hv : v ∈ V) (hnew : ¬ ∃ n, (v, n) ∈ acc) :
    CCInv adj V (acc ++ (closure adj V v).map (fun x => (x, next))) (next + 1) := by
  have memNew : ∀ e, e ∈ (closure adj V v).map (fun x => (x, next)) ↔
      Reach adj V v e.1 ∧ e.2 = next := by
    intro e
    rw [List.mem_map]
    constructor
    · rintro ⟨x, hx, rfl⟩
      exact ⟨(mem_closure_iff adj V v x).1 hx, rfl⟩
    · rintro ⟨h1, h2⟩
      refine ⟨e.1, (mem_closure_iff adj V v e.1).2 h1, ?_⟩
      rw [← h2]
  have memAll : ∀ x n, (x, n) ∈ acc ++ (closure adj V v).map (fun x => (x, next)) ↔
      (x, n) ∈ acc ∨ (Reach adj V v x ∧ n = next) := by
    intro x n
    rw [List.mem_append, memNew]
  have fresh : ∀ x n, (x, n) ∈ acc → ¬ Reach adj V v x := by
    intro x n hx hr
    exact hnew ⟨n, inv.closed x v n hx (Reach.symm hsymm hr)⟩
  refine ⟨by have := inv.pos; omega, ?_, ?_, ?_, ?_, ?_, ?_⟩
  · intro e he
    rcases List.mem_append.1 he with he | he
    · exact inv.keysV e he
    · exact Reach.mem_right ((memNew e).1 he).1
  · rw [List.map_append, List.nodup_append]
    refine ⟨inv.nodup, ?_, ?_⟩
    · rw [List.map_map]
      have : ((fun x : α × Nat => x.1) ∘ fun x => (x, next)) = id := rfl
      rw [this, List.map_id]
      exact closure_nodup adj V hnd v
    · intro a ha b hb hab
      obtain ⟨e, he, rfl⟩ := List.mem_map.1 ha
      obtain ⟨e', he', rfl⟩ := List.mem_map.1 hb
      have := ((memNew e').1 he').1
      rw [← hab] at this
      exact fresh e.1 e.2 he this
  · intro e he
    rcases List.mem_append.1 he with he | he
    · have := inv.lt e he; omega
    · have := ((memNew e).1 he).2
      have := inv.pos
      omega
  · intro k h1 h2
    by_cases hk : k < next
    · obtain ⟨w, hw⟩ := inv.used k h1 hk
      exact ⟨w, List.mem_append_left _ hw⟩
    · have : k = next := by omega
      subst this
      exact ⟨v, (memAll v k).2 (Or.inr ⟨Reach.refl v hv, rfl⟩)⟩
  · intro a b n ha hb
    rcases (memAll a n).1 ha with ha | ⟨ha, hn⟩ <;> rcases (memAll b n).1 hb with hb | ⟨hb, hm⟩
    · exact inv.conn a b n ha hb
    · have := (inv.lt _ ha).2; simp only at this; omega
    · have := (inv.lt _ hb).2; simp only at this; omega
    · exact Reach.trans (Reach.symm hsymm ha) hb
  · intro x y n hx hr
    rcases (memAll x n).1 hx with hx | ⟨hx, hn⟩
    · exact (memAll y n).2 (Or.inl (inv.closed x y n hx hr))
    · exact (memAll y n).2 (Or.inr ⟨Reach.trans hx hr, hn⟩)

/-- the loop keeps the invariant, keeps what is already labelled and labels all of `rest` -/
theorem ccGo_inv {adj : α → α → Bool} (hsymm : ∀ a b, adj a b = adj b a) {V : List α}
    (hnd : V.Nodup) : ∀ (rest : List α) (acc : List (α × Nat)) (next : Nat),
    (∀ v ∈ rest, v ∈ V) → CCInv adj V acc next →
    ∃ next', CCInv adj V (ccGo adj V rest acc next) next' ∧
      (∀ e ∈ acc, e ∈ ccGo adj V rest acc next) ∧
      (∀ v ∈ rest, ∃ n, (v, n) ∈ ccGo adj V rest acc next) := by
  intro rest
  induction rest with
  | nil =>
    intro acc next _ inv
    exact ⟨next, inv, fun e he => he, fun v hv => by cases hv⟩
  | cons v rest ih =>
    intro acc next hsub inv
    have hsub' : ∀ w ∈ rest, w ∈ V := fun w hw => hsub w (List.mem_cons_of_mem _ hw)
    have hvV : v ∈ V := hsub v List.mem_cons_self
    unfold ccGo
    by_cases hany : acc.any (fun e => e.1 == v) = true
    · rw [if_pos hany]
      obtain ⟨next', inv', hkeep, hall⟩ := ih acc next hsub' inv
      refine ⟨next', inv', hkeep, ?_⟩
      intro w hw
      rcases List.mem_cons.1 hw with rfl | hw
      · obtain ⟨n, hn⟩ := (any_key_iff acc w).1 hany
        exact ⟨n, hkeep _ hn⟩
      · exact hall w hw
    · rw [if_neg hany]
      have hnew : ¬ ∃ n, (v, n) ∈ acc := fun h => hany ((any_key_iff acc v).2 h)
      have inv1 := CCInv.step hsymm hnd inv hvV hnew
      obtain ⟨next', inv', hkeep, hall⟩ := ih _ _ hsub' inv1
      refine ⟨next', inv', ?_, ?_⟩
      · intro e he
        exact hkeep e (List.mem_append_left _ he)
      · intro w hw
        rcases List.mem_cons.1 hw with rfl | hw
        · refine ⟨next, hkeep _ (List.mem_append_right _ ?_)⟩
          exact List.mem_map.2 ⟨w, (mem_closure_iff adj V w w).2 (Reach.refl w hvV), rfl⟩
        · exact hall w hw

theorem ccLabel_inv {adj : α → α → Bool} (hsymm : ∀ a b, adj a b = adj b a) {V : List α}
    (hnd : V.Nodup) :
    ∃ next', CCInv adj V (ccLabel adj V) next' ∧ (∀ v ∈ V, ∃ n, (v, n) ∈ ccLabel adj V) := by
  obtain ⟨next', inv, _, hall⟩ := ccGo_inv hsymm hnd V [] 1 (fun v hv => hv) (CCInv.init adj V)
  exact ⟨next', inv, hall⟩

theorem ccCount_eq {adj : α → α → Bool} {V : List α} {next : Nat}
    (inv : CCInv adj V (ccLabel adj V) next) : ccCount adj V + 1 = next := by
  unfold ccCount
  have h1 : maxOf ((ccLabel adj V).map (·.2)) < next := by
    apply maxOf_lt _ _ inv.pos
    intro x hx
    obtain ⟨e, he, rfl⟩ := List.mem_map.1 hx
    exact (inv.lt e he).2
  by_cases h : next = 1
  · omega
  · obtain ⟨v, hv⟩ := inv.used (next - 1) (by have := inv.pos; omega) (by have := inv.pos; omega)
    have := le_maxOf ((ccLabel adj V).map (·.2)) (next - 1) (List.mem_map.2 ⟨_, hv, rfl⟩)
    omega

end CC

/-! ### coordinate adjacency -/

theorem absDiffs_comm : ∀ a b : Coord, absDiffs a b = absDiffs b a
  | [], [] => rfl
  | [], _ :: _ => rfl
  | _ :: _, [] => rfl
  | x :: xs, y :: ys => by
    simp only [absDiffs]
    rw [absDiffs_comm xs ys]
    congr 1
    omega

theorem foldl_add_eq (l : List Nat) (a : Nat) : l.foldl (· + ·) a = a + l.foldl (· + ·) 0 := by
  induction l generalizing a with
  | nil => simp
  | cons x xs ih =>
    simp only [List.foldl_cons]
    rw [ih (a + x), ih (0 + x)]
    omega

theorem all_zero_of_sum (l : List Nat) (h : l.foldl (· + ·) 0 = 0) : ∀ x ∈ l, x = 0 := by
  induction l with
  | nil => intro x hx; cases hx
  | cons y ys ih =>
    simp only [List.foldl_cons] at h
    rw [foldl_add_eq] at h
    intro x hx
    rcases List.mem_cons.1 hx with hxy | hxs
    · omega
    · exact ih (by omega) x hxs

/-- if the differences sum to 1, each of them is at most 1 -/
theorem all_le_one_of_sum (l : List Nat) (h : l.foldl (· + ·) 0 = 1) : ∀ x ∈ l, x ≤ 1 := by
  induction l with
  | nil => intro x hx; cases hx
  | cons y ys ih =>
    simp only [List.foldl_cons] at h
    rw [foldl_add_eq] at h
    intro x hx
    rcases List.mem_cons.1 hx with hxy | hxs
    · omega
    · by_cases hy : y = 0
      · exact ih (by omega) x hxs
      · have := all_zero_of_sum ys (by omega) x hxs
        omega

theorem absDiffs_self : ∀ a : Coord, (absDiffs a a).foldl (· + ·) 0 = 0
  | [] => rfl
  | x :: xs => by
    simp only [absDiffs, List.foldl_cons]
    rw [foldl_add_eq, absDiffs_self xs]
    omega

end Panoptica
