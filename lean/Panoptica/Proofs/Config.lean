/- helper lemmas for C19 (configuration round trip) -/
import Panoptica.Model.Config
namespace Panoptica.Cfg

variable {V : Type}

/-- Prop-level content of the decidable `WellFormed` check -/
structure WF (d : ClassDesc) : Prop where
  storesNodup : (d.stores.map (·.1)).Nodup
  reprNodup : (reprKeys d).Nodup
  reprOK : ∀ k e, (k, e) ∈ d.repr → ∃ a st, e = ReprE.attr a ∧ k ∈ d.params ∧
    (a, st) ∈ d.stores ∧ st.mainParam = some k
  noOther : ∀ a s, (a, Store.other s) ∉ d.stores
  fallback : ∀ a p q, (a, Store.ifNoneParam p q) ∈ d.stores → q ∈ d.noneDefault ∧ q ∉ reprKeys d

theorem wf_of_wellFormed {d : ClassDesc} (h : WellFormed d = true) : WF d := by
  unfold WellFormed at h
  simp only [Bool.and_eq_true, decide_eq_true_eq, List.all_eq_true] at h
  obtain ⟨⟨⟨h1, h2⟩, h3⟩, h4⟩ := h
  refine ⟨h1, h2, ?_, ?_, ?_⟩
  · intro k e hke
    have := h3 (k, e) hke
    cases e with
    | other s => simp at this
    | attr a =>
      simp only [Bool.and_eq_true, List.contains_iff_mem, List.any_eq_true, beq_iff_eq] at this
      obtain ⟨hk, ⟨a', st⟩, hmem, ha, hm⟩ := this
      simp only at ha hm
      subst ha
      exact ⟨a', st, rfl, hk, hmem, hm⟩
  · intro a s hmem
    have := h4 (a, .other s) hmem
    simp at this
  · intro a p q hmem
    have := h4 (a, .ifNoneParam p q) hmem
    simp only [Bool.and_eq_true, List.contains_iff_mem, Bool.not_eq_eq_eq_not,
      Bool.not_true] at this
    refine ⟨this.1, ?_⟩
    intro hq
    have h2 := this.2
    rw [← List.contains_iff_mem] at hq
    rw [hq] at h2
    cases h2

/-! ### lookup -/

theorem lookup_nil (k : String) : lookup ([] : List (String × V)) k = none := rfl

theorem lookup_cons (x : String × V) (l : List (String × V)) (k : String) :
    lookup (x :: l) k = if x.1 = k then some x.2 else lookup l k := by
  unfold lookup
  rw [List.find?_cons]
  by_cases h : x.1 = k
  · simp [h]
  · have : (x.1 == k) = false := by simpa using h
    simp [this, h]

theorem lookup_of_mem_nodup {W : Type} (l : List (String × W)) (a : String) (w : W)
    (hn : (l.map (·.1)).Nodup) (hm : (a, w) ∈ l) : lookup l a = some w := by
  induction l with
  | nil => cases hm
  | cons x l ih =>
    rw [lookup_cons]
    rw [List.map_cons, List.nodup_cons] at hn
    rcases List.mem_cons.1 hm with rfl | hm
    · simp
    · have hne : x.1 ≠ a := by
        intro hx
        apply hn.1
        rw [hx]
        exact List.mem_map.2 ⟨(a, w), hm, rfl⟩
      rw [if_neg hne]
      exact ih hn.2 hm

theorem lookup_map_snd {W : Type} (f : W → V) (l : List (String × W)) (a : String) :
    lookup (l.map (fun (e : String × W) => (e.1, f e.2))) a = (lookup l a).map f := by
  induction l with
  | nil => rfl
  | cons x l ih =>
    rw [List.map_cons, lookup_cons, lookup_cons]
    by_cases h : x.1 = a
    · simp [h]
    · simp only [h, if_false]
      exact ih

theorem lookup_construct (S : Sem V) (defaults : String → V) (d : ClassDesc)
    (data : List (String × V)) (a : String) :
    lookup (construct S defaults d data) a =
      (lookup d.stores a).map (evalStore S (argOf defaults data)) := by
  unfold construct
  exact lookup_map_snd (evalStore S (argOf defaults data)) d.stores a

theorem lookup_construct_of_mem (S : Sem V) (defaults : String → V) {d : ClassDesc} (hd : WF d)
    (data : List (String × V)) {a : String} {st : Store} (hm : (a, st) ∈ d.stores) :
    lookup (construct S defaults d data) a = some (evalStore S (argOf defaults data) st) := by
  rw [lookup_construct, lookup_of_mem_nodup d.stores a st hd.storesNodup hm]; rfl

/-! ### represent -/

/-- the per-entry function of `represent` -/
def reprEntry (attrs : List (String × V)) (ke : String × ReprE) : Option (String × V) :=
  match ke.2 with
  | .attr a => (lookup attrs a).map (fun v => (ke.1, v))
  | .other _ => Option.none

theorem represent_eq (d : ClassDesc) (attrs : List (String × V)) :
    represent d attrs = d.repr.filterMap (reprEntry attrs) := by
  rfl

theorem lookup_filterMap_reprEntry_not_mem (attrs : List (String × V)) (r : List (String × ReprE))
    (k : String) (hk : k ∉ r.map (·.1)) : lookup (r.filterMap (reprEntry attrs)) k = none := by
  induction r with
  | nil => rfl
  | cons x r ih =>
    rw [List.map_cons, List.mem_cons, not_or] at hk
    rw [List.filterMap_cons]
    cases hx : reprEntry attrs x with
    | none => exact ih hk.2
    | some y =>
      simp only
      rw [lookup_cons]
      have hy : y.1 = x.1 := by
        unfold reprEntry at hx
        cases h2 : x.2 with
        | other s => rw [h2] at hx; cases hx
        | attr a =>
          rw [h2] at hx
          simp only [Option.map_eq_some_iff] at hx
          obtain ⟨v, _, rfl⟩ := hx
          rfl
      rw [hy, if_neg (fun h => hk.1 h.symm)]
      exact ih hk.2

theorem lookup_represent_not_mem (d : ClassDesc) (attrs : List (String × V)) (k : String)
    (hk : k ∉ reprKeys d) : lookup (represent d attrs) k = none := by
  rw [represent_eq]
  exact lookup_filterMap_reprEntry_not_mem attrs d.repr k hk

theorem lookup_filterMap_reprEntry_mem (attrs : List (String × V)) (r : List (String × ReprE))
    (k a : String) (hn : (r.map (·.1)).Nodup) (hm : (k, ReprE.attr a) ∈ r) :
    lookup (r.filterMap (reprEntry attrs)) k = lookup attrs a := by
  induction r with
  | nil => cases hm
  | cons x r ih =>
    rw [List.map_cons, List.nodup_cons] at hn
    rw [List.filterMap_cons]
    rcases List.mem_cons.1 hm with rfl | hm
    · simp only [reprEntry]
      cases h : lookup attrs a with
      | none =>
        simp only [Option.map_none]
        exact lookup_filterMap_reprEntry_not_mem attrs r k hn.1
      | some v =>
        simp only [Option.map_some]
        rw [lookup_cons]
        simp
    · have hne : x.1 ≠ k := by
        intro hx
        apply hn.1
        rw [hx]
        exact List.mem_map.2 ⟨(k, .attr a), hm, rfl⟩
      cases hx : reprEntry attrs x with
      | none => exact ih hn.2 hm
      | some y =>
        simp only
        rw [lookup_cons]
        have hy : y.1 = x.1 := by
          unfold reprEntry at hx
          cases h2 : x.2 with
          | other s => rw [h2] at hx; cases hx
          | attr a =>
            rw [h2] at hx
            simp only [Option.map_eq_some_iff] at hx
            obtain ⟨v, _, rfl⟩ := hx
            rfl
        rw [hy, if_neg hne]
        exact ih hn.2 hm

theorem lookup_represent_mem {d : ClassDesc} (hd : WF d) (attrs : List (String × V))
    {k a : String} (hm : (k, ReprE.attr a) ∈ d.repr) :
    lookup (represent d attrs) k = lookup attrs a := by
  rw [represent_eq]
  exact lookup_filterMap_reprEntry_mem attrs d.repr k a hd.reprNodup hm

/-! ### the round trip of one represented attribute -/

/-- re-evaluating a store on arguments where its own parameter `k` now holds the previously stored
    value `v` (and the fall-back parameter, if any, is `S.none`) gives `v` again -/
theorem evalStore_roundtrip (S : Sem V)
    (none_eq : ∀ v, S.isNone v = true → v = S.none)
    (new_not_none : ∀ c, S.isNone (S.new c) = false)
    (norm_idem : ∀ n v, S.norm n (S.norm n v) = S.norm n v)
    (args args' : String → V) (st : Store) (k : String)
    (hmain : st.mainParam = some k)
    (hk : args' k = evalStore S args st)
    (hq : ∀ p q, st = Store.ifNoneParam p q → args' q = S.none) :
    evalStore S args' st = evalStore S args st := by
  cases st with
  | param p n =>
    simp only [Store.mainParam, Option.some.injEq] at hmain
    subst hmain
    cases n with
    | id => simpa only [evalStore] using hk
    | other n =>
      simp only [evalStore] at hk ⊢
      rw [hk, norm_idem]
  | ifNoneParam p q =>
    simp only [Store.mainParam, Option.some.injEq] at hmain
    subst hmain
    have hq' := hq p q rfl
    generalize hv : evalStore S args (Store.ifNoneParam p q) = v at hk ⊢
    simp only [evalStore]
    rw [hk, hq']
    cases h : S.isNone v with
    | true => simp only [if_true]; exact (none_eq v h).symm
    | false => simp
  | ifNoneNew p c =>
    simp only [Store.mainParam, Option.some.injEq] at hmain
    subst hmain
    have hnn : S.isNone (evalStore S args (Store.ifNoneNew p c)) = false := by
      simp only [evalStore]
      cases h : S.isNone (args p) with
      | true => simp only [if_true]; exact new_not_none c
      | false => simpa using h
    generalize evalStore S args (Store.ifNoneNew p c) = v at hk hnn ⊢
    simp only [evalStore]
    rw [hk, hnn]
    simp
  | const s => rfl
  | other s => rfl

theorem construct_saved_lookup (S : Sem V)
    (none_eq : ∀ v, S.isNone v = true → v = S.none)
    (new_not_none : ∀ c, S.isNone (S.new c) = false)
    (norm_idem : ∀ n v, S.norm n (S.norm n v) = S.norm n v)
    (defaults : String → V) {d : ClassDesc} (hd : WF d)
    (hdef : ∀ q ∈ d.noneDefault, defaults q = S.none)
    (data : List (String × V)) {k a : String} (hk : (k, ReprE.attr a) ∈ d.repr) :
    lookup (construct S defaults d (represent d (construct S defaults d data))) a
      = lookup (construct S defaults d data) a := by
  obtain ⟨a', st, ha, _, hst, hmain⟩ := hd.reprOK k _ hk
  cases ha
  rw [lookup_construct_of_mem S defaults hd _ hst, lookup_construct_of_mem S defaults hd _ hst]
  congr 1
  apply evalStore_roundtrip S none_eq new_not_none norm_idem _ _ st k hmain
  · unfold argOf
    rw [lookup_represent_mem hd _ hk, lookup_construct_of_mem S defaults hd _ hst]
    rfl
  · intro p q hpq
    subst hpq
    obtain ⟨hq1, hq2⟩ := hd.fallback _ _ _ hst
    unfold argOf
    rw [lookup_represent_not_mem d _ q hq2]
    exact hdef q hq1

theorem represent_construct_keys (S : Sem V) (defaults : String → V) {d : ClassDesc} (hd : WF d)
    (data : List (String × V)) :
    (represent d (construct S defaults d data)).map (·.1) = reprKeys d := by
  rw [represent_eq]
  unfold reprKeys
  have key : ∀ r : List (String × ReprE), (∀ x ∈ r, x ∈ d.repr) →
      (r.filterMap (reprEntry (construct S defaults d data))).map (·.1) = r.map (·.1) := by
    intro r
    induction r with
    | nil => intro _; rfl
    | cons x r ih =>
      intro hr
      obtain ⟨k, e⟩ := x
      obtain ⟨a, st, he, _, hst, _⟩ := hd.reprOK k e (hr _ List.mem_cons_self)
      subst he
      have hx : reprEntry (construct S defaults d data) (k, ReprE.attr a)
          = some (k, evalStore S (argOf defaults data) st) := by
        simp only [reprEntry]
        rw [lookup_construct_of_mem S defaults hd _ hst]
        rfl
      rw [List.filterMap_cons, hx]
      simp only [List.map_cons]
      rw [ih (fun y hy => hr y (List.mem_cons_of_mem _ hy))]
  exact key d.repr (fun _ h => h)

theorem represent_congr (d : ClassDesc) (attrs attrs' : List (String × V))
    (h : ∀ k a, (k, ReprE.attr a) ∈ d.repr → lookup attrs a = lookup attrs' a) :
    represent d attrs = represent d attrs' := by
  rw [represent_eq, represent_eq]
  have key : ∀ r : List (String × ReprE), (∀ x ∈ r, x ∈ d.repr) →
      r.filterMap (reprEntry attrs) = r.filterMap (reprEntry attrs') := by
    intro r
    induction r with
    | nil => intro _; rfl
    | cons x r ih =>
      intro hr
      obtain ⟨k, e⟩ := x
      have hx : reprEntry attrs (k, e) = reprEntry attrs' (k, e) := by
        cases e with
        | other s => rfl
        | attr a =>
          simp only [reprEntry]
          rw [h k a (hr _ List.mem_cons_self)]
      rw [List.filterMap_cons, List.filterMap_cons, hx,
        ih (fun y hy => hr y (List.mem_cons_of_mem _ hy))]
  exact key d.repr (fun _ h => h)

end Panoptica.Cfg
