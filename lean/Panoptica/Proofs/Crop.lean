/- helper lemmas for C10 (bounding box, crop, counts over foreground pairs, transport of adjacency) -/
import Panoptica.Model.Geometry
import Panoptica.Model.Overlap
import Panoptica.Model.Metrics
import Panoptica.Spec.Reach
import Panoptica.Spec.Transforms
namespace Panoptica
end Panoptica
