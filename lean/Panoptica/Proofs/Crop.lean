/- helper lemmas for C10 (bounding box, crop, counts over foreground pairs, transport of adjacency) -/
import Panoptica.Model.Geometry
import Panoptica.Model.Overlap
import Panoptica.Model.Metrics
import Panoptica.Spec.Reach
import Panoptica.Spec.Transforms
import Panoptica.Spec.Masks
namespace Panoptica
open Panoptica.Spec

/-! ### counts over zipped label pairs -/

theorem ovCount_eq_zip (pred ref : Flat) (r p : Lab) :
    ovCount pred ref r p = ((pred.zip ref).filter (fun z => z.1 == p && z.2 == r)).length := by
  induction pred generalizing ref with
  | nil => simp [ovCount]
  | cons x xs ih =>
    cases ref with
    | nil => simp [ovCount]
    | cons y ys =>
      simp only [ovCount, List.zip_cons_cons, List.filter_cons, ih ys]
      split <;> simp <;> omega

theorem cnt_eq_zip_fst (pred ref : Flat) (hlen : pred.length = ref.length) (l : Lab) :
    cnt pred l = ((pred.zip ref).filter (fun z => z.1 == l)).length := by
  induction pred generalizing ref with
  | nil => simp [cnt]
  | cons x xs ih =>
    cases ref with
    | nil => simp at hlen
    | cons y ys =>
      have ih' := ih ys (by simpa using hlen)
      simp only [cnt] at ih' ⊢
      simp only [List.zip_cons_cons, List.filter_cons]
      by_cases h : x = l <;> simp [h, ih']

theorem cnt_eq_zip_snd (pred ref : Flat) (hlen : pred.length = ref.length) (l : Lab) :
    cnt ref l = ((pred.zip ref).filter (fun z => z.2 == l)).length := by
  induction pred generalizing ref with
  | nil => cases ref with
    | nil => simp [cnt]
    | cons y ys => simp at hlen
  | cons x xs ih =>
    cases ref with
    | nil => simp at hlen
    | cons y ys =>
      have ih' := ih ys (by simpa using hlen)
      simp only [cnt] at ih' ⊢
      simp only [List.zip_cons_cons, List.filter_cons]
      by_cases h : y = l <;> simp [h, ih']

/-! ### masks of selected instances -/

theorem card_selRef (a : Flat) (r : Lab) : card (selRef a r) = cnt a r := by
  induction a with
  | nil => simp [card, selRef, cnt]
  | cons x xs ih =>
    simp only [card, selRef, cnt] at ih ⊢
    simp only [List.map_cons, List.count_cons, List.filter_cons, ih]
    by_cases h : x = r <;> simp [h]

theorem card_selPred_single (a : Flat) (p : Lab) : card (selPred a [p]) = cnt a p := by
  induction a with
  | nil => simp [card, selPred, cnt]
  | cons x xs ih =>
    simp only [card, selPred, cnt] at ih ⊢
    simp only [List.map_cons, List.count_cons, List.filter_cons, ih]
    by_cases h : x = p <;> simp [h]

theorem cardInter_sel (pred ref : Flat) (r p : Lab) :
    cardInter (selRef ref r) (selPred pred [p]) = ovCount pred ref r p := by
  induction pred generalizing ref with
  | nil => cases ref <;> simp [cardInter, selRef, selPred, ovCount]
  | cons x xs ih =>
    cases ref with
    | nil => simp [cardInter, selRef, selPred, ovCount]
    | cons y ys =>
      have ih' := ih ys
      simp only [cardInter, selRef, selPred] at ih' ⊢
      simp only [List.map_cons, List.zipWith_cons_cons, List.count_cons, ovCount, ih']
      by_cases h : x = p <;> by_cases h' : y = r <;> simp [h, h'] <;> omega

/-! ### reachability -/

theorem reach_mem {α : Type} (adj : α → α → Bool) (V : List α) (a b : α) (h : Reach adj V a b) :
    a ∈ V ∧ b ∈ V := by
  induction h with
  | refl ha => exact ⟨ha, ha⟩
  | step _ hc _ ih => exact ⟨ih.1, hc⟩

/-! ### adjacency -/

theorem absDiffs_eq_zipWith (a b : Coord) :
    absDiffs a b = List.zipWith (fun x y => (x - y).natAbs) a b := by
  induction a generalizing b with
  | nil => simp [absDiffs]
  | cons x xs ih => cases b with
    | nil => simp [absDiffs]
    | cons y ys => simp [absDiffs, ih]

theorem coord_ne_iff (a b : Coord) (h : a.length = b.length) :
    a ≠ b ↔ ∃ i, i < a.length ∧ a.getD i 0 ≠ b.getD i 0 := by
  constructor
  · intro hne
    apply Classical.byContradiction
    intro hcon
    apply hne
    apply List.ext_getElem h
    intro i h1 h2
    apply Classical.byContradiction
    intro hx
    apply hcon
    refine ⟨i, h1, ?_⟩
    simpa [List.getD_eq_getElem?_getD, h1, h2] using hx
  · rintro ⟨i, _, hi⟩ rfl
    exact hi rfl

theorem fullAdj_iff (a b : Coord) (h : a.length = b.length) :
    fullAdj a b = true ↔ (∃ i, i < a.length ∧ a.getD i 0 ≠ b.getD i 0) ∧
      ∀ i, i < a.length → (a.getD i 0 - b.getD i 0).natAbs ≤ 1 := by
  rw [← coord_ne_iff a b h]
  have hl : (a.length == b.length) = true := by simp [h]
  simp only [fullAdj, hl, Bool.true_and, Bool.and_eq_true, bne_iff_ne, ne_eq,
    List.all_eq_true, decide_eq_true_eq, absDiffs_eq_zipWith]
  apply and_congr_right
  intro _
  constructor
  · intro hall i hi
    have hi' : i < b.length := h ▸ hi
    apply hall
    rw [List.mem_iff_getElem]
    refine ⟨i, by simp only [List.length_zipWith]; omega, ?_⟩
    simp [List.getD_eq_getElem?_getD, hi, hi']
  · intro hall x hx
    rw [List.mem_iff_getElem] at hx
    obtain ⟨i, hi, rfl⟩ := hx
    simp only [List.length_zipWith] at hi
    have h1 : i < a.length := by omega
    have h2 : i < b.length := by omega
    have := hall i h1
    simpa [List.getD_eq_getElem?_getD, h1, h2] using this

/-- transport of full adjacency along a coordinate-wise map composed with an involutive
    renumbering of the axes -/
theorem fullAdj_transport (a b a' b' : Coord) (σ : Nat → Nat)
    (h : a.length = b.length) (ha : a'.length = a.length) (hb : b'.length = a.length)
    (hσ : ∀ l, l < a.length → σ l < a.length) (hσσ : ∀ l, l < a.length → σ (σ l) = l)
    (hd : ∀ l, l < a.length →
      (a'.getD l 0 - b'.getD l 0).natAbs = (a.getD (σ l) 0 - b.getD (σ l) 0).natAbs) :
    fullAdj a' b' = fullAdj a b := by
  rw [Bool.eq_iff_iff, fullAdj_iff a b h, fullAdj_iff a' b' (ha.trans hb.symm), ha]
  constructor
  · rintro ⟨⟨i, hi, hne⟩, hall⟩
    refine ⟨⟨σ i, hσ i hi, ?_⟩, ?_⟩
    · have := hd i hi; omega
    · intro l hl
      have := hd (σ l) (hσ l hl)
      have h2 := hall (σ l) (hσ l hl)
      rw [hσσ l hl] at this
      omega
  · rintro ⟨⟨i, hi, hne⟩, hall⟩
    refine ⟨⟨σ i, hσ i hi, ?_⟩, ?_⟩
    · have := hd (σ i) (hσ i hi)
      rw [hσσ i hi] at this; omega
    · intro l hl
      have := hd l hl
      have h2 := hall (σ l) (hσ l hl)
      omega


theorem translate_getD (t a : Coord) (h : a.length = t.length) (l : Nat) (hl : l < a.length) :
    (translate t a).getD l 0 = t.getD l 0 + a.getD l 0 := by
  have hl' : l < t.length := h ▸ hl
  simp [translate, List.getD_eq_getElem?_getD, List.getElem?_zipWith, hl, hl']

theorem flipAxis_getD (k : Nat) (m : Int) (a : Coord) (l : Nat) (hl : l < a.length) :
    (flipAxis k m a).getD l 0 = if k = l then m - 1 - a.getD k 0 else a.getD l 0 := by
  simp only [flipAxis, List.getD_eq_getElem?_getD, List.getElem?_set]
  split
  · subst_vars; simp [hl]
  · rfl

def swapIdx (i j l : Nat) : Nat := if l = j then i else if l = i then j else l

theorem swapAxes_getD (i j : Nat) (a : Coord) (hi : i < a.length) (hj : j < a.length)
    (l : Nat) (hl : l < a.length) :
    (swapAxes i j a).getD l 0 = a.getD (swapIdx i j l) 0 := by
  simp only [swapAxes, swapIdx, List.getD_eq_getElem?_getD, List.getElem?_set, List.length_set]
  by_cases h1 : l = j
  · subst h1; simp [hl]
  · by_cases h2 : l = i
    · subst h2; simp [h1, hl, Ne.symm h1]
    · simp [h1, h2, Ne.symm h1, Ne.symm h2]

/-! ### face adjacency is "squared distance 1" -/

theorem sum_sq_small (l : List Nat) :
    (l.sum = 0 ↔ (l.map (fun d => d * d)).sum = 0) ∧ (l.sum = 1 ↔ (l.map (fun d => d * d)).sum = 1) := by
  induction l with
  | nil => simp
  | cons d ds ih =>
    simp only [List.sum_cons, List.map_cons]
    have hd : d = 0 ∨ d = 1 ∨ 2 ≤ d := by omega
    rcases hd with rfl | rfl | hd
    · simpa using ih
    · have := ih.1
      constructor <;> omega
    · have : d ≤ d * d := Nat.le_mul_self d
      constructor <;> omega

theorem faceAdj_eq_sqDist (a b : Coord) :
    faceAdj a b = (a.length == b.length && sqDist a b == 1) := by
  simp only [faceAdj, sqDist, ← List.sum_eq_foldl_nat]
  congr 1
  rw [Bool.eq_iff_iff]
  simpa using (sum_sq_small (absDiffs a b)).2

/-! ### bounding box -/

theorem foldl_min_le (xs : List Nat) (x : Nat) :
    xs.foldl min x ≤ x ∧ ∀ v ∈ xs, xs.foldl min x ≤ v := by
  induction xs generalizing x with
  | nil => simp
  | cons y ys ih =>
    simp only [List.foldl_cons, List.mem_cons]
    have h := ih (min x y)
    refine ⟨by omega, ?_⟩
    rintro v (rfl | hv)
    · omega
    · exact h.2 v hv

theorem minOf_le_mem (vs : List Nat) (v : Nat) (h : v ∈ vs) : minOf vs ≤ v := by
  cases vs with
  | nil => cases h
  | cons x xs =>
    simp only [minOf]
    rcases List.mem_cons.1 h with rfl | h
    · exact (foldl_min_le xs v).1
    · exact (foldl_min_le xs x).2 v h

theorem crop_foldl_max_ge (xs : List Nat) (x : Nat) :
    x ≤ xs.foldl max x ∧ ∀ v ∈ xs, v ≤ xs.foldl max x := by
  induction xs generalizing x with
  | nil => simp
  | cons y ys ih =>
    simp only [List.foldl_cons, List.mem_cons]
    have h := ih (max x y)
    refine ⟨by omega, ?_⟩
    rintro v (rfl | hv)
    · omega
    · exact h.2 v hv

theorem mem_le_maxOf (vs : List Nat) (v : Nat) (h : v ∈ vs) : v ≤ maxOf vs :=
  (crop_foldl_max_ge vs 0).2 v h

theorem clip_bbox_length (shape : List Nat) (sup : List Coord) (pad : Nat) :
    ((bboxNd shape sup pad).clip shape).length = shape.length := by
  simp [Box.clip, bboxNd]

theorem clip_bbox_getElem (shape : List Nat) (sup : List Coord) (pad : Nat) (i : Nat)
    (hi : i < ((bboxNd shape sup pad).clip shape).length) (hi' : i < shape.length) :
    ((bboxNd shape sup pad).clip shape)[i] =
      (min (minOf (axisVals sup i) - pad) shape[i],
       min (min (maxOf (axisVals sup i) + pad) shape[i] + 1) shape[i]) := by
  simp [Box.clip, bboxNd, List.getD_eq_getElem?_getD, hi']

/-! ### raster coordinates of a box -/

theorem filter_range_Ico (lo hi n : Nat) (h1 : lo ≤ hi) (h2 : hi ≤ n) :
    (List.range n).filter (fun i => decide (lo ≤ i) && decide (i < hi)) =
      (List.range (hi - lo)).map (fun i => lo + i) := by
  have hn : n = lo + ((hi - lo) + (n - hi)) := by omega
  rw [hn, List.range_add, List.range_add]
  have e1 : (List.range lo).filter (fun i => decide (lo ≤ i) && decide (i < hi)) = [] := by
    rw [List.filter_eq_nil_iff]
    intro a ha
    have := List.mem_range.1 ha
    simp; omega
  have e3 : ((List.map (fun x => hi - lo + x) (List.range (n - hi))).map (fun x => lo + x)).filter
      (fun i => decide (lo ≤ i) && decide (i < hi)) = [] := by
    rw [List.filter_eq_nil_iff]
    intro a ha
    simp only [List.map_map, List.mem_map, Function.comp] at ha
    obtain ⟨x, _, rfl⟩ := ha
    simp; omega
  have e2 : ((List.range (hi - lo)).map (fun x => lo + x)).filter
      (fun i => decide (lo ≤ i) && decide (i < hi)) = (List.range (hi - lo)).map (fun x => lo + x) := by
    rw [List.filter_eq_self]
    intro a ha
    simp only [List.mem_map] at ha
    obtain ⟨x, hx, rfl⟩ := ha
    have := List.mem_range.1 hx
    simp; omega
  rw [List.map_append, List.filter_append, List.filter_append, e1, e2, e3]
  simp

theorem flatMap_filter_ite {α β : Type} (p : α → Bool) (g : α → List β) (l : List α) :
    l.flatMap (fun i => if p i then g i else []) = (l.filter p).flatMap g := by
  induction l with
  | nil => rfl
  | cons x xs ih =>
    simp only [List.flatMap_cons, List.filter_cons, ih]
    split <;> simp

theorem inBox_cons (lo hi : Nat) (b : Box) (x : Int) (c : Coord) :
    inBox ((lo, hi) :: b) (x :: c) = ((decide ((lo : Int) ≤ x) && decide (x < (hi : Int))) && inBox b c) := by
  simp [inBox]

theorem allCoords_box_aux (shape : List Nat) (b : Box) (hlen : b.length = shape.length)
    (hin : ∀ p ∈ b.zip shape, p.1.1 ≤ p.1.2 ∧ p.1.2 ≤ p.2) :
    (allCoords shape).filter (inBox b) =
      (allCoords (b.map (fun p => p.2 - p.1))).map (translate (b.map (fun p => (p.1 : Int)))) := by
  induction shape generalizing b with
  | nil =>
    cases b with
    | nil => simp [allCoords, inBox, translate]
    | cons _ _ => simp at hlen
  | cons n rest ih =>
    cases b with
    | nil => simp at hlen
    | cons q b' =>
      obtain ⟨lo, hi⟩ := q
      have hq := hin ((lo, hi), n) (by simp)
      have ih' := ih b' (by simpa using hlen) (by
        intro p hp
        exact hin p (by simp [hp]))
      simp only at hq
      simp only [allCoords, List.map_cons, List.filter_flatMap, List.filter_map, List.map_flatMap,
        List.map_map]
      have hfun : ∀ i : Nat, (List.filter (inBox ((lo, hi) :: b') ∘ fun c => Int.ofNat i :: c) (allCoords rest)) =
          if (decide (lo ≤ i) && decide (i < hi)) then (allCoords rest).filter (inBox b') else [] := by
        intro i
        split
        · rename_i h
          apply List.filter_congr
          intro c _
          simp only [Function.comp, inBox_cons]
          simp only [Bool.and_eq_true, decide_eq_true_eq] at h
          simp [h.1, h.2]
        · rename_i h
          rw [List.filter_eq_nil_iff]
          intro c _
          simp only [Function.comp, inBox_cons]
          simp only [Bool.and_eq_true, decide_eq_true_eq] at h
          have : ¬ (((lo : Int) ≤ Int.ofNat i) ∧ (Int.ofNat i < (hi : Int))) := by
            simp; omega
          simp; omega
      simp only [hfun]
      have hite : ∀ i : Nat, List.map (fun c => Int.ofNat i :: c)
            (if (decide (lo ≤ i) && decide (i < hi)) = true then List.filter (inBox b') (allCoords rest) else []) =
          if (decide (lo ≤ i) && decide (i < hi)) = true then
            List.map (fun c => Int.ofNat i :: c) (List.filter (inBox b') (allCoords rest)) else [] := by
        intro i; split <;> rfl
      simp only [hite]
      rw [flatMap_filter_ite (fun i => decide (lo ≤ i) && decide (i < hi)), filter_range_Ico lo hi n hq.1 hq.2,
        List.flatMap_map, ih']
      congr 1
      funext i
      simp [translate, Function.comp]

/-! ### crop -/

theorem foldl_mul_init (s : List Nat) (k : Nat) : s.foldl (· * ·) k = k * s.foldl (· * ·) 1 := by
  induction s generalizing k with
  | nil => simp
  | cons n rest ih =>
    simp only [List.foldl_cons]
    rw [ih (k * n), ih (1 * n)]
    simp [Nat.mul_assoc]

theorem length_flatMap_const {α β : Type} (l : List α) (f : α → List β) (m : Nat)
    (h : ∀ a, (f a).length = m) : (l.flatMap f).length = l.length * m := by
  induction l with
  | nil => simp
  | cons x xs ih => simp [List.flatMap_cons, ih, h, Nat.succ_mul, Nat.add_comm]

theorem allCoords_length (s : List Nat) : (allCoords s).length = shapeSize s := by
  induction s with
  | nil => simp [allCoords, shapeSize]
  | cons n rest ih =>
    simp only [allCoords, shapeSize, List.foldl_cons] at ih ⊢
    rw [length_flatMap_const _ _ (allCoords rest).length (by intro a; simp), foldl_mul_init, ih]
    simp

theorem clip_eq_self (b : Box) (shape : List Nat)
    (hin : ∀ p ∈ b.zip shape, p.1.1 ≤ p.1.2 ∧ p.1.2 ≤ p.2) (hlen : b.length = shape.length) :
    b.clip shape = b := by
  induction b generalizing shape with
  | nil => simp [Box.clip]
  | cons q b' ih =>
    cases shape with
    | nil => simp at hlen
    | cons n rest =>
      have hq := hin (q, n) (by simp)
      have ih' := ih rest (fun p hp => hin p (by simp [hp])) (by simpa using hlen)
      simp only [Box.clip] at ih' ⊢
      simp only [List.zip_cons_cons, List.map_cons, ih']
      simp only at hq
      rw [Nat.min_eq_left (by omega), Nat.min_eq_left hq.2]

theorem zip_map_fst_snd {α β : Type} (l : List (α × β)) : (l.map (·.1)).zip (l.map (·.2)) = l := by
  induction l with
  | nil => rfl
  | cons x xs ih => simp [ih]

theorem crop_fg_aux (a : Arr) (b : Box) (hdata : a.data.length = shapeSize a.shape)
    (hlen : b.length = a.shape.length)
    (hin : ∀ p ∈ b.zip a.shape, p.1.1 ≤ p.1.2 ∧ p.1.2 ≤ p.2)
    (hfg : ∀ v ∈ a.fg, inBox b v.1 = true) :
    (a.crop b).fg.map (fun v => (translate (b.map (fun p => (p.1 : Int))) v.1, v.2)) = a.fg := by
  have hfst : a.voxels.map (·.1) = allCoords a.shape := by
    unfold Arr.voxels
    rw [List.map_fst_zip]
    rw [allCoords_length, hdata]; exact Nat.le_refl _
  have hVB : ((a.voxels.filter (fun v => inBox b v.1)).map (·.1)) =
      (allCoords (b.map (fun p => p.2 - p.1))).map (translate (b.map (fun p => (p.1 : Int)))) := by
    rw [← allCoords_box_aux a.shape b hlen hin, ← hfst, List.filter_map]
    rfl
  simp only [Arr.fg, Arr.crop, clip_eq_self b a.shape hin hlen] at hfg ⊢
  generalize a.voxels = V at hVB hfg ⊢
  simp only [Arr.voxels]
  have hmf : ∀ (F : Coord × Lab → Coord × Lab) (hF : ∀ v, (F v).2 = v.2) (L : List (Coord × Lab)),
      (L.filter (fun v => v.2 != 0)).map F = (L.map F).filter (fun v => v.2 != 0) := by
    intro F hF L
    rw [List.filter_map]
    congr 1
    apply List.filter_congr
    intro v _
    simp [Function.comp, hF]
  have : (fun v : Coord × Lab => (translate (List.map (fun p => (p.1 : Int)) b) v.1, v.2)) =
      Prod.map (translate (List.map (fun p => (p.1 : Int)) b)) id := by
    funext v; rfl
  rw [this, hmf (Prod.map (translate (List.map (fun p => (p.1 : Int)) b)) id) (fun _ => rfl), ← List.zip_map_left, ← hVB, zip_map_fst_snd, List.filter_filter]
  apply List.filter_congr
  intro v hv
  by_cases h0 : v.2 = 0
  · simp [h0]
  · have := hfg v (by simp [hv, h0])
    simp [this]

end Panoptica
