/- helper lemmas shared by C07 / C10 (coordinates, neighbours, borders, distances) -/
import Panoptica.Model.Geometry
import Panoptica.Spec.Reach
namespace Panoptica
end Panoptica
