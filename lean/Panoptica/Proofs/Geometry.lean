/- helper lemmas shared by C07 / C10 (coordinates, neighbours, borders, distances) -/
import Panoptica.Model.Geometry
import Panoptica.Spec.Reach
import Panoptica.Spec.Transforms
namespace Panoptica
open Panoptica.Spec

/-! ### sums -/

theorem filterMap_congr' {α β : Type} {f g : α → Option β} {l : List α}
    (h : ∀ x ∈ l, f x = g x) : l.filterMap f = l.filterMap g := by
  induction l with
  | nil => rfl
  | cons x xs ih =>
    simp only [List.filterMap_cons, h x (by simp), ih (fun y hy => h y (List.mem_cons_of_mem _ hy))]

theorem foldl_add_eq_sum (l : List Nat) (acc : Nat) : l.foldl (· + ·) acc = acc + l.sum := by
  induction l generalizing acc with
  | nil => simp
  | cons x xs ih => simp only [List.foldl_cons, ih, List.sum_cons]; omega

@[simp] theorem absDiffs_nil_left (b : Coord) : absDiffs [] b = [] := by
  simp [absDiffs]

@[simp] theorem absDiffs_nil_right (a : Coord) : absDiffs a [] = [] := by
  cases a <;> simp [absDiffs]

@[simp] theorem absDiffs_cons (a : Int) (as : Coord) (b : Int) (bs : Coord) :
    absDiffs (a :: as) (b :: bs) = (a - b).natAbs :: absDiffs as bs := by
  simp [absDiffs]

theorem faceAdj_iff (a b : Coord) :
    faceAdj a b = true ↔ a.length = b.length ∧ (absDiffs a b).sum = 1 := by
  simp [faceAdj, foldl_add_eq_sum]

theorem sqDist_eq_sum (a b : Coord) : sqDist a b = ((absDiffs a b).map (fun d => d * d)).sum := by
  simp [sqDist, foldl_add_eq_sum]

theorem sqDist_cons (a : Int) (as : Coord) (b : Int) (bs : Coord) :
    sqDist (a :: as) (b :: bs) = (a - b).natAbs * (a - b).natAbs + sqDist as bs := by
  simp [sqDist_eq_sum]

theorem absDiffs_sum_eq_zero (a b : Coord) (h : a.length = b.length) :
    (absDiffs a b).sum = 0 ↔ a = b := by
  induction a generalizing b with
  | nil => cases b <;> simp_all
  | cons x xs ih =>
    cases b with
    | nil => simp at h
    | cons y ys =>
      simp only [List.length_cons, Nat.add_right_cancel_iff] at h
      simp only [absDiffs_cons, List.sum_cons, Nat.add_eq_zero_iff, ih ys h, List.cons.injEq]
      constructor <;> rintro ⟨h1, h2⟩ <;> exact ⟨by omega, h2⟩

theorem sqDist_eq_zero_iff (a b : Coord) (h : a.length = b.length) : sqDist a b = 0 ↔ a = b := by
  induction a generalizing b with
  | nil => cases b <;> simp_all [sqDist_eq_sum]
  | cons x xs ih =>
    cases b with
    | nil => simp at h
    | cons y ys =>
      simp only [List.length_cons, Nat.add_right_cancel_iff] at h
      simp only [sqDist_cons, Nat.add_eq_zero_iff, ih ys h, List.cons.injEq, Nat.mul_eq_zero, or_self]
      constructor <;> rintro ⟨h1, h2⟩ <;> exact ⟨by omega, h2⟩

theorem sqDist_self (a : Coord) : sqDist a a = 0 := (sqDist_eq_zero_iff a a rfl).2 rfl

/-! ### face neighbours -/

theorem length_of_mem_faceNeighbours (c x : Coord) (h : x ∈ faceNeighbours c) : x.length = c.length := by
  induction c generalizing x with
  | nil => simp [faceNeighbours] at h
  | cons a as ih =>
    simp only [faceNeighbours, List.mem_cons, List.mem_map] at h
    rcases h with rfl | rfl | ⟨t, ht, rfl⟩
    · simp
    · simp
    · simp [ih t ht]

theorem mem_faceNeighbours_iff (c x : Coord) : x ∈ faceNeighbours c ↔ faceAdj c x = true := by
  rw [faceAdj_iff]
  induction c generalizing x with
  | nil => cases x <;> simp [faceNeighbours]
  | cons a as ih =>
    cases x with
    | nil => simp [faceNeighbours]
    | cons y ys =>
      simp only [faceNeighbours, List.mem_cons, List.mem_map, List.cons.injEq, List.length_cons,
        Nat.add_right_cancel_iff, absDiffs_cons, List.sum_cons]
      constructor
      · rintro (⟨rfl, rfl⟩ | ⟨rfl, rfl⟩ | ⟨t, ht, rfl, rfl⟩)
        · refine ⟨rfl, ?_⟩
          have := (absDiffs_sum_eq_zero ys ys rfl).2 rfl
          omega
        · refine ⟨rfl, ?_⟩
          have := (absDiffs_sum_eq_zero ys ys rfl).2 rfl
          omega
        · have := (ih t).1 ht
          refine ⟨this.1, ?_⟩
          omega
      · rintro ⟨hl, hs⟩
        by_cases h0 : (absDiffs as ys).sum = 0
        · have := (absDiffs_sum_eq_zero as ys hl).1 h0
          subst this
          have : y = a - 1 ∨ y = a + 1 := by omega
          rcases this with rfl | rfl
          · exact Or.inl ⟨rfl, rfl⟩
          · exact Or.inr (Or.inl ⟨rfl, rfl⟩)
        · refine Or.inr (Or.inr ⟨ys, (ih ys).2 ⟨hl, by omega⟩, by omega, rfl⟩)

theorem mem_border_iff (X : List Coord) (c : Coord) :
    c ∈ border X ↔ c ∈ X ∧ ∃ x, faceAdj c x = true ∧ x ∉ X := by
  simp [border, List.mem_filter, mem_faceNeighbours_iff]

theorem border_subset (X : List Coord) : ∀ c ∈ border X, c ∈ X := fun _ h =>
  (List.mem_filter.1 h).1

/-! ### nearest -/

theorem nearestSq_spec' (a : Coord) (B : List Coord) (hB : B ≠ []) :
    ∃ b ∈ B, nearestSq a B = some (sqDist a b) ∧ ∀ b' ∈ B, sqDist a b ≤ sqDist a b' := by
  induction B with
  | nil => exact absurd rfl hB
  | cons b bs ih =>
    by_cases hbs : bs = []
    · subst hbs
      exact ⟨b, by simp, by simp [nearestSq], by simp⟩
    · obtain ⟨m, hm, hsome, hmin⟩ := ih hbs
      by_cases hle : sqDist a b ≤ sqDist a m
      · refine ⟨b, by simp, by simp [nearestSq, hsome, Nat.min_eq_left hle], ?_⟩
        intro b' hb'
        rcases List.mem_cons.1 hb' with rfl | hb'
        · exact Nat.le_refl _
        · exact Nat.le_trans hle (hmin b' hb')
      · refine ⟨m, by simp [hm], by simp [nearestSq, hsome]; omega, ?_⟩
        intro b' hb'
        rcases List.mem_cons.1 hb' with rfl | hb'
        · omega
        · exact hmin b' hb'

/-! ### coordinate-wise structure of `absDiffs` -/

theorem absDiffs_eq_zipWith (a b : Coord) :
    absDiffs a b = List.zipWith (fun x y => (x - y).natAbs) a b := by
  induction a generalizing b with
  | nil => simp
  | cons x xs ih => cases b <;> simp [ih]

theorem length_absDiffs (a b : Coord) : (absDiffs a b).length = min a.length b.length := by
  simp [absDiffs_eq_zipWith]

theorem getElem_absDiffs (a b : Coord) (k : Nat) (h : k < (absDiffs a b).length)
    (ha : k < a.length) (hb : k < b.length) :
    (absDiffs a b)[k] = (a[k] - b[k]).natAbs := by
  simp [absDiffs_eq_zipWith]

theorem absDiffs_set (a b : Coord) (k : Nat) (u v : Int) :
    absDiffs (a.set k u) (b.set k v) = (absDiffs a b).set k (u - v).natAbs := by
  induction a generalizing b k with
  | nil => simp
  | cons x xs ih =>
    cases b with
    | nil => simp
    | cons y ys => cases k <;> simp [ih]

theorem sqDist_eq_of_perm {a b a' b' : Coord} (h : (absDiffs a' b').Perm (absDiffs a b)) :
    sqDist a' b' = sqDist a b := by
  rw [sqDist_eq_sum, sqDist_eq_sum]
  exact (h.map _).sum_nat

/-! ### grid isometries -/

/-- a length-preserving map with a right inverse that permutes the coordinate differences is a
    grid isometry -/
theorem GridIsometry.of_perm (f g : Coord → Coord) (n : Nat)
    (hlen : ∀ c, c.length = n → (f c).length = n)
    (hglen : ∀ c, c.length = n → (g c).length = n)
    (hfg : ∀ c, c.length = n → f (g c) = c)
    (hperm : ∀ a b, a.length = n → b.length = n → (absDiffs (f a) (f b)).Perm (absDiffs a b)) :
    GridIsometry f n where
  len := hlen
  inj := by
    intro a b ha hb hab
    have h0 : sqDist (f a) (f b) = 0 := by rw [hab]; exact sqDist_self _
    rw [sqDist_eq_of_perm (hperm a b ha hb)] at h0
    exact (sqDist_eq_zero_iff a b (by omega)).1 h0
  dist := fun a b ha hb => sqDist_eq_of_perm (hperm a b ha hb)
  nbr := by
    intro c x hc
    constructor
    · intro hx
      have hxl : x.length = n := by
        rw [length_of_mem_faceNeighbours _ _ hx]; exact hlen c hc
      have hadj := (faceAdj_iff _ _).1 ((mem_faceNeighbours_iff _ _).1 hx)
      refine ⟨g x, ?_, hfg x hxl⟩
      rw [mem_faceNeighbours_iff, faceAdj_iff]
      refine ⟨by rw [hc, hglen x hxl], ?_⟩
      have := (hperm c (g x) hc (hglen x hxl)).sum_nat
      rw [hfg x hxl] at this
      omega
    · rintro ⟨y, hy, rfl⟩
      have hyl : y.length = n := by rw [length_of_mem_faceNeighbours _ _ hy]; exact hc
      have hadj := (faceAdj_iff _ _).1 ((mem_faceNeighbours_iff _ _).1 hy)
      rw [mem_faceNeighbours_iff, faceAdj_iff]
      refine ⟨by rw [hlen c hc, hlen y hyl], ?_⟩
      have := (hperm c y hc hyl).sum_nat
      omega

/-! #### translation -/

theorem length_translate (t c : Coord) : (translate t c).length = min t.length c.length := by
  simp [translate]

theorem translate_neg_cancel (t c : Coord) (h : t.length = c.length) :
    translate t (translate (t.map (fun x => -x)) c) = c := by
  induction t generalizing c with
  | nil => cases c <;> simp_all [translate]
  | cons x xs ih =>
    cases c with
    | nil => simp at h
    | cons y ys =>
      simp only [List.length_cons, Nat.add_right_cancel_iff] at h
      have := ih ys h
      simp only [translate] at this ⊢
      simp only [List.map_cons, List.zipWith_cons_cons, this, List.cons.injEq, and_true]
      omega

theorem absDiffs_translate (t a b : Coord) (ha : a.length = t.length) (hb : b.length = t.length) :
    absDiffs (translate t a) (translate t b) = absDiffs a b := by
  induction t generalizing a b with
  | nil => cases a <;> cases b <;> simp_all [translate]
  | cons x xs ih =>
    cases a with
    | nil => simp at ha
    | cons y ys =>
      cases b with
      | nil => simp at hb
      | cons z zs =>
        simp only [List.length_cons, Nat.add_right_cancel_iff] at ha hb
        have := ih ys zs ha hb
        simp only [translate] at this ⊢
        simp only [List.zipWith_cons_cons, absDiffs_cons, this, List.cons.injEq, and_true]
        congr 1
        omega

theorem translate_gridIsometry (n : Nat) (t : Coord) (ht : t.length = n) :
    GridIsometry (translate t) n :=
  GridIsometry.of_perm (translate t) (translate (t.map (fun x => -x))) n
    (fun c hc => by rw [length_translate]; omega)
    (fun c hc => by rw [length_translate, List.length_map]; omega)
    (fun c hc => translate_neg_cancel t c (by omega))
    (fun a b ha hb => by rw [absDiffs_translate t a b (by omega) (by omega)])

/-! #### mirroring an axis -/

theorem flipAxis_eq (k : Nat) (m : Int) (c : Coord) (hk : k < c.length) :
    flipAxis k m c = c.set k (m - 1 - c[k]) := by
  simp [flipAxis, List.getD_eq_getElem?_getD, hk]

theorem flipAxis_gridIsometry (n k : Nat) (m : Int) (hk : k < n) : GridIsometry (flipAxis k m) n := by
  have hlen : ∀ c : Coord, c.length = n → (flipAxis k m c).length = n := by
    intro c hc; simp [flipAxis, hc]
  refine GridIsometry.of_perm (flipAxis k m) (flipAxis k m) n hlen hlen ?_ ?_
  · intro c hc
    rw [flipAxis_eq k m c (by omega), flipAxis_eq k m _ (by simp; omega)]
    apply List.ext_getElem (by simp)
    intro i h1 h2
    simp only [List.getElem_set, List.set_set]
    split
    · subst_vars; simp only [if_true]; omega
    · rfl
  · intro a b ha hb
    rw [flipAxis_eq k m a (by omega), flipAxis_eq k m b (by omega), absDiffs_set]
    have hl : k < (absDiffs a b).length := by rw [length_absDiffs]; omega
    have : (m - 1 - a[k] - (m - 1 - b[k])).natAbs = (absDiffs a b)[k] := by
      rw [getElem_absDiffs a b k hl (by omega) (by omega)]; omega
    rw [this, List.set_getElem_self]

/-! #### exchanging two axes -/

theorem swapAxes_eq (i j : Nat) (c : Coord) (hi : i < c.length) (hj : j < c.length) :
    swapAxes i j c = (c.set i c[j]).set j c[i] := by
  simp [swapAxes, List.getD_eq_getElem?_getD, hi, hj]

theorem swapAxes_gridIsometry (n i j : Nat) (hi : i < n) (hj : j < n) :
    GridIsometry (swapAxes i j) n := by
  have hlen : ∀ c : Coord, c.length = n → (swapAxes i j c).length = n := by
    intro c hc; simp [swapAxes, hc]
  refine GridIsometry.of_perm (swapAxes i j) (swapAxes i j) n hlen hlen ?_ ?_
  · intro c hc
    rw [swapAxes_eq i j c (by omega) (by omega), swapAxes_eq i j _ (by simp; omega) (by simp; omega)]
    apply List.ext_getElem (by simp)
    intro k h1 h2
    simp only [List.getElem_set]
    grind
  · intro a b ha hb
    rw [swapAxes_eq i j a (by omega) (by omega), swapAxes_eq i j b (by omega) (by omega),
      absDiffs_set, absDiffs_set]
    have hli : i < (absDiffs a b).length := by rw [length_absDiffs]; omega
    have hlj : j < (absDiffs a b).length := by rw [length_absDiffs]; omega
    rw [← getElem_absDiffs a b i hli (by omega) (by omega),
      ← getElem_absDiffs a b j hlj (by omega) (by omega)]
    exact List.set_set_perm hli hlj

/-! ### borders and nearest distances under an isometry -/

theorem border_map (n : Nat) (f : Coord → Coord) (hf : GridIsometry f n) (X : List Coord)
    (hX : ∀ c ∈ X, c.length = n) : border (X.map f) = (border X).map f := by
  unfold border
  rw [List.filter_map]
  congr 1
  apply List.filter_congr
  intro c hc
  have hcl := hX c hc
  rw [Bool.eq_iff_iff]
  simp only [Function.comp_apply, List.any_eq_true, Bool.not_eq_true', List.contains_eq_mem,
    decide_eq_false_iff_not, List.mem_map, not_exists, not_and]
  constructor
  · rintro ⟨x, hx, hnot⟩
    obtain ⟨y, hy, rfl⟩ := (hf.nbr c x hcl).1 hx
    exact ⟨y, hy, fun hyX => hnot y hyX rfl⟩
  · rintro ⟨y, hy, hyX⟩
    refine ⟨f y, (hf.nbr c (f y) hcl).2 ⟨y, hy, rfl⟩, ?_⟩
    intro z hz hzy
    have hyl : y.length = n := by rw [length_of_mem_faceNeighbours _ _ hy]; exact hcl
    have := hf.inj z y (hX z hz) hyl hzy
    exact hyX (this ▸ hz)

theorem nearestSq_map (n : Nat) (f : Coord → Coord) (hf : GridIsometry f n) (p : Coord)
    (hp : p.length = n) (B : List Coord) (hB : ∀ c ∈ B, c.length = n) :
    nearestSq (f p) (B.map f) = nearestSq p B := by
  induction B with
  | nil => rfl
  | cons b bs ih =>
    have := ih (fun c hc => hB c (List.mem_cons_of_mem _ hc))
    simp only [List.map_cons, nearestSq, this, hf.dist p b hp (hB b (by simp))]

theorem surfaceSqDists_map (n : Nat) (f : Coord → Coord) (hf : GridIsometry f n)
    (R P : List Coord) (hR : ∀ c ∈ R, c.length = n) (hP : ∀ c ∈ P, c.length = n) :
    surfaceSqDists (R.map f) (P.map f) = surfaceSqDists R P := by
  unfold surfaceSqDists
  simp only [border_map n f hf R hR, border_map n f hf P hP, List.filterMap_map]
  apply filterMap_congr'
  intro p hp
  exact nearestSq_map n f hf p (hP p (border_subset P p hp)) (border R)
    (fun c hc => hR c (border_subset R c hc))

/-- the directed list is the map of `nearestSq` when the reference border is not empty -/
theorem surfaceSqDists_spec' (R P : List Coord) (hR : border R ≠ []) :
    (surfaceSqDists R P).length = (border P).length ∧
    ∀ i (h : i < (border P).length) (h' : i < (surfaceSqDists R P).length),
      nearestSq ((border P)[i]) (border R) = some ((surfaceSqDists R P)[i]) := by
  have hsome : ∀ p, nearestSq p (border R) = some ((nearestSq p (border R)).getD 0) := by
    intro p
    obtain ⟨b, -, hb, -⟩ := nearestSq_spec' p (border R) hR
    rw [hb]; rfl
  have heq : surfaceSqDists R P = (border P).map (fun p => (nearestSq p (border R)).getD 0) := by
    unfold surfaceSqDists
    rw [← List.filterMap_eq_map]
    apply filterMap_congr'
    intro p _
    exact hsome p
  refine ⟨by rw [heq, List.length_map], ?_⟩
  intro i h h'
  rw [hsome]
  simp [heq]

end Panoptica
