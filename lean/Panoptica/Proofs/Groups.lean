/- helper lemmas for C12 / C01 (pipeline composition, class groups) -/
import Panoptica.Proofs.Basic
import Panoptica.Proofs.Matching
import Panoptica.Model.Pipeline
namespace Panoptica

theorem undefinedLabel_eq_none (gs : List Group) (a : Flat) :
    undefinedLabel gs a = none ↔ ∀ l ∈ labelsOf a, ∃ g ∈ gs, g.labels.contains l = true := by
  unfold undefinedLabel
  rw [List.find?_eq_none]
  constructor
  · intro h l hl
    have := h l hl
    simpa using this
  · intro h l hl
    obtain ⟨g, hg, hc⟩ := h l hl
    have : gs.any (fun g => g.labels.contains l) = true := List.any_eq_true.mpr ⟨g, hg, hc⟩
    simp only [this, Bool.not_true, Bool.false_eq_true, not_false_eq_true]

theorem undefinedLabel_eq_some (gs : List Group) (a : Flat) (l : Lab)
    (h : undefinedLabel gs a = some l) :
    l ∈ labelsOf a ∧ ∀ g ∈ gs, g.labels.contains l = false := by
  unfold undefinedLabel at h
  refine ⟨List.mem_of_find?_eq_some h, ?_⟩
  have := List.find?_some h
  intro g hg
  cases hc : g.labels.contains l with
  | false => rfl
  | true =>
    exfalso
    have : gs.any (fun g => g.labels.contains l) = true := List.any_eq_true.mpr ⟨g, hg, hc⟩
    simp_all

theorem evaluateGroups_ok_iff (cfg : Config) (bits : Nat) (gs : List Group) (pred ref : Arr) :
    (undefinedLabel gs pred.data = none ∧ undefinedLabel gs ref.data = none) →
    evaluateGroups cfg bits gs pred ref = .ok (gs.map (fun g => (g.name, evaluateGroup cfg bits g pred ref))) := by
  rintro ⟨h1, h2⟩
  unfold evaluateGroups
  rw [h1, h2]

end Panoptica
