/- helper lemmas for the end-to-end count-invariance theorem (C10 / C09) -/
import Panoptica.Proofs.Crop
import Panoptica.Proofs.Pipeline
import Panoptica.Proofs.Relabel
import Panoptica.Properties.C01
import Panoptica.Properties.C04
import Panoptica.Properties.C10
namespace Panoptica
open Panoptica.C10

/-! ### strictly sorted lists -/

/-- pigeonhole: a strictly increasing list of naturals in `[lo, B)` has at most `B - lo` elements -/
theorem sorted_length_le (B : Nat) : ∀ (l : List Nat) (lo : Nat), l.Pairwise (· < ·) →
    (∀ x ∈ l, lo ≤ x ∧ x < B) → lo ≤ B → l.length + lo ≤ B
  | [], lo, _, _, h => by simpa using h
  | a :: as, lo, hs, hb, _ => by
    have ha := List.pairwise_cons.1 hs
    have hab := hb a (List.mem_cons_self ..)
    have ih := sorted_length_le B as (a + 1) ha.2
      (fun x hx => ⟨ha.1 x hx, (hb x (List.mem_cons_of_mem _ hx)).2⟩) (by omega)
    simp only [List.length_cons]
    omega

theorem labelsOf_length_le (a : Flat) (B : Nat) (h : ∀ x ∈ a, x < B) : (labelsOf a).length ≤ B := by
  have := sorted_length_le B (labelsOf a) 0 (uniqueSorted_sorted _)
    (fun x hx => ⟨Nat.zero_le _, h x ((mem_labelsOf a x).1 hx).1⟩) (Nat.zero_le _)
  omega

/-! ### members of `fgPairs` -/

theorem mem_fgPairs (pred ref : Flat) (z : Lab × Lab) :
    z ∈ fgPairs pred ref ↔ z ∈ pred.zip ref ∧ (z.1 ≠ 0 ∨ z.2 ≠ 0) := by
  simp [fgPairs, List.mem_filter]

theorem mem_iff_zip_fst (pred ref : Flat) (hlen : pred.length = ref.length) (x : Lab) :
    x ∈ pred ↔ ∃ z ∈ pred.zip ref, z.1 = x := by
  have h : pred = (pred.zip ref).map Prod.fst := (List.map_fst_zip (by omega)).symm
  conv => lhs; rw [h]
  rw [List.mem_map]

theorem mem_iff_zip_snd (pred ref : Flat) (hlen : pred.length = ref.length) (x : Lab) :
    x ∈ ref ↔ ∃ z ∈ pred.zip ref, z.2 = x := by
  have h : ref = (pred.zip ref).map Prod.snd := (List.map_snd_zip (by omega)).symm
  conv => lhs; rw [h]
  rw [List.mem_map]

theorem mem_labelsOf_pred_fgPairs (pred ref : Flat) (hlen : pred.length = ref.length) (x : Lab) :
    x ∈ labelsOf pred ↔ (∃ z ∈ fgPairs pred ref, z.1 = x) ∧ x ≠ 0 := by
  rw [mem_labelsOf, mem_iff_zip_fst pred ref hlen]
  constructor
  · rintro ⟨⟨z, hz, rfl⟩, h0⟩
    exact ⟨⟨z, (mem_fgPairs pred ref z).2 ⟨hz, Or.inl h0⟩, rfl⟩, h0⟩
  · rintro ⟨⟨z, hz, rfl⟩, h0⟩
    exact ⟨⟨z, ((mem_fgPairs pred ref z).1 hz).1, rfl⟩, h0⟩

theorem mem_labelsOf_ref_fgPairs (pred ref : Flat) (hlen : pred.length = ref.length) (x : Lab) :
    x ∈ labelsOf ref ↔ (∃ z ∈ fgPairs pred ref, z.2 = x) ∧ x ≠ 0 := by
  rw [mem_labelsOf, mem_iff_zip_snd pred ref hlen]
  constructor
  · rintro ⟨⟨z, hz, rfl⟩, h0⟩
    exact ⟨⟨z, (mem_fgPairs pred ref z).2 ⟨hz, Or.inr h0⟩, rfl⟩, h0⟩
  · rintro ⟨⟨z, hz, rfl⟩, h0⟩
    exact ⟨⟨z, ((mem_fgPairs pred ref z).1 hz).1, rfl⟩, h0⟩

/-- (1) the label lists are determined by the foreground pairs -/
theorem labelsOf_fgPairs_aux (pred ref pred' ref' : Flat) (hlen : pred.length = ref.length)
    (hlen' : pred'.length = ref'.length) (hperm : (fgPairs pred ref).Perm (fgPairs pred' ref')) :
    labelsOf pred = labelsOf pred' ∧ labelsOf ref = labelsOf ref' := by
  constructor
  · apply sorted_ext (labelsOf pred) (labelsOf pred') (uniqueSorted_sorted _) (uniqueSorted_sorted _)
    intro x
    rw [mem_labelsOf_pred_fgPairs pred ref hlen, mem_labelsOf_pred_fgPairs pred' ref' hlen']
    constructor
    · rintro ⟨⟨z, hz, e⟩, h0⟩
      exact ⟨⟨z, hperm.mem_iff.1 hz, e⟩, h0⟩
    · rintro ⟨⟨z, hz, e⟩, h0⟩
      exact ⟨⟨z, hperm.mem_iff.2 hz, e⟩, h0⟩
  · apply sorted_ext (labelsOf ref) (labelsOf ref') (uniqueSorted_sorted _) (uniqueSorted_sorted _)
    intro x
    rw [mem_labelsOf_ref_fgPairs pred ref hlen, mem_labelsOf_ref_fgPairs pred' ref' hlen']
    constructor
    · rintro ⟨⟨z, hz, e⟩, h0⟩
      exact ⟨⟨z, hperm.mem_iff.1 hz, e⟩, h0⟩
    · rintro ⟨⟨z, hz, e⟩, h0⟩
      exact ⟨⟨z, hperm.mem_iff.2 hz, e⟩, h0⟩

/-! ### (2) candidate discovery -/

/-- the codes above `maxRef` come exactly from the foreground pairs -/
theorem mem_codes_fgPairs (M m : Nat) (pred ref : Flat) (c : Nat) :
    c ∈ (uniqueSorted (encodeArr M m pred ref)).filter (fun i => i > m) ↔
      (∃ z ∈ fgPairs pred ref, z.2 ≠ 0 ∧ ((z.1 % M) * m + z.2) % M = c) ∧ c > m := by
  rw [List.mem_filter, mem_uniqueSorted, encodeArr_eq, List.mem_map]
  simp only [decide_eq_true_eq]
  constructor
  · rintro ⟨⟨z, hz, hc⟩, hgt⟩
    refine ⟨⟨z, ?_⟩, hgt⟩
    by_cases h0 : z.2 = 0
    · simp only [h0, beq_self_eq_true, if_true] at hc
      omega
    · have hb : (z.2 == 0) = false := by simpa using h0
      simp only [hb, Bool.false_eq_true, if_false] at hc
      exact ⟨(mem_fgPairs pred ref z).2 ⟨hz, Or.inr h0⟩, h0, hc⟩
  · rintro ⟨⟨z, hz, h0, hc⟩, hgt⟩
    refine ⟨⟨z, ((mem_fgPairs pred ref z).1 hz).1, ?_⟩, hgt⟩
    have hb : (z.2 == 0) = false := by simpa using h0
    simp only [hb, Bool.false_eq_true, if_false]
    exact hc

theorem overlapPairs_fgPairs_aux (pred ref pred' ref' : Flat) (hlen : pred.length = ref.length)
    (hlen' : pred'.length = ref'.length) (hperm : (fgPairs pred ref).Perm (fgPairs pred' ref')) :
    overlapPairs pred ref (labelsOf ref) = overlapPairs pred' ref' (labelsOf ref') := by
  have hl := (labelsOf_fgPairs_aux pred ref pred' ref' hlen hlen' hperm).2
  rw [← hl]
  unfold overlapPairs overlapPairsM
  simp only
  apply congrArg (List.map _)
  apply sorted_ext _ _ ((uniqueSorted_sorted _).filter _) ((uniqueSorted_sorted _).filter _)
  intro c
  rw [mem_codes_fgPairs, mem_codes_fgPairs]
  constructor
  · rintro ⟨⟨z, hz, h⟩, hgt⟩
    exact ⟨⟨z, hperm.mem_iff.1 hz, h⟩, hgt⟩
  · rintro ⟨⟨z, hz, h⟩, hgt⟩
    exact ⟨⟨z, hperm.mem_iff.2 hz, h⟩, hgt⟩

/-! ### (3) the count-based metrics -/

open Panoptica.Spec in
theorem diceSel_counts (pred ref : Flat) (r p : Lab) :
    diceSel ref pred r [p] =
      (if (cnt ref r == 0 && cnt pred p == 0) then 0
       else (2 * (ovCount pred ref r p : Nat) : Rat) / ((cnt ref r + cnt pred p : Nat) : Rat)) := by
  simp only [diceSel, selectPair, dice, sumVals_maskVals, card_selRef, card_selPred_single,
    interCount_maskVals, cardInter_sel]

open Panoptica.Spec in
theorem rvdSel_counts (pred ref : Flat) (r p : Lab) :
    rvdSel ref pred r [p] =
      (if (cnt ref r == 0 && cnt pred p == 0) then .ok 0
       else if cnt ref r == 0 then .error "ZeroDivisionError"
       else .ok ((((cnt pred p : Int) - (cnt ref r : Int) : Int) : Rat) / ((cnt ref r : Nat) : Rat))) := by
  simp only [rvdSel, selectPair, rvd, sumVals_maskVals, card_selRef, card_selPred_single]

theorem metricOn_fgPairs_aux (m : Metric) (hm : m = .IOU ∨ m = .DSC ∨ m = .RVD) (s s' : List Nat)
    (pred ref pred' ref' : Flat)
    (hlen : pred.length = ref.length) (hlen' : pred'.length = ref'.length)
    (hperm : (fgPairs pred ref).Perm (fgPairs pred' ref')) (r p : Lab) (hr : r ≠ 0) (hp : p ≠ 0) :
    metricOn m ⟨s, pred⟩ ⟨s, ref⟩ r [p] = metricOn m ⟨s', pred'⟩ ⟨s', ref'⟩ r [p] := by
  obtain ⟨h1, h2, h3⟩ := counts_invariant pred ref pred' ref' hlen hlen' hperm r p (Or.inl hr)
  have h2 := h2 hp
  have h3 := h3 hr
  rcases hm with rfl | rfl | rfl
  · simp only [metricOn]
    rw [iouSel_counts pred ref hlen r p hr hp, iouSel_counts pred' ref' hlen' r p hr hp, h1, h2, h3]
  · simp only [metricOn]
    rw [diceSel_counts, diceSel_counts, h1, h2, h3]
  · simp only [metricOn]
    rw [rvdSel_counts, rvdSel_counts, h2, h3]

/-! ### (4) the evaluation phase -/

/-- what the pipeline reports, as a tuple (the relabelled array is an intermediate) -/
def reportTuple (o : PipeOut) : Nat × Nat × Nat × List (Metric × List Score) × Option LMap :=
  (o.nRef, o.nPred, o.tp, o.lists, o.lmap)

theorem evalPhase_fgPairs (cfg : Config) (hmet : ∀ m ∈ cfg.evalMetrics, m = .IOU ∨ m = .DSC ∨ m = .RVD)
    (s s' : List Nat) (pred ref pred' ref' : Flat)
    (hlen : pred.length = ref.length) (hlen' : pred'.length = ref'.length)
    (hperm : (fgPairs pred ref).Perm (fgPairs pred' ref')) (lm : Option LMap) (mp mp' : Option Flat) :
    (evalPhase cfg ⟨s, pred⟩ ⟨s, ref⟩ lm mp).map reportTuple =
      (evalPhase cfg ⟨s', pred'⟩ ⟨s', ref'⟩ lm mp').map reportTuple := by
  obtain ⟨hlp, hlr⟩ := labelsOf_fgPairs_aux pred ref pred' ref' hlen hlen' hperm
  by_cases h0 : labelsOf pred = [] ∨ labelsOf ref = []
  · have h0' : labelsOf pred' = [] ∨ labelsOf ref' = [] := by rw [← hlp, ← hlr]; exact h0
    rw [evalPhase_of_zero cfg ⟨s, pred⟩ ⟨s, ref⟩ lm mp h0,
      evalPhase_of_zero cfg ⟨s', pred'⟩ ⟨s', ref'⟩ lm mp' h0']
    simp only [Except.map, reportTuple, hlp, hlr]
  · have hp : labelsOf pred ≠ [] := fun h => h0 (Or.inl h)
    have hr : labelsOf ref ≠ [] := fun h => h0 (Or.inr h)
    have hp' : labelsOf pred' ≠ [] := by rw [← hlp]; exact hp
    have hr' : labelsOf ref' ≠ [] := by rw [← hlr]; exact hr
    rw [evalPhase_of_nonzero cfg ⟨s, pred⟩ ⟨s, ref⟩ lm mp hp hr,
      evalPhase_of_nonzero cfg ⟨s', pred'⟩ ⟨s', ref'⟩ lm mp' hp' hr']
    have hd : (matchedInstances pred ref).map (evaluateInstance cfg.evalMetrics ⟨s, pred⟩ ⟨s, ref⟩) =
        (matchedInstances pred' ref').map (evaluateInstance cfg.evalMetrics ⟨s', pred'⟩ ⟨s', ref'⟩) := by
      have hmi : matchedInstances pred' ref' = matchedInstances pred ref := by
        unfold matchedInstances; rw [hlp, hlr]
      rw [hmi]
      apply List.map_congr_left
      intro l hl
      have hl0 : l ≠ 0 := by
        unfold matchedInstances at hl
        exact ((mem_labelsOf pred l).1 (List.mem_filter.1 hl).1).2
      unfold evaluateInstance
      apply List.map_congr_left
      intro m hm
      rw [metricOn_fgPairs_aux m (hmet m hm) s s' pred ref pred' ref' hlen hlen' hperm l l hl0 hl0]
    simp only [Except.map, reportTuple, hlp, hlr, hd]

/-! ### (5) unmatched input -/

theorem lt32_of_lt (x : Nat) (h : x < 2 ^ 32 - 1) : x < 2 ^ 32 := by omega
theorem lt64_of_lt (x : Nat) (h : x < 2 ^ 32 - 1) : x < 2 ^ 64 := by omega

theorem fgPairs_map_left (f : Lab → Lab) (pred ref : Flat) (hf : ∀ x ∈ pred, (f x = 0 ↔ x = 0)) :
    fgPairs (pred.map f) ref = (fgPairs pred ref).map (fun z => (f z.1, z.2)) := by
  unfold fgPairs
  rw [List.zip_map_left, List.filter_map]
  have hfun : (Prod.map f id : Lab × Lab → Lab × Lab) = (fun z => (f z.1, z.2)) := by
    funext z; rfl
  rw [hfun]
  apply congrArg (List.map _)
  apply List.filter_congr
  intro z hz
  have hz1 : z.1 ∈ pred := (List.of_mem_zip (a := z.1) (b := z.2) hz).1
  have := hf z.1 hz1
  have e : (f z.1 != 0) = (z.1 != 0) := by
    rw [Bool.eq_iff_iff]
    simp only [bne_iff_ne, ne_eq]
    exact not_congr this
  simp only [Function.comp_apply, e]

theorem scoredCands_fgPairs (m : Metric) (hm : m = .IOU ∨ m = .DSC) (s s' : List Nat)
    (pred ref pred' ref' : Flat)
    (hlen : pred.length = ref.length) (hlen' : pred'.length = ref'.length)
    (hbp : ∀ x ∈ pred, x < 2 ^ 32) (hbr : ∀ x ∈ ref, x < 2 ^ 32 - 1)
    (hperm : (fgPairs pred ref).Perm (fgPairs pred' ref')) :
    scoredCands m ⟨s, pred⟩ ⟨s, ref⟩ = scoredCands m ⟨s', pred'⟩ ⟨s', ref'⟩ := by
  unfold scoredCands
  simp only
  rw [← overlapPairs_fgPairs_aux pred ref pred' ref' hlen hlen' hperm]
  apply List.map_congr_left
  rintro ⟨r, p⟩ h
  obtain ⟨hr0, hp0, _⟩ := (C09.overlapPairs_spec pred ref hlen hbp hbr r p).1 h
  have hm' : m = .IOU ∨ m = .DSC ∨ m = .RVD := by
    rcases hm with h | h
    · exact Or.inl h
    · exact Or.inr (Or.inl h)
  simp only
  rw [metricOn_fgPairs_aux m hm' s s' pred ref pred' ref' hlen hlen' hperm r p hr0 hp0]

/-- every entry of the label map is a pair of overlapping non-zero labels of the two arrays -/
theorem naive_lmap_entries (metric : Metric) (thr : Score) (m2o : Bool) (pred ref : Arr)
    (hlen : pred.data.length = ref.data.length)
    (hbp : ∀ x ∈ pred.data, x < 2 ^ 32) (hbr : ∀ x ∈ ref.data, x < 2 ^ 32 - 1) :
    ∀ e ∈ naiveLoop Score.le metric.decreasing thr m2o
        (sortBest Score.le metric.decreasing (scoredCands metric pred ref)),
      e.1 ≠ 0 ∧ e.2 ≠ 0 ∧ e.1 ∈ pred.data ∧ e.2 ∈ ref.data := by
  intro e he
  obtain ⟨c, hc, h1, h2, _⟩ := C03.sound Score.le metric.decreasing thr m2o _ e he
  have hc' : c ∈ scoredCands metric pred ref := by
    unfold sortBest at hc
    exact List.mem_mergeSort.1 hc
  obtain ⟨hr0, hp0, hov⟩ := (C01.scoredCands_spec metric pred ref hlen hbp hbr c.ref c.pred).1
    ⟨c, hc', rfl, rfl⟩
  have hz := List.of_mem_zip ((overlaps_iff pred.data ref.data c.ref c.pred).1 hov)
  rw [h1, h2] at hz
  rw [h1] at hp0
  rw [h2] at hr0
  exact ⟨hp0, hr0, hz.1, hz.2⟩

theorem pipeline_unmatched_zero (cfg : Config) (bits : Nat) (pred ref : Arr) (hin : cfg.input = .UNMATCHED)
    (h0 : labelsOf pred.data = [] ∨ labelsOf ref.data = []) :
    pipeline cfg bits pred ref =
      .ok { nRef := (labelsOf ref.data).length, nPred := (labelsOf pred.data).length, tp := 0,
            lists := cfg.evalMetrics.map (fun m => (m, [])), matchedPred := none, lmap := none } := by
  unfold pipeline
  rw [hin]
  show matchPhase cfg bits pred ref _ _ = _
  unfold matchPhase
  have : ((labelsOf pred.data).length == 0 || (labelsOf ref.data).length == 0) = true := by
    rcases h0 with h | h <;> simp [h]
  simp only [this, if_true]

theorem pipeline_unmatched_nomatcher (cfg : Config) (bits : Nat) (pred ref : Arr) (hin : cfg.input = .UNMATCHED)
    (hm : cfg.matcher = none) (hp : labelsOf pred.data ≠ []) (hr : labelsOf ref.data ≠ []) :
    pipeline cfg bits pred ref =
      .error "AssertionError: Got UnmatchedInstancePair but not InstanceMatchingAlgorithm" := by
  unfold pipeline
  rw [hin]
  show matchPhase cfg bits pred ref _ _ = _
  unfold matchPhase
  have : ((labelsOf pred.data).length == 0 || (labelsOf ref.data).length == 0) = false := by
    cases h1 : labelsOf pred.data with
    | nil => exact absurd h1 hp
    | cons _ _ =>
      cases h2 : labelsOf ref.data with
      | nil => exact absurd h2 hr
      | cons _ _ => simp
  simp only [this, hm]
  rfl

theorem pipeline_unmatched_fgPairs (cfg : Config) (hin : cfg.input = .UNMATCHED)
    (hmet : ∀ m ∈ cfg.evalMetrics, m = .IOU ∨ m = .DSC ∨ m = .RVD)
    (hmat : ∀ mc, cfg.matcher = some mc →
      (∃ m2o, mc.kind = .naive m2o) ∧ (mc.metric = .IOU ∨ mc.metric = .DSC))
    (bits : Nat) (s s' : List Nat) (pred ref pred' ref' : Flat)
    (hlen : pred.length = ref.length) (hlen' : pred'.length = ref'.length)
    (hb : ∀ x ∈ pred ++ ref ++ pred' ++ ref', x < 2 ^ 32 - 1)
    (hperm : (fgPairs pred ref).Perm (fgPairs pred' ref')) :
    (pipeline cfg bits ⟨s, pred⟩ ⟨s, ref⟩).map reportTuple =
      (pipeline cfg bits ⟨s', pred'⟩ ⟨s', ref'⟩).map reportTuple := by
  obtain ⟨hlp, hlr⟩ := labelsOf_fgPairs_aux pred ref pred' ref' hlen hlen' hperm
  have hbp : ∀ x ∈ pred, x < 2 ^ 32 - 1 := fun x hx => hb x (by simp [hx])
  have hbr : ∀ x ∈ ref, x < 2 ^ 32 - 1 := fun x hx => hb x (by simp [hx])
  have hbp' : ∀ x ∈ pred', x < 2 ^ 32 - 1 := fun x hx => hb x (by simp [hx])
  have hbr' : ∀ x ∈ ref', x < 2 ^ 32 - 1 := fun x hx => hb x (by simp [hx])
  by_cases h0 : labelsOf pred = [] ∨ labelsOf ref = []
  · have h0' : labelsOf pred' = [] ∨ labelsOf ref' = [] := by rw [← hlp, ← hlr]; exact h0
    rw [pipeline_unmatched_zero cfg bits ⟨s, pred⟩ ⟨s, ref⟩ hin h0,
      pipeline_unmatched_zero cfg bits ⟨s', pred'⟩ ⟨s', ref'⟩ hin h0']
    simp only [Except.map, reportTuple, hlp, hlr]
  · have hp : labelsOf pred ≠ [] := fun h => h0 (Or.inl h)
    have hr : labelsOf ref ≠ [] := fun h => h0 (Or.inr h)
    have hp' : labelsOf pred' ≠ [] := by rw [← hlp]; exact hp
    have hr' : labelsOf ref' ≠ [] := by rw [← hlr]; exact hr
    cases hmc : cfg.matcher with
    | none =>
      rw [pipeline_unmatched_nomatcher cfg bits ⟨s, pred⟩ ⟨s, ref⟩ hin hmc hp hr,
        pipeline_unmatched_nomatcher cfg bits ⟨s', pred'⟩ ⟨s', ref'⟩ hin hmc hp' hr']
    | some mc =>
      obtain ⟨⟨m2o, hk⟩, hmm⟩ := hmat mc hmc
      obtain ⟨kind, metric, thr⟩ := mc
      simp only at hk hmm
      subst hk
      have e1 := C01.pipeline_unmatched_naive cfg bits ⟨s, pred⟩ ⟨s, ref⟩ metric thr m2o hin hmc hp hr
      have e2 := C01.pipeline_unmatched_naive cfg bits ⟨s', pred'⟩ ⟨s', ref'⟩ metric thr m2o hin hmc hp' hr'
      simp only at e1 e2
      rw [e1, e2, ← scoredCands_fgPairs metric hmm s s' pred ref pred' ref' hlen hlen'
        (fun x hx => lt32_of_lt x (hbp x hx)) hbr hperm, ← hlp, ← hlr]
      have hent := naive_lmap_entries metric thr m2o ⟨s, pred⟩ ⟨s, ref⟩ hlen
        (fun x hx => lt32_of_lt x (hbp x hx)) hbr
      generalize naiveLoop Score.le metric.decreasing thr m2o
        (sortBest Score.le metric.decreasing (scoredCands metric ⟨s, pred⟩ ⟨s, ref⟩)) = lm at hent
      simp only at hent
      have hmax := maxRef_bound ref hbr
      have hlenL := labelsOf_length_le pred (2 ^ 32) (fun x hx => lt32_of_lt x (hbp x hx))
      have hB : ∀ (a : Flat), (∀ x ∈ a, x < 2 ^ 32 - 1) →
          C04.Bounded a lm (labelsOf ref) (labelsOf pred) := by
        intro a ha
        refine ⟨?_, ?_, ?_, ?_⟩
        · intro x hx
          exact lt64_of_lt x (ha x hx)
        · intro e he
          obtain ⟨_, _, h1, h2⟩ := hent e he
          exact ⟨lt64_of_lt _ (hbp _ h1), lt64_of_lt _ (hbr _ h2)⟩
        · intro q hq
          exact lt64_of_lt q (hbp q ((mem_labelsOf pred q).1 hq).1)
        · omega
      rw [C04.relabel_pointwise bits pred lm _ _ (hB pred hbp),
        C04.relabel_pointwise bits pred' lm _ _ (hB pred' hbp')]
      have hf0 : C04.relabelFn lm (labelsOf ref) (labelsOf pred) 0 = 0 :=
        C04.background_kept lm _ _ (fun e he => (hent e he).1)
          (fun q hq => ((mem_labelsOf pred q).1 hq).2)
      have hfne : ∀ q ∈ labelsOf pred, C04.relabelFn lm (labelsOf ref) (labelsOf pred) q ≠ 0 :=
        fun q hq => C04.foreground_kept lm _ _ (fun e he => (hent e he).2.1) q hq
      apply evalPhase_fgPairs cfg hmet s s' _ ref _ ref' (by simp [hlen]) (by simp [hlen'])
      rw [fgPairs_map_left, fgPairs_map_left]
      · exact hperm.map _
      · intro x hx
        constructor
        · intro hfx
          refine Classical.byContradiction fun hx0 => ?_
          exact hfne x (by rw [hlp]; exact (mem_labelsOf pred' x).2 ⟨hx, hx0⟩) hfx
        · intro hx0
          rw [hx0]; exact hf0
      · intro x hx
        constructor
        · intro hfx
          refine Classical.byContradiction fun hx0 => ?_
          exact hfne x ((mem_labelsOf pred x).2 ⟨hx, hx0⟩) hfx
        · intro hx0
          rw [hx0]; exact hf0

end Panoptica
