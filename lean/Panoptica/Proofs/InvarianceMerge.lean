/- helper lemmas for Properties/C10PipelineMerge.lean (count invariance, merge matcher) -/
import Panoptica.Proofs.Invariance
import Panoptica.Proofs.RelabelMerge
namespace Panoptica
namespace InvarianceMerge
open Panoptica.C10 Panoptica.Spec

/-! ### counts of a union of prediction instances over the zipped label pairs -/

theorem card_selPred_zip (pred ref : Flat) (hlen : pred.length = ref.length) (ps : List Lab) :
    card (selPred pred ps) = ((pred.zip ref).filter (fun z => ps.contains z.1)).length := by
  induction pred generalizing ref with
  | nil => simp [card, selPred]
  | cons x xs ih =>
    cases ref with
    | nil => simp at hlen
    | cons y ys =>
      have ih' := ih ys (by simpa using hlen)
      simp only [card, selPred] at ih' ⊢
      simp only [List.map_cons, List.count_cons, List.zip_cons_cons, List.filter_cons, ih']
      cases h : ps.contains x <;> simp

theorem cardInter_selPred_zip (pred ref : Flat) (r : Lab) (ps : List Lab) :
    cardInter (selRef ref r) (selPred pred ps) =
      ((pred.zip ref).filter (fun z => ps.contains z.1 && z.2 == r)).length := by
  induction pred generalizing ref with
  | nil => cases ref <;> simp [cardInter, selRef, selPred]
  | cons x xs ih =>
    cases ref with
    | nil => simp [cardInter, selRef, selPred]
    | cons y ys =>
      have ih' := ih ys
      simp only [cardInter, selRef, selPred] at ih' ⊢
      simp only [List.map_cons, List.zipWith_cons_cons, List.count_cons, List.zip_cons_cons,
        List.filter_cons, ih']
      cases h : ps.contains x <;> by_cases h' : y = r <;> simp [h']

theorem card_selPred_fgPairs (pred ref : Flat) (hlen : pred.length = ref.length) (ps : List Lab)
    (hps : ∀ p ∈ ps, p ≠ 0) :
    card (selPred pred ps) = ((fgPairs pred ref).filter (fun z => ps.contains z.1)).length := by
  rw [card_selPred_zip pred ref hlen, fgPairs, List.filter_filter]
  congr 1
  apply List.filter_congr
  intro z _
  cases h : ps.contains z.1
  · simp
  · have hz : z.1 ≠ 0 := hps _ (List.contains_iff_mem.1 h)
    simp [hz]

theorem cardInter_selPred_fgPairs (pred ref : Flat) (r : Lab) (ps : List Lab) (hr : r ≠ 0) :
    cardInter (selRef ref r) (selPred pred ps) =
      ((fgPairs pred ref).filter (fun z => ps.contains z.1 && z.2 == r)).length := by
  rw [cardInter_selPred_zip, fgPairs, List.filter_filter]
  congr 1
  apply List.filter_congr
  intro z _
  by_cases h2 : z.2 = r
  · have : z.2 ≠ 0 := by rw [h2]; exact hr
    simp [h2, hr]
  · simp [h2]

/-- the three voxel counts behind IoU / Dice / RVD of `r` against the union of `ps` -/
theorem selCounts_fgPairs (pred ref pred' ref' : Flat)
    (hlen : pred.length = ref.length) (hlen' : pred'.length = ref'.length)
    (hperm : (fgPairs pred ref).Perm (fgPairs pred' ref')) (r : Lab) (ps : List Lab)
    (hr : r ≠ 0) (hps : ∀ p ∈ ps, p ≠ 0) :
    card (selRef ref r) = card (selRef ref' r) ∧
    card (selPred pred ps) = card (selPred pred' ps) ∧
    cardInter (selRef ref r) (selPred pred ps) = cardInter (selRef ref' r) (selPred pred' ps) ∧
    cardUnion (selRef ref r) (selPred pred ps) = cardUnion (selRef ref' r) (selPred pred' ps) := by
  have h1 : card (selRef ref r) = card (selRef ref' r) := by
    rw [card_selRef, card_selRef, (cnt_fgPairs pred ref hlen r hr).2, (cnt_fgPairs pred' ref' hlen' r hr).2]
    exact (hperm.filter _).length_eq
  have h2 : card (selPred pred ps) = card (selPred pred' ps) := by
    rw [card_selPred_fgPairs pred ref hlen ps hps, card_selPred_fgPairs pred' ref' hlen' ps hps]
    exact (hperm.filter _).length_eq
  have h3 : cardInter (selRef ref r) (selPred pred ps) = cardInter (selRef ref' r) (selPred pred' ps) := by
    rw [cardInter_selPred_fgPairs pred ref r ps hr, cardInter_selPred_fgPairs pred' ref' r ps hr]
    exact (hperm.filter _).length_eq
  refine ⟨h1, h2, h3, ?_⟩
  have e := card_incl_excl (selRef ref r) (selPred pred ps) (by simp [selRef, selPred, hlen])
  have e' := card_incl_excl (selRef ref' r) (selPred pred' ps) (by simp [selRef, selPred, hlen'])
  omega

theorem metricOn_fgPairs_list_aux (m : Metric) (hm : m = .IOU ∨ m = .DSC ∨ m = .RVD) (s s' : List Nat)
    (pred ref pred' ref' : Flat)
    (hlen : pred.length = ref.length) (hlen' : pred'.length = ref'.length)
    (hperm : (fgPairs pred ref).Perm (fgPairs pred' ref')) (r : Lab) (ps : List Lab)
    (hr : r ≠ 0) (hps : ∀ p ∈ ps, p ≠ 0) :
    metricOn m ⟨s, pred⟩ ⟨s, ref⟩ r ps = metricOn m ⟨s', pred'⟩ ⟨s', ref'⟩ r ps := by
  obtain ⟨h1, h2, h3, h4⟩ := selCounts_fgPairs pred ref pred' ref' hlen hlen' hperm r ps hr hps
  rcases hm with rfl | rfl | rfl
  · simp only [metricOn, iouSel, selectPair, iou, interCount_maskVals, unionCount_maskVals, h3, h4]
  · simp only [metricOn, diceSel, selectPair, dice, sumVals_maskVals, interCount_maskVals, h1, h2, h3]
  · simp only [metricOn, rvdSel, selectPair, rvd, sumVals_maskVals, h1, h2]

/-! ### the merge loop only asks for combined scores of non-background labels -/

section loop
variable {S : Type} (le : S → S → Bool) (dec : Bool) (thr : S) (comb comb' : Lab → List Lab → S)
  (P Q : Lab → Prop)

theorem mergeStep_congr (st : MergeState S) (c : Cand S)
    (h : comb c.ref (st.lmap.predsOf c.ref ++ [c.pred]) = comb' c.ref (st.lmap.predsOf c.ref ++ [c.pred])) :
    mergeStep le dec thr comb st c = mergeStep le dec thr comb' st c := by
  unfold mergeStep
  rw [h]

theorem fold_congr
    (hcomb : ∀ r ps, Q r → (∀ p ∈ ps, P p) → comb r ps = comb' r ps)
    (cs : List (Cand S)) (hcs : ∀ c ∈ cs, P c.pred ∧ Q c.ref)
    (st : MergeState S) (hinv : RelabelMerge.StInv P Q st) :
    cs.foldl (mergeStep le dec thr comb) st = cs.foldl (mergeStep le dec thr comb') st ∧
      RelabelMerge.StInv P Q (cs.foldl (mergeStep le dec thr comb) st) := by
  induction cs generalizing st with
  | nil => exact ⟨rfl, hinv⟩
  | cons c cs ih =>
    have hc := hcs c (List.mem_cons_self ..)
    have hstep : mergeStep le dec thr comb st c = mergeStep le dec thr comb' st c := by
      apply mergeStep_congr
      apply hcomb _ _ hc.2
      intro p hp
      rcases List.mem_append.1 hp with hp | hp
      · unfold LMap.predsOf at hp
        obtain ⟨e, he, rfl⟩ := List.mem_map.1 hp
        exact (hinv.lm e (List.mem_filter.1 he).1).1
      · rw [List.mem_singleton] at hp
        rw [hp]; exact hc.1
    rw [List.foldl_cons, List.foldl_cons, ← hstep]
    exact ih (fun c' hc' => hcs c' (List.mem_cons_of_mem _ hc')) _
      (RelabelMerge.StInv_step le dec thr comb P Q st c hinv hc)

theorem mergeLoop_congr
    (hcomb : ∀ r ps, Q r → (∀ p ∈ ps, P p) → comb r ps = comb' r ps)
    (cs : List (Cand S)) (hcs : ∀ c ∈ cs, P c.pred ∧ Q c.ref) :
    mergeLoop le dec thr comb cs = mergeLoop le dec thr comb' cs ∧
      ∀ e ∈ (mergeLoop le dec thr comb cs).lmap, P e.1 ∧ Q e.2 := by
  unfold mergeLoop
  have := fold_congr le dec thr comb comb' P Q hcomb cs hcs { lmap := [], scores := [] }
    ⟨fun e he => (by cases he), fun e he => (by cases he)⟩
  exact ⟨this.1, this.2.lm⟩

end loop

/-! ### unmatched input, merge matcher -/

theorem pipeline_unmatched_merge (cfg : Config) (bits : Nat) (pred ref : Arr) (mc : MatcherCfg)
    (hk : mc.kind = .merge) (hin : cfg.input = .UNMATCHED) (hm : cfg.matcher = some mc)
    (hp : labelsOf pred.data ≠ []) (hr : labelsOf ref.data ≠ []) :
    let lm := (mergeMatch Score.le mc.metric.decreasing mc.thr
      (fun r ps => metricOn mc.metric pred ref r ps) (scoredCands mc.metric pred ref)).lmap
    let newPred := mapInstanceLabels bits pred.data (labelsOf ref.data) (labelsOf pred.data) lm
    pipeline cfg bits pred ref =
      evalPhase cfg { shape := pred.shape, data := newPred } ref (some lm) (some newPred) := by
  intro lm newPred
  unfold pipeline
  rw [hin]
  show matchPhase cfg bits pred ref _ _ = _
  apply matchPhase_of_nonzero cfg bits pred ref _ _ _ lm _ hm
  · exact RelabelMerge.runMatcher_merge mc hk pred ref
  · cases h1 : labelsOf pred.data with
    | nil => exact absurd h1 hp
    | cons _ _ =>
      cases h2 : labelsOf ref.data with
      | nil => exact absurd h2 hr
      | cons _ _ => simp

/-- the relabelling step and the evaluation phase, for an arbitrary label map whose entries are
    non-zero labels of the two arrays (independent of the matcher) -/
theorem relabel_evalPhase_fgPairs (cfg : Config)
    (hmet : ∀ m ∈ cfg.evalMetrics, m = .IOU ∨ m = .DSC ∨ m = .RVD)
    (bits : Nat) (s s' : List Nat) (pred ref pred' ref' : Flat)
    (hlen : pred.length = ref.length) (hlen' : pred'.length = ref'.length)
    (hb : ∀ x ∈ pred ++ ref ++ pred' ++ ref', x < 2 ^ 32 - 1)
    (hperm : (fgPairs pred ref).Perm (fgPairs pred' ref')) (lm : LMap)
    (hent : ∀ e ∈ lm, e.1 ≠ 0 ∧ e.2 ≠ 0 ∧ e.1 ∈ pred ∧ e.2 ∈ ref) :
    (evalPhase cfg ⟨s, mapInstanceLabels bits pred (labelsOf ref) (labelsOf pred) lm⟩ ⟨s, ref⟩ (some lm)
        (some (mapInstanceLabels bits pred (labelsOf ref) (labelsOf pred) lm))).map reportTuple =
      (evalPhase cfg ⟨s', mapInstanceLabels bits pred' (labelsOf ref) (labelsOf pred) lm⟩ ⟨s', ref'⟩ (some lm)
        (some (mapInstanceLabels bits pred' (labelsOf ref) (labelsOf pred) lm))).map reportTuple := by
  obtain ⟨hlp, hlr⟩ := labelsOf_fgPairs_aux pred ref pred' ref' hlen hlen' hperm
  have hbp : ∀ x ∈ pred, x < 2 ^ 32 - 1 := fun x hx => hb x (by simp [hx])
  have hbr : ∀ x ∈ ref, x < 2 ^ 32 - 1 := fun x hx => hb x (by simp [hx])
  have hbp' : ∀ x ∈ pred', x < 2 ^ 32 - 1 := fun x hx => hb x (by simp [hx])
  have hmax := maxRef_bound ref hbr
  have hlenL := labelsOf_length_le pred (2 ^ 32) (fun x hx => lt32_of_lt x (hbp x hx))
  have hB : ∀ (a : Flat), (∀ x ∈ a, x < 2 ^ 32 - 1) →
      C04.Bounded a lm (labelsOf ref) (labelsOf pred) := by
    intro a ha
    refine ⟨?_, ?_, ?_, ?_⟩
    · intro x hx
      exact lt64_of_lt x (ha x hx)
    · intro e he
      obtain ⟨_, _, h1, h2⟩ := hent e he
      exact ⟨lt64_of_lt _ (hbp _ h1), lt64_of_lt _ (hbr _ h2)⟩
    · intro q hq
      exact lt64_of_lt q (hbp q ((mem_labelsOf pred q).1 hq).1)
    · omega
  rw [C04.relabel_pointwise bits pred lm _ _ (hB pred hbp),
    C04.relabel_pointwise bits pred' lm _ _ (hB pred' hbp')]
  have hf0 : C04.relabelFn lm (labelsOf ref) (labelsOf pred) 0 = 0 :=
    C04.background_kept lm _ _ (fun e he => (hent e he).1)
      (fun q hq => ((mem_labelsOf pred q).1 hq).2)
  have hfne : ∀ q ∈ labelsOf pred, C04.relabelFn lm (labelsOf ref) (labelsOf pred) q ≠ 0 :=
    fun q hq => C04.foreground_kept lm _ _ (fun e he => (hent e he).2.1) q hq
  apply evalPhase_fgPairs cfg hmet s s' _ ref _ ref' (by simp [hlen]) (by simp [hlen'])
  rw [fgPairs_map_left, fgPairs_map_left]
  · exact hperm.map _
  · intro x hx
    constructor
    · intro hfx
      refine Classical.byContradiction fun hx0 => ?_
      exact hfne x (by rw [hlp]; exact (mem_labelsOf pred' x).2 ⟨hx, hx0⟩) hfx
    · intro hx0
      rw [hx0]; exact hf0
  · intro x hx
    constructor
    · intro hfx
      refine Classical.byContradiction fun hx0 => ?_
      exact hfne x ((mem_labelsOf pred x).2 ⟨hx, hx0⟩) hfx
    · intro hx0
      rw [hx0]; exact hf0

theorem pipeline_unmatched_fgPairs_merge (cfg : Config) (hin : cfg.input = .UNMATCHED)
    (hmet : ∀ m ∈ cfg.evalMetrics, m = .IOU ∨ m = .DSC ∨ m = .RVD)
    (hmat : ∀ mc, cfg.matcher = some mc → mc.kind = .merge ∧ (mc.metric = .IOU ∨ mc.metric = .DSC))
    (bits : Nat) (s s' : List Nat) (pred ref pred' ref' : Flat)
    (hlen : pred.length = ref.length) (hlen' : pred'.length = ref'.length)
    (hb : ∀ x ∈ pred ++ ref ++ pred' ++ ref', x < 2 ^ 32 - 1)
    (hperm : (fgPairs pred ref).Perm (fgPairs pred' ref')) :
    (pipeline cfg bits ⟨s, pred⟩ ⟨s, ref⟩).map reportTuple =
      (pipeline cfg bits ⟨s', pred'⟩ ⟨s', ref'⟩).map reportTuple := by
  obtain ⟨hlp, hlr⟩ := labelsOf_fgPairs_aux pred ref pred' ref' hlen hlen' hperm
  have hbp : ∀ x ∈ pred, x < 2 ^ 32 - 1 := fun x hx => hb x (by simp [hx])
  have hbr : ∀ x ∈ ref, x < 2 ^ 32 - 1 := fun x hx => hb x (by simp [hx])
  by_cases h0 : labelsOf pred = [] ∨ labelsOf ref = []
  · have h0' : labelsOf pred' = [] ∨ labelsOf ref' = [] := by rw [← hlp, ← hlr]; exact h0
    rw [pipeline_unmatched_zero cfg bits ⟨s, pred⟩ ⟨s, ref⟩ hin h0,
      pipeline_unmatched_zero cfg bits ⟨s', pred'⟩ ⟨s', ref'⟩ hin h0']
    simp only [Except.map, reportTuple, hlp, hlr]
  · have hp : labelsOf pred ≠ [] := fun h => h0 (Or.inl h)
    have hr : labelsOf ref ≠ [] := fun h => h0 (Or.inr h)
    have hp' : labelsOf pred' ≠ [] := by rw [← hlp]; exact hp
    have hr' : labelsOf ref' ≠ [] := by rw [← hlr]; exact hr
    cases hmc : cfg.matcher with
    | none =>
      rw [pipeline_unmatched_nomatcher cfg bits ⟨s, pred⟩ ⟨s, ref⟩ hin hmc hp hr,
        pipeline_unmatched_nomatcher cfg bits ⟨s', pred'⟩ ⟨s', ref'⟩ hin hmc hp' hr']
    | some mc =>
      obtain ⟨hk, hmm⟩ := hmat mc hmc
      have hmm' : mc.metric = .IOU ∨ mc.metric = .DSC ∨ mc.metric = .RVD := by
        rcases hmm with h | h
        · exact Or.inl h
        · exact Or.inr (Or.inl h)
      have e1 := pipeline_unmatched_merge cfg bits ⟨s, pred⟩ ⟨s, ref⟩ mc hk hin hmc hp hr
      have e2 := pipeline_unmatched_merge cfg bits ⟨s', pred'⟩ ⟨s', ref'⟩ mc hk hin hmc hp' hr'
      simp only at e1 e2
      have hcs : ∀ c ∈ sortBest Score.le mc.metric.decreasing (scoredCands mc.metric ⟨s, pred⟩ ⟨s, ref⟩),
          (c.pred ≠ 0 ∧ c.pred ∈ pred) ∧ (c.ref ≠ 0 ∧ c.ref ∈ ref) := by
        intro c hc
        have hc' := (mem_sortBest _ _ _ c).1 hc
        obtain ⟨hr0, hp0, hov⟩ := (C01.scoredCands_spec mc.metric ⟨s, pred⟩ ⟨s, ref⟩ hlen
          (fun x hx => lt32_of_lt x (hbp x hx)) hbr c.ref c.pred).1 ⟨c, hc', rfl, rfl⟩
        have hz := List.of_mem_zip ((overlaps_iff pred ref c.ref c.pred).1 hov)
        exact ⟨⟨hp0, hz.1⟩, ⟨hr0, hz.2⟩⟩
      obtain ⟨hloop, hent⟩ := mergeLoop_congr Score.le mc.metric.decreasing mc.thr
        (fun r ps => metricOn mc.metric ⟨s, pred⟩ ⟨s, ref⟩ r ps)
        (fun r ps => metricOn mc.metric ⟨s', pred'⟩ ⟨s', ref'⟩ r ps)
        (fun p => p ≠ 0 ∧ p ∈ pred) (fun r => r ≠ 0 ∧ r ∈ ref)
        (fun r ps hr hps => metricOn_fgPairs_list_aux mc.metric hmm' s s' pred ref pred' ref' hlen hlen'
          hperm r ps hr.1 (fun p hp => (hps p hp).1))
        _ hcs
      have hlm : (mergeMatch Score.le mc.metric.decreasing mc.thr
            (fun r ps => metricOn mc.metric ⟨s', pred'⟩ ⟨s', ref'⟩ r ps)
            (scoredCands mc.metric ⟨s', pred'⟩ ⟨s', ref'⟩)) =
          (mergeMatch Score.le mc.metric.decreasing mc.thr
            (fun r ps => metricOn mc.metric ⟨s, pred⟩ ⟨s, ref⟩ r ps)
            (scoredCands mc.metric ⟨s, pred⟩ ⟨s, ref⟩)) := by
        unfold mergeMatch
        rw [← scoredCands_fgPairs mc.metric hmm s s' pred ref pred' ref' hlen hlen'
          (fun x hx => lt32_of_lt x (hbp x hx)) hbr hperm, hloop]
      rw [e1, e2, hlm, ← hlp, ← hlr]
      have hent' : ∀ e ∈ (mergeMatch Score.le mc.metric.decreasing mc.thr
            (fun r ps => metricOn mc.metric ⟨s, pred⟩ ⟨s, ref⟩ r ps)
            (scoredCands mc.metric ⟨s, pred⟩ ⟨s, ref⟩)).lmap,
          e.1 ≠ 0 ∧ e.2 ≠ 0 ∧ e.1 ∈ pred ∧ e.2 ∈ ref := by
        intro e he
        obtain ⟨⟨a, b⟩, c, d⟩ := hent e he
        exact ⟨a, c, b, d⟩
      exact relabel_evalPhase_fgPairs cfg hmet bits s s' pred ref pred' ref' hlen hlen' hb hperm _ hent'

end InvarianceMerge
end Panoptica
