/- helper lemmas for C03 / C14 (matching loops) -/
import Panoptica.Model.Matching
namespace Panoptica

variable {S : Type} (le : S → S → Bool) (dec : Bool) (thr : S) (m2o : Bool)

/-! ### LMap basics -/

theorem LMap.containsPred_iff (m : LMap) (p : Lab) :
    m.containsPred p = true ↔ ∃ e ∈ m, e.1 = p := by
  simp [LMap.containsPred, List.any_eq_true]

theorem LMap.containsRef_iff (m : LMap) (r : Lab) :
    m.containsRef r = true ↔ ∃ e ∈ m, e.2 = r := by
  simp [LMap.containsRef, List.any_eq_true]

theorem LMap.lookup_eq_none (m : LMap) (p : Lab) (h : m.containsPred p = false) :
    m.lookup p = none := by
  induction m with
  | nil => rfl
  | cons e m ih =>
    simp only [LMap.containsPred, List.any_cons, Bool.or_eq_false_iff] at h
    simp only [LMap.lookup, List.find?_cons, h.1]
    exact ih h.2

/-! ### one step -/

theorem naiveSkip_false {m : LMap} {p r : Lab} (h : ¬ naiveSkip m2o m p r = true) :
    m.containsPred p = false ∧ (m2o = false → m.containsRef r = false) := by
  simp only [naiveSkip, Bool.or_eq_true, Bool.and_eq_true, not_or, not_and,
    Bool.not_eq_true, Bool.not_eq_eq_eq_not, Bool.not_true] at h
  refine ⟨h.1, ?_⟩
  intro hm
  cases hr : m.containsRef r with
  | false => rfl
  | true => have := h.2 hr; simp [hm] at this

theorem naiveStepE_eq (m : LMap) (c : Cand S) :
    naiveStepE le dec thr m2o m c = .ok (naiveStep le dec thr m2o m c) := by
  unfold naiveStepE naiveStep
  split
  · rfl
  · rename_i hs
    split
    · unfold LMap.add
      rw [LMap.lookup_eq_none m c.pred (naiveSkip_false m2o hs).1]
    · rfl

theorem naiveFoldE_eq (cs : List (Cand S)) (m : LMap) :
    cs.foldlM (naiveStepE le dec thr m2o) m = .ok (cs.foldl (naiveStep le dec thr m2o) m) := by
  induction cs generalizing m with
  | nil => rfl
  | cons c cs ih =>
    rw [List.foldlM_cons, naiveStepE_eq, List.foldl_cons]
    exact ih _

/-- the step either keeps the map or appends the candidate's pair -/
theorem naiveStep_cases (m : LMap) (c : Cand S) :
    (naiveStep le dec thr m2o m c = m ∧
      (naiveSkip m2o m c.pred c.ref = true ∨ beats le dec c.score thr = false)) ∨
    (naiveStep le dec thr m2o m c = m ++ [(c.pred, c.ref)] ∧
      ¬ naiveSkip m2o m c.pred c.ref = true ∧ beats le dec c.score thr = true) := by
  unfold naiveStep
  split
  · rename_i h; exact .inl ⟨rfl, .inl h⟩
  · rename_i h
    split
    · rename_i hb; exact .inr ⟨rfl, h, hb⟩
    · rename_i hb; exact .inl ⟨rfl, .inr (by simpa using hb)⟩

theorem naiveStep_prefix (m : LMap) (c : Cand S) : m <+: naiveStep le dec thr m2o m c := by
  rcases naiveStep_cases le dec thr m2o m c with ⟨h, _⟩ | ⟨h, _⟩ <;> rw [h]
  · exact List.prefix_refl _
  · exact List.prefix_append _ _

theorem naiveFold_prefix (cs : List (Cand S)) (m : LMap) :
    m <+: cs.foldl (naiveStep le dec thr m2o) m := by
  induction cs generalizing m with
  | nil => exact List.prefix_refl _
  | cons c cs ih =>
    exact List.IsPrefix.trans (naiveStep_prefix le dec thr m2o m c) (ih _)

/-- nothing eligible: the fold changes nothing -/
theorem naiveFold_none (cs : List (Cand S)) (m : LMap)
    (h : ∀ c ∈ cs, beats le dec c.score thr = false) :
    cs.foldl (naiveStep le dec thr m2o) m = m := by
  induction cs generalizing m with
  | nil => rfl
  | cons c cs ih =>
    have hc : naiveStep le dec thr m2o m c = m := by
      rcases naiveStep_cases le dec thr m2o m c with ⟨h', _⟩ | ⟨_, _, hb⟩
      · exact h'
      · rw [h c (List.mem_cons_self ..)] at hb; cases hb
    rw [List.foldl_cons, hc]
    exact ih m (fun c' hc' => h c' (List.mem_cons_of_mem _ hc'))

/-! ### invariants of the fold -/

theorem naiveFold_functional (cs : List (Cand S)) (m : LMap) (hm : (m.map (·.1)).Nodup) :
    ((cs.foldl (naiveStep le dec thr m2o) m).map (·.1)).Nodup := by
  induction cs generalizing m with
  | nil => exact hm
  | cons c cs ih =>
    apply ih
    rcases naiveStep_cases le dec thr m2o m c with ⟨h, _⟩ | ⟨h, hs, _⟩ <;> rw [h]
    · exact hm
    · have hp := (naiveSkip_false m2o hs).1
      rw [List.map_append, List.nodup_append]
      refine ⟨hm, by simp, ?_⟩
      intro a ha b hb
      simp only [List.map_cons, List.map_nil, List.mem_singleton] at hb
      subst hb
      intro hab
      subst hab
      rw [List.mem_map] at ha
      have : m.containsPred c.pred = true := (LMap.containsPred_iff m c.pred).2 ha
      rw [hp] at this; cases this

theorem naiveFold_injective (cs : List (Cand S)) (m : LMap) (hm : (m.map (·.2)).Nodup) :
    ((cs.foldl (naiveStep le dec thr false) m).map (·.2)).Nodup := by
  induction cs generalizing m with
  | nil => exact hm
  | cons c cs ih =>
    apply ih
    rcases naiveStep_cases le dec thr false m c with ⟨h, _⟩ | ⟨h, hs, _⟩ <;> rw [h]
    · exact hm
    · have hp := (naiveSkip_false false hs).2 rfl
      rw [List.map_append, List.nodup_append]
      refine ⟨hm, by simp, ?_⟩
      intro a ha b hb
      simp only [List.map_cons, List.map_nil, List.mem_singleton] at hb
      subst hb
      intro hab
      subst hab
      rw [List.mem_map] at ha
      have : m.containsRef c.ref = true := (LMap.containsRef_iff m c.ref).2 ha
      rw [hp] at this; cases this

theorem naiveFold_sound (cs : List (Cand S)) (m : LMap) :
    ∀ e ∈ cs.foldl (naiveStep le dec thr m2o) m, e ∈ m ∨
      ∃ c ∈ cs, c.pred = e.1 ∧ c.ref = e.2 ∧ beats le dec c.score thr = true := by
  induction cs generalizing m with
  | nil => intro e he; exact .inl he
  | cons c cs ih =>
    intro e he
    rw [List.foldl_cons] at he
    rcases ih _ e he with h | ⟨c', hc', h⟩
    · rcases naiveStep_cases le dec thr m2o m c with ⟨h', _⟩ | ⟨h', _, hb⟩ <;> rw [h'] at h
      · exact .inl h
      · rw [List.mem_append, List.mem_singleton] at h
        rcases h with h | h
        · exact .inl h
        · subst h
          exact .inr ⟨c, List.mem_cons_self .., rfl, rfl, hb⟩
    · exact .inr ⟨c', List.mem_cons_of_mem _ hc', h⟩

/-- the "covered" predicate of `maximal` -/
def covered (m2o : Bool) (m : LMap) (c : Cand S) : Prop :=
  m.containsPred c.pred = true ∨ (m2o = false ∧ m.containsRef c.ref = true)

theorem covered_of_prefix {m m' : LMap} (h : m <+: m') (c : Cand S) (hc : covered m2o m c) :
    covered m2o m' c := by
  have hsub : ∀ e, e ∈ m → e ∈ m' := fun e he => h.subset he
  rcases hc with hc | ⟨h1, hc⟩
  · left
    rw [LMap.containsPred_iff] at hc ⊢
    obtain ⟨e, he, h⟩ := hc
    exact ⟨e, hsub e he, h⟩
  · right
    refine ⟨h1, ?_⟩
    rw [LMap.containsRef_iff] at hc ⊢
    obtain ⟨e, he, h⟩ := hc
    exact ⟨e, hsub e he, h⟩

/-- after processing an eligible candidate it is covered -/
theorem naiveStep_covered (m : LMap) (c : Cand S) (hb : beats le dec c.score thr = true) :
    covered m2o (naiveStep le dec thr m2o m c) c := by
  rcases naiveStep_cases le dec thr m2o m c with ⟨h, hs | hs⟩ | ⟨h, _, _⟩
  · rw [h]
    simp only [naiveSkip, Bool.or_eq_true, Bool.and_eq_true, Bool.not_eq_eq_eq_not,
      Bool.not_true] at hs
    rcases hs with hs | ⟨h1, h2⟩
    · exact .inl hs
    · exact .inr ⟨h2, h1⟩
  · rw [hb] at hs; cases hs
  · rw [h]
    left
    rw [LMap.containsPred_iff]
    exact ⟨(c.pred, c.ref), by simp, rfl⟩

theorem naiveFold_maximal (cs : List (Cand S)) (m : LMap) :
    ∀ c ∈ cs, beats le dec c.score thr = true →
      covered m2o (cs.foldl (naiveStep le dec thr m2o) m) c := by
  induction cs generalizing m with
  | nil => intro c hc; cases hc
  | cons c' cs ih =>
    intro c hc hb
    rw [List.foldl_cons]
    rcases List.mem_cons.1 hc with h | h
    · subst h
      exact covered_of_prefix m2o (naiveFold_prefix le dec thr m2o cs _) c
        (naiveStep_covered le dec thr m2o m c hb)
    · exact ih _ c h hb

theorem naiveLoop_split (s t : List (Cand S)) (c : Cand S) :
    naiveLoop le dec thr m2o (s ++ c :: t) =
      t.foldl (naiveStep le dec thr m2o) (naiveStep le dec thr m2o (naiveLoop le dec thr m2o s) c) := by
  simp only [naiveLoop, List.foldl_append, List.foldl_cons]

/-- an eligible candidate that is not in the result conflicts with a result pair coming from an
    earlier candidate -/
theorem naive_displaced (s t : List (Cand S)) (c : Cand S)
    (hb : beats le dec c.score thr = true)
    (hnot : (c.pred, c.ref) ∉ naiveLoop le dec thr m2o (s ++ c :: t)) :
    ∃ c' ∈ s, (c'.pred, c'.ref) ∈ naiveLoop le dec thr m2o (s ++ c :: t) ∧
      (c'.pred = c.pred ∨ (m2o = false ∧ c'.ref = c.ref)) := by
  rw [naiveLoop_split] at hnot ⊢
  have hpre := naiveFold_prefix le dec thr m2o t
    (naiveStep le dec thr m2o (naiveLoop le dec thr m2o s) c)
  have hpre1 := naiveStep_prefix le dec thr m2o (naiveLoop le dec thr m2o s) c
  rcases naiveStep_cases le dec thr m2o (naiveLoop le dec thr m2o s) c with
    ⟨_, hs | hs⟩ | ⟨h, _, _⟩
  · -- skipped: a conflicting entry exists in the map built from `s`
    have hex : ∃ e ∈ naiveLoop le dec thr m2o s, e.1 = c.pred ∨ (m2o = false ∧ e.2 = c.ref) := by
      simp only [naiveSkip, Bool.or_eq_true, Bool.and_eq_true, Bool.not_eq_eq_eq_not,
        Bool.not_true] at hs
      rcases hs with hs | ⟨h1, h2⟩
      · obtain ⟨e, he, h⟩ := (LMap.containsPred_iff _ _).1 hs
        exact ⟨e, he, .inl h⟩
      · obtain ⟨e, he, h⟩ := (LMap.containsRef_iff _ _).1 h1
        exact ⟨e, he, .inr ⟨h2, h⟩⟩
    obtain ⟨e, he, hconf⟩ := hex
    rcases naiveFold_sound le dec thr m2o s [] e he with h | ⟨c', hc', hp, hr, _⟩
    · cases h
    · refine ⟨c', hc', ?_, ?_⟩
      · have : (c'.pred, c'.ref) = e := by rw [hp, hr]
        rw [this]
        exact hpre.subset (hpre1.subset he)
      · rw [hp, hr]; exact hconf
  · rw [hb] at hs; cases hs
  · exfalso
    apply hnot
    apply hpre.subset
    rw [h]
    simp

end Panoptica
