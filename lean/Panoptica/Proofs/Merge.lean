/- helper lemmas for C14 (merge matcher loop) -/
import Panoptica.Model.Matching
namespace Panoptica

/-! ### LMap -/
namespace LMap

theorem containsPred_append (m : LMap) (p r q : Lab) :
    containsPred (m ++ [(p, r)]) q = (containsPred m q || p == q) := by
  simp [containsPred, List.any_append]

theorem containsRef_append (m : LMap) (p r q : Lab) :
    containsRef (m ++ [(p, r)]) q = (containsRef m q || r == q) := by
  simp [containsRef, List.any_append]

theorem predsOf_append_self (m : LMap) (p r : Lab) :
    predsOf (m ++ [(p, r)]) r = predsOf m r ++ [p] := by
  simp [predsOf, List.filter_append]

theorem predsOf_append_ne (m : LMap) (p r q : Lab) (h : r ≠ q) :
    predsOf (m ++ [(p, r)]) q = predsOf m q := by
  simp [predsOf, List.filter_append, h]

theorem predsOf_eq_nil (m : LMap) (r : Lab) (h : containsRef m r = false) :
    predsOf m r = [] := by
  induction m with
  | nil => rfl
  | cons e m ih =>
    simp only [containsRef, List.any_cons, Bool.or_eq_false_iff] at h
    have ih' := ih (by simpa [containsRef] using h.2)
    simp only [predsOf, List.filter_cons, h.1] at ih' ⊢
    simpa using ih'

theorem not_mem_fst_of_containsPred (m : LMap) (p : Lab) (h : containsPred m p = false) :
    p ∉ m.map (·.1) := by
  intro hm
  rw [List.mem_map] at hm
  obtain ⟨e, he, rfl⟩ := hm
  have : containsPred m e.1 = true := by
    simp only [containsPred, List.any_eq_true]
    exact ⟨e, he, by simp⟩
  rw [h] at this
  exact Bool.noConfusion this

end LMap

/-! ### ScoreRef -/
namespace ScoreRef
variable {S : Type}

theorem get?_map_set (s : ScoreRef S) (r q : Lab) (x : S) :
    ((s.map (fun e => if e.1 == r then (r, x) else e)).find? (fun e => e.1 == q)).map (·.2) =
      if q = r then (if s.any (fun e => e.1 == r) then some x else none)
      else (s.find? (fun e => e.1 == q)).map (·.2) := by
  induction s with
  | nil => simp
  | cons e s ih =>
    rw [List.map_cons, List.find?_cons, List.find?_cons, List.any_cons]
    by_cases h1 : e.1 = r <;> by_cases h2 : q = r <;> grind

theorem get?_set_self (s : ScoreRef S) (r : Lab) (x : S) : (s.set r x).get? r = some x := by
  unfold ScoreRef.set ScoreRef.get?
  split
  · rename_i h
    rw [get?_map_set]; simp [h]
  · rename_i h
    have h' : ∀ e ∈ s, ¬ (e.1 == r) = true := by
      intro e he hc
      exact h (List.any_eq_true.mpr ⟨e, he, hc⟩)
    rw [List.find?_append]
    have : s.find? (fun e => e.1 == r) = none := by
      rw [List.find?_eq_none]; exact h'
    simp [this]

theorem get?_set_ne (s : ScoreRef S) (r q : Lab) (x : S) (h : q ≠ r) :
    (s.set r x).get? q = s.get? q := by
  unfold ScoreRef.set ScoreRef.get?
  split
  · rw [get?_map_set]; simp [h]
  · rw [List.find?_append]
    have : ¬ r = q := fun e => h e.symm
    cases hf : s.find? (fun e => e.1 == q) <;> simp [this]

end ScoreRef

/-! ### one step -/
section Step
variable {S : Type} (le : S → S → Bool) (dec : Bool) (thr : S) (comb : Lab → List Lab → S)

theorem mergeStep_cases (st : MergeState S) (c : Cand S) :
    mergeStep le dec thr comb st c = st ∨
    (st.lmap.containsPred c.pred = false ∧ st.lmap.containsRef c.ref = false ∧
       beats le dec c.score thr = true ∧
       mergeStep le dec thr comb st c =
         { lmap := st.lmap ++ [(c.pred, c.ref)], scores := st.scores.set c.ref c.score }) ∨
    (st.lmap.containsPred c.pred = false ∧ st.lmap.containsRef c.ref = true ∧
       ∃ old, st.scores.get? c.ref = some old ∧
         strictlyBetter le dec (comb c.ref (st.lmap.predsOf c.ref ++ [c.pred])) old = true ∧
         mergeStep le dec thr comb st c =
           { lmap := st.lmap ++ [(c.pred, c.ref)],
             scores := st.scores.set c.ref (comb c.ref (st.lmap.predsOf c.ref ++ [c.pred])) }) := by
  unfold mergeStep
  by_cases hp : st.lmap.containsPred c.pred = true
  · left; simp [hp]
  · have hp' : st.lmap.containsPred c.pred = false := by simpa using hp
    by_cases hr : st.lmap.containsRef c.ref = true
    · simp only [hp', hr, if_true, Bool.false_eq_true, if_false]
      cases hg : st.scores.get? c.ref with
      | none => left; rfl
      | some old =>
        by_cases hs : strictlyBetter le dec (comb c.ref (st.lmap.predsOf c.ref ++ [c.pred])) old = true
        · right; right
          exact ⟨trivial, trivial, old, rfl, hs, by simp [hs]⟩
        · left; simp [hs]
    · have hr' : st.lmap.containsRef c.ref = false := by simpa using hr
      simp only [hp', hr', Bool.false_eq_true, if_false]
      by_cases hb : beats le dec c.score thr = true
      · right; left
        exact ⟨trivial, trivial, hb, by simp [hb]⟩
      · left; simp [hb]

/-- generic fold invariant -/
theorem foldl_inv {α β : Type} (f : β → α → β) (P : β → Prop) (Q : α → Prop)
    (hstep : ∀ b a, Q a → P b → P (f b a)) :
    ∀ (l : List α) (b : β), (∀ a ∈ l, Q a) → P b → P (l.foldl f b) := by
  intro l
  induction l with
  | nil => intro b _ h; exact h
  | cons a l ih =>
    intro b hq hb
    simp only [List.foldl_cons]
    exact ih _ (fun x hx => hq x (List.mem_cons_of_mem _ hx))
      (hstep b a (hq a List.mem_cons_self) hb)

/-! ### invariants -/

def InvNodup (st : MergeState S) : Prop := (st.lmap.map (·.1)).Nodup

theorem InvNodup_step (st : MergeState S) (c : Cand S) (h : InvNodup st) :
    InvNodup (mergeStep le dec thr comb st c) := by
  rcases mergeStep_cases le dec thr comb st c with e | ⟨hp, _, _, e⟩ | ⟨hp, _, _, _, _, e⟩
  · rw [e]; exact h
  all_goals
    rw [e]
    simp only [InvNodup, List.map_append, List.map_cons, List.map_nil]
    rw [List.nodup_append]
    refine ⟨h, by simp, ?_⟩
    intro a ha b hb
    simp only [List.mem_singleton] at hb
    subst hb
    intro hab; subst hab
    exact LMap.not_mem_fst_of_containsPred _ _ hp ha

def InvDef (st : MergeState S) : Prop :=
  ∀ r, (st.scores.get? r).isSome = st.lmap.containsRef r

theorem isSome_get?_set (s : ScoreRef S) (r q : Lab) (x : S) :
    ((s.set r x).get? q).isSome = ((s.get? q).isSome || r == q) := by
  by_cases h : q = r
  · subst h; simp [ScoreRef.get?_set_self]
  · have : ¬ r = q := fun e => h e.symm
    rw [ScoreRef.get?_set_ne _ _ _ _ h]; simp [this]

theorem InvDef_step (st : MergeState S) (c : Cand S) (h : InvDef st) :
    InvDef (mergeStep le dec thr comb st c) := by
  rcases mergeStep_cases le dec thr comb st c with e | ⟨_, _, _, e⟩ | ⟨_, _, _, _, _, e⟩
  · rw [e]; exact h
  all_goals
    rw [e]
    intro r
    simp only [isSome_get?_set, LMap.containsRef_append, h r]

/-- founder invariant -/
def InvFounder (Q : Cand S → Prop) (st : MergeState S) : Prop :=
  ∀ r, st.lmap.containsRef r = true →
    ∃ c, Q c ∧ c.ref = r ∧ beats le dec c.score thr = true ∧
      (st.lmap.predsOf r).head? = some c.pred

theorem InvFounder_step (Q : Cand S → Prop) (st : MergeState S) (c : Cand S) (hq : Q c)
    (h : InvFounder le dec thr Q st) :
    InvFounder le dec thr Q (mergeStep le dec thr comb st c) := by
  rcases mergeStep_cases le dec thr comb st c with e | ⟨_, hr, hb, e⟩ | ⟨_, hr, _, _, _, e⟩
  · rw [e]; exact h
  · rw [e]
    intro r hc
    by_cases hrr : c.ref = r
    · subst hrr
      refine ⟨c, hq, rfl, hb, ?_⟩
      simp [LMap.predsOf_append_self, LMap.predsOf_eq_nil _ _ hr]
    · simp only [LMap.containsRef_append, Bool.or_eq_true, beq_iff_eq, hrr, or_false] at hc
      simp only [LMap.predsOf_append_ne _ _ _ _ hrr]
      exact h r hc
  · rw [e]
    intro r hc
    by_cases hrr : c.ref = r
    · subst hrr
      obtain ⟨c0, h1, h2, h3, h4⟩ := h c.ref hr
      refine ⟨c0, h1, h2, h3, ?_⟩
      simp [LMap.predsOf_append_self, List.head?_append, h4]
    · simp only [LMap.containsRef_append, Bool.or_eq_true, beq_iff_eq, hrr, or_false] at hc
      simp only [LMap.predsOf_append_ne _ _ _ _ hrr]
      exact h r hc

/-- score bookkeeping invariant -/
def InvScore (st : MergeState S) : Prop :=
  ∀ r s, st.scores.get? r = some s → s = comb r (st.lmap.predsOf r)

theorem InvScore_step (st : MergeState S) (c : Cand S) (hq : c.score = comb c.ref [c.pred])
    (h : InvScore comb st) :
    InvScore comb (mergeStep le dec thr comb st c) := by
  rcases mergeStep_cases le dec thr comb st c with e | ⟨_, hr, _, e⟩ | ⟨_, _, _, _, _, e⟩
  · rw [e]; exact h
  · rw [e]
    intro r s hs
    by_cases hrr : r = c.ref
    · subst hrr
      simp only [ScoreRef.get?_set_self, Option.some.injEq] at hs
      simp only [LMap.predsOf_append_self, LMap.predsOf_eq_nil _ _ hr, List.nil_append]
      rw [← hs, hq]
    · simp only [ScoreRef.get?_set_ne _ _ _ _ hrr] at hs
      simp only [LMap.predsOf_append_ne _ _ _ _ (fun e => hrr e.symm)]
      exact h r s hs
  · rw [e]
    intro r s hs
    by_cases hrr : r = c.ref
    · subst hrr
      simp only [ScoreRef.get?_set_self, Option.some.injEq] at hs
      simp only [LMap.predsOf_append_self]
      exact hs.symm
    · simp only [ScoreRef.get?_set_ne _ _ _ _ hrr] at hs
      simp only [LMap.predsOf_append_ne _ _ _ _ (fun e => hrr e.symm)]
      exact h r s hs

theorem beats_of_strictlyBetter
    (htrans : ∀ a b c, le a b = true → le b c = true → le a c = true)
    (new old : S) (hs : strictlyBetter le dec new old = true) (hb : beats le dec old thr = true) :
    beats le dec new thr = true := by
  unfold strictlyBetter at hs
  unfold beats at hb ⊢
  cases dec
  · simp only [Bool.false_eq_true, if_false, Bool.and_eq_true] at hs hb ⊢
    exact htrans _ _ _ hb hs.1
  · simp only [if_true, Bool.and_eq_true] at hs hb ⊢
    exact htrans _ _ _ hs.1 hb

/-- threshold invariant -/
def InvThr (st : MergeState S) : Prop :=
  ∀ r s, st.scores.get? r = some s → beats le dec s thr = true

theorem InvThr_step
    (htrans : ∀ a b c, le a b = true → le b c = true → le a c = true)
    (st : MergeState S) (c : Cand S) (h : InvThr le dec thr st) :
    InvThr le dec thr (mergeStep le dec thr comb st c) := by
  rcases mergeStep_cases le dec thr comb st c with e | ⟨_, _, hb, e⟩ | ⟨_, _, old, ho, hsb, e⟩
  · rw [e]; exact h
  · rw [e]
    intro r s hs
    by_cases hrr : r = c.ref
    · subst hrr
      simp only [ScoreRef.get?_set_self, Option.some.injEq] at hs
      rw [← hs]; exact hb
    · simp only [ScoreRef.get?_set_ne _ _ _ _ hrr] at hs
      exact h r s hs
  · rw [e]
    intro r s hs
    by_cases hrr : r = c.ref
    · subst hrr
      simp only [ScoreRef.get?_set_self, Option.some.injEq] at hs
      rw [← hs]
      exact beats_of_strictlyBetter le dec thr htrans _ _ hsb (h _ _ ho)
    · simp only [ScoreRef.get?_set_ne _ _ _ _ hrr] at hs
      exact h r s hs

/-- "at least as good" in the metric's preferred direction -/
def betterEq (a b : S) : Bool := if dec then le a b else le b a

theorem betterEq_of_strictlyBetter
    (htrans : ∀ a b c, le a b = true → le b c = true → le a c = true)
    (new old x : S) (hs : strictlyBetter le dec new old = true)
    (hb : betterEq le dec old x = true) :
    betterEq le dec new x = true := by
  unfold strictlyBetter at hs
  unfold betterEq at hb ⊢
  cases dec
  · simp only [Bool.false_eq_true, if_false, Bool.and_eq_true] at hs hb ⊢
    exact htrans _ _ _ hb hs.1
  · simp only [if_true, Bool.and_eq_true] at hs hb ⊢
    exact htrans _ _ _ hs.1 hb

/-- final score at least as good as founder's own score -/
def InvBest (Q : Cand S → Prop) (st : MergeState S) : Prop :=
  ∀ r s, st.scores.get? r = some s →
    ∃ c, Q c ∧ c.ref = r ∧ (st.lmap.predsOf r).head? = some c.pred ∧
      betterEq le dec s c.score = true

theorem InvBest_step
    (hrefl : ∀ a, le a a = true)
    (htrans : ∀ a b c, le a b = true → le b c = true → le a c = true)
    (Q : Cand S → Prop) (st : MergeState S) (c : Cand S) (hq : Q c)
    (h : InvBest le dec Q st) :
    InvBest le dec Q (mergeStep le dec thr comb st c) := by
  rcases mergeStep_cases le dec thr comb st c with e | ⟨_, hr, _, e⟩ | ⟨_, _, old, ho, hsb, e⟩
  · rw [e]; exact h
  · rw [e]
    intro r s hs
    by_cases hrr : r = c.ref
    · subst hrr
      simp only [ScoreRef.get?_set_self, Option.some.injEq] at hs
      refine ⟨c, hq, rfl, ?_, ?_⟩
      · simp [LMap.predsOf_append_self, LMap.predsOf_eq_nil _ _ hr]
      · rw [← hs]; unfold betterEq; cases dec <;> simp [hrefl]
    · simp only [ScoreRef.get?_set_ne _ _ _ _ hrr] at hs
      simp only [LMap.predsOf_append_ne _ _ _ _ (fun e => hrr e.symm)]
      exact h r s hs
  · rw [e]
    intro r s hs
    by_cases hrr : r = c.ref
    · subst hrr
      simp only [ScoreRef.get?_set_self, Option.some.injEq] at hs
      obtain ⟨c0, h1, h2, h3, h4⟩ := h _ _ ho
      refine ⟨c0, h1, h2, ?_, ?_⟩
      · simp [LMap.predsOf_append_self, List.head?_append, h3]
      · rw [← hs]
        exact betterEq_of_strictlyBetter le dec htrans _ _ _ hsb h4
    · simp only [ScoreRef.get?_set_ne _ _ _ _ hrr] at hs
      simp only [LMap.predsOf_append_ne _ _ _ _ (fun e => hrr e.symm)]
      exact h r s hs

end Step

end Panoptica
