/-
  Helper lemmas for Properties/C14Best.lean (best-first processing of the merge matcher).
-/
import Panoptica.Proofs.Merge
namespace Panoptica

namespace LMap

theorem exists_of_containsPred (m : LMap) (p : Lab) (h : containsPred m p = true) :
    ∃ r, (p, r) ∈ m := by
  simp only [containsPred, List.any_eq_true, beq_iff_eq] at h
  obtain ⟨⟨p', r⟩, he, hp⟩ := h
  simp only at hp
  subst hp
  exact ⟨r, he⟩

theorem containsRef_of_mem (m : LMap) (p r : Lab) (h : (p, r) ∈ m) : containsRef m r = true := by
  simp only [containsRef, List.any_eq_true, beq_iff_eq]
  exact ⟨(p, r), h, rfl⟩

end LMap

section Best
variable {S : Type} (le : S → S → Bool) (dec : Bool) (thr : S) (comb : Lab → List Lab → S)

/-! ### the order -/

theorem betterEq_refl (hrefl : ∀ a, le a a = true) (a : S) : betterEq le dec a a = true := by
  unfold betterEq; cases dec <;> simp [hrefl]

theorem betterEq_trans
    (htrans : ∀ a b c, le a b = true → le b c = true → le a c = true)
    (a b c : S) (h1 : betterEq le dec a b = true) (h2 : betterEq le dec b c = true) :
    betterEq le dec a c = true := by
  unfold betterEq at h1 h2 ⊢
  cases dec
  · simp only [Bool.false_eq_true, if_false] at h1 h2 ⊢
    exact htrans _ _ _ h2 h1
  · simp only [if_true] at h1 h2 ⊢
    exact htrans _ _ _ h1 h2

theorem betterEq_total (htotal : ∀ a b, le a b = true ∨ le b a = true) (a b : S) :
    betterEq le dec a b = true ∨ betterEq le dec b a = true := by
  unfold betterEq
  cases dec
  · simp only [Bool.false_eq_true, if_false]; exact htotal b a
  · simp only [if_true]; exact htotal a b

theorem beats_of_betterEq
    (htrans : ∀ a b c, le a b = true → le b c = true → le a c = true)
    (a b : S) (h1 : betterEq le dec a b = true) (h2 : beats le dec b thr = true) :
    beats le dec a thr = true := by
  unfold betterEq at h1
  unfold beats at h2 ⊢
  cases dec
  · simp only [Bool.false_eq_true, if_false] at h1 h2 ⊢
    exact htrans _ _ _ h2 h1
  · simp only [if_true] at h1 h2 ⊢
    exact htrans _ _ _ h1 h2

/-- the best-first list is sorted by `betterEq` on the scores -/
theorem sortBest_pairwise
    (htrans : ∀ a b c, le a b = true → le b c = true → le a c = true)
    (htotal : ∀ a b, le a b = true ∨ le b a = true) (cs : List (Cand S)) :
    (sortBest le dec cs).Pairwise (fun a b => betterEq le dec a.score b.score = true) := by
  unfold sortBest
  have h := List.pairwise_mergeSort
    (le := fun (a b : Cand S) => if dec then le a.score b.score else le b.score a.score)
    (fun a b c h1 h2 => betterEq_trans le dec htrans a.score b.score c.score h1 h2)
    (fun a b => by
      have := betterEq_total le dec htotal a.score b.score
      unfold betterEq at this
      simpa [Bool.or_eq_true] using this) cs
  exact h

theorem mem_sortBest (cs : List (Cand S)) (c : Cand S) : c ∈ sortBest le dec cs ↔ c ∈ cs := by
  unfold sortBest; exact List.mem_mergeSort

/-! ### monotonicity of the loop -/

theorem lmap_mono_step (st : MergeState S) (c : Cand S) (e : Lab × Lab) (h : e ∈ st.lmap) :
    e ∈ (mergeStep le dec thr comb st c).lmap := by
  rcases mergeStep_cases le dec thr comb st c with e' | ⟨_, _, _, e'⟩ | ⟨_, _, _, _, _, e'⟩
  · rw [e']; exact h
  all_goals rw [e']; exact List.mem_append_left _ h

theorem lmap_mono_fold (e : Lab × Lab) :
    ∀ (l : List (Cand S)) (st : MergeState S), e ∈ st.lmap →
      e ∈ (l.foldl (mergeStep le dec thr comb) st).lmap := by
  intro l
  induction l with
  | nil => intro st h; exact h
  | cons c l ih =>
    intro st h
    simp only [List.foldl_cons]
    exact ih _ (lmap_mono_step le dec thr comb st c e h)

theorem InvDef_fold :
    ∀ (l : List (Cand S)) (st : MergeState S), InvDef st →
      InvDef (l.foldl (mergeStep le dec thr comb) st) := by
  intro l
  induction l with
  | nil => intro st h; exact h
  | cons c l ih =>
    intro st h
    simp only [List.foldl_cons]
    exact ih _ (InvDef_step le dec thr comb st c h)

theorem get?_none_of_containsRef (st : MergeState S) (hd : InvDef st) (r : Lab)
    (h : st.lmap.containsRef r = false) : st.scores.get? r = none := by
  have := hd r
  rw [h] at this
  cases hg : st.scores.get? r with
  | none => rfl
  | some x => rw [hg] at this; exact Bool.noConfusion this

theorem get?_some_of_containsRef (st : MergeState S) (hd : InvDef st) (r : Lab)
    (h : st.lmap.containsRef r = true) : ∃ s, st.scores.get? r = some s := by
  have := hd r
  rw [h] at this
  cases hg : st.scores.get? r with
  | none => rw [hg] at this; exact Bool.noConfusion this
  | some x => exact ⟨x, rfl⟩

/-- the recorded score of a matched reference only improves -/
theorem score_mono_step
    (hrefl : ∀ a, le a a = true)
    (st : MergeState S) (c : Cand S) (hd : InvDef st) (r : Lab) (s0 : S)
    (h : st.scores.get? r = some s0) :
    ∃ s, (mergeStep le dec thr comb st c).scores.get? r = some s ∧
      betterEq le dec s s0 = true := by
  rcases mergeStep_cases le dec thr comb st c with e | ⟨_, hr, _, e⟩ | ⟨_, _, old, ho, hsb, e⟩
  · rw [e]; exact ⟨s0, h, betterEq_refl le dec hrefl s0⟩
  · rw [e]
    by_cases hrr : r = c.ref
    · subst hrr
      rw [get?_none_of_containsRef st hd _ hr] at h
      cases h
    · refine ⟨s0, ?_, betterEq_refl le dec hrefl s0⟩
      simp only [ScoreRef.get?_set_ne _ _ _ _ hrr]; exact h
  · rw [e]
    by_cases hrr : r = c.ref
    · subst hrr
      rw [ho] at h
      simp only [Option.some.injEq] at h
      subst h
      refine ⟨_, ScoreRef.get?_set_self _ _ _, ?_⟩
      unfold strictlyBetter at hsb
      unfold betterEq
      cases dec
      · simp only [Bool.false_eq_true, if_false, Bool.and_eq_true] at hsb ⊢
        exact hsb.1
      · simp only [if_true, Bool.and_eq_true] at hsb ⊢
        exact hsb.1
    · refine ⟨s0, ?_, betterEq_refl le dec hrefl s0⟩
      simp only [ScoreRef.get?_set_ne _ _ _ _ hrr]; exact h

theorem score_mono_fold
    (hrefl : ∀ a, le a a = true)
    (htrans : ∀ a b c, le a b = true → le b c = true → le a c = true) (r : Lab) :
    ∀ (l : List (Cand S)) (st : MergeState S), InvDef st → ∀ s0, st.scores.get? r = some s0 →
      ∃ s, (l.foldl (mergeStep le dec thr comb) st).scores.get? r = some s ∧
        betterEq le dec s s0 = true := by
  intro l
  induction l with
  | nil => intro st _ s0 h; exact ⟨s0, h, betterEq_refl le dec hrefl s0⟩
  | cons c l ih =>
    intro st hd s0 h
    simp only [List.foldl_cons]
    obtain ⟨s1, h1, b1⟩ := score_mono_step le dec thr comb hrefl st c hd r s0 h
    obtain ⟨s2, h2, b2⟩ := ih _ (InvDef_step le dec thr comb st c hd) s1 h1
    exact ⟨s2, h2, betterEq_trans le dec htrans _ _ _ b2 b1⟩

/-- a reference none of whose remaining candidates meets the threshold stays unmatched -/
theorem unmatched_fold (r : Lab) :
    ∀ (l : List (Cand S)) (st : MergeState S), st.lmap.containsRef r = false →
      (∀ c ∈ l, c.ref = r → beats le dec c.score thr = false) →
      (l.foldl (mergeStep le dec thr comb) st).lmap.containsRef r = false := by
  intro l
  induction l with
  | nil => intro st h _; exact h
  | cons c l ih =>
    intro st h hall
    simp only [List.foldl_cons]
    refine ih _ ?_ (fun c' hc' => hall c' (List.mem_cons_of_mem _ hc'))
    rcases mergeStep_cases le dec thr comb st c with e | ⟨_, _, hb, e⟩ | ⟨_, hr, _, _, _, e⟩
    · rw [e]; exact h
    · rw [e]
      have hne : ¬ c.ref = r := by
        intro hc
        rw [hall c List.mem_cons_self hc] at hb
        exact Bool.noConfusion hb
      simp only [LMap.containsRef_append, h, Bool.false_or, beq_eq_false_iff_ne, ne_eq]
      exact hne
    · rw [e]
      have hne : ¬ c.ref = r := by
        intro hc
        rw [hc, h] at hr
        exact Bool.noConfusion hr
      simp only [LMap.containsRef_append, h, Bool.false_or, beq_eq_false_iff_ne, ne_eq]
      exact hne

/-! ### the recorded score bounds everything still to come -/

def InvBound (st : MergeState S) (l : List (Cand S)) : Prop :=
  ∀ r s, st.scores.get? r = some s → ∀ c ∈ l, c.ref = r → betterEq le dec s c.score = true

theorem InvBound_step
    (htrans : ∀ a b c, le a b = true → le b c = true → le a c = true)
    (st : MergeState S) (c : Cand S) (l : List (Cand S))
    (hpw : ∀ c' ∈ l, betterEq le dec c.score c'.score = true)
    (h : InvBound le dec st (c :: l)) :
    InvBound le dec (mergeStep le dec thr comb st c) l := by
  rcases mergeStep_cases le dec thr comb st c with e | ⟨_, _, _, e⟩ | ⟨_, _, old, ho, hsb, e⟩
  · rw [e]; exact fun r s hs c' hc' => h r s hs c' (List.mem_cons_of_mem _ hc')
  · rw [e]
    intro r s hs c' hc' hr'
    by_cases hrr : r = c.ref
    · subst hrr
      simp only [ScoreRef.get?_set_self, Option.some.injEq] at hs
      rw [← hs]; exact hpw c' hc'
    · simp only [ScoreRef.get?_set_ne _ _ _ _ hrr] at hs
      exact h r s hs c' (List.mem_cons_of_mem _ hc') hr'
  · rw [e]
    intro r s hs c' hc' hr'
    by_cases hrr : r = c.ref
    · subst hrr
      simp only [ScoreRef.get?_set_self, Option.some.injEq] at hs
      rw [← hs]
      exact betterEq_of_strictlyBetter le dec htrans _ _ _ hsb
        (h _ old ho c' (List.mem_cons_of_mem _ hc') hr')
    · simp only [ScoreRef.get?_set_ne _ _ _ _ hrr] at hs
      exact h r s hs c' (List.mem_cons_of_mem _ hc') hr'

/-- main lemma behind `final_at_least_best_free` -/
theorem best_free_fold
    (hrefl : ∀ a, le a a = true)
    (htrans : ∀ a b c, le a b = true → le b c = true → le a c = true) (r : Lab) :
    ∀ (l : List (Cand S)) (st : MergeState S),
      l.Pairwise (fun a b => betterEq le dec a.score b.score = true) →
      InvDef st → InvBound le dec st l →
      ∀ s, (l.foldl (mergeStep le dec thr comb) st).scores.get? r = some s →
      ∀ c ∈ l, c.ref = r →
        (∃ r', r' ≠ r ∧ (c.pred, r') ∈ (l.foldl (mergeStep le dec thr comb) st).lmap) ∨
        betterEq le dec s c.score = true := by
  intro l
  induction l with
  | nil => intro st _ _ _ s _ c hc; exact absurd hc List.not_mem_nil
  | cons c l ih =>
    intro st hpw hd hbd s hs c' hc' hcr
    rw [List.pairwise_cons] at hpw
    have hd' := InvDef_step le dec thr comb st c hd
    rcases List.mem_cons.mp hc' with heq | hmem
    · subst heq
      simp only [List.foldl_cons] at hs ⊢
      by_cases hr : st.lmap.containsRef r = true
      · -- already matched: recorded score bounds c', final score bounds the recorded one
        right
        obtain ⟨s0, h0⟩ := get?_some_of_containsRef st hd r hr
        have b0 := hbd r s0 h0 c' List.mem_cons_self hcr
        obtain ⟨s1, h1, b1⟩ := score_mono_fold le dec thr comb hrefl htrans r (c' :: l) st hd s0 h0
        simp only [List.foldl_cons] at h1
        rw [hs] at h1
        simp only [Option.some.injEq] at h1
        subst h1
        exact betterEq_trans le dec htrans _ _ _ b1 b0
      · have hr' : st.lmap.containsRef r = false := by simpa using hr
        by_cases hp : st.lmap.containsPred c'.pred = true
        · left
          obtain ⟨r', hm⟩ := LMap.exists_of_containsPred _ _ hp
          refine ⟨r', ?_, lmap_mono_fold le dec thr comb _ (c' :: l) st hm⟩
          intro hc
          subst hc
          rw [LMap.containsRef_of_mem _ _ _ hm] at hr'
          exact Bool.noConfusion hr'
        · have hp' : st.lmap.containsPred c'.pred = false := by simpa using hp
          by_cases hb : beats le dec c'.score thr = true
          · right
            have hstep : (mergeStep le dec thr comb st c').scores.get? r = some c'.score := by
              unfold mergeStep
              simp only [hp', hcr, hr', hb, Bool.false_eq_true, if_false, if_true]
              rw [← hcr]; exact ScoreRef.get?_set_self _ _ _
            obtain ⟨s1, h1, b1⟩ := score_mono_fold le dec thr comb hrefl htrans r l _ hd' _ hstep
            rw [hs] at h1
            simp only [Option.some.injEq] at h1
            subst h1
            exact b1
          · exfalso
            have hb' : beats le dec c'.score thr = false := by simpa using hb
            have hfin := unmatched_fold le dec thr comb r (c' :: l) st hr' (by
              intro c2 hc2 hc2r
              rcases List.mem_cons.mp hc2 with heq2 | hmem2
              · rw [heq2]; exact hb'
              · cases hb2 : beats le dec c2.score thr with
                | false => rfl
                | true =>
                  have := beats_of_betterEq le dec thr htrans _ _ (hpw.1 c2 hmem2) hb2
                  rw [hb'] at this
                  exact Bool.noConfusion this)
            simp only [List.foldl_cons] at hfin
            have := get?_none_of_containsRef _
              (InvDef_fold le dec thr comb l _ hd') r hfin
            rw [hs] at this
            cases this
    · simp only [List.foldl_cons] at hs ⊢
      exact ih _ hpw.2 hd' (InvBound_step le dec thr comb htrans st c l hpw.1 hbd) s hs c' hmem hcr

/-- main lemma behind `unmatched_has_no_free_eligible` -/
theorem unmatched_free_fold (r : Lab) :
    ∀ (l : List (Cand S)) (st : MergeState S),
      (l.foldl (mergeStep le dec thr comb) st).lmap.containsRef r = false →
      ∀ c ∈ l, c.ref = r → beats le dec c.score thr = true →
        ∃ r', r' ≠ r ∧ (c.pred, r') ∈ (l.foldl (mergeStep le dec thr comb) st).lmap := by
  intro l
  induction l with
  | nil => intro st _ c hc; exact absurd hc List.not_mem_nil
  | cons c l ih =>
    intro st h c' hc' hcr hb
    rcases List.mem_cons.mp hc' with heq | hmem
    · subst heq
      -- the reference is unmatched before the step, as assignments are never removed
      have hr' : st.lmap.containsRef r = false := by
        cases hr : st.lmap.containsRef r with
        | false => rfl
        | true =>
          simp only [LMap.containsRef, List.any_eq_true, beq_iff_eq] at hr
          obtain ⟨⟨p, r2⟩, he, h2⟩ := hr
          simp only at h2
          subst h2
          have := LMap.containsRef_of_mem _ _ _
            (lmap_mono_fold le dec thr comb _ (c' :: l) st he)
          rw [h] at this
          exact Bool.noConfusion this
      by_cases hp : st.lmap.containsPred c'.pred = true
      · obtain ⟨r', hm⟩ := LMap.exists_of_containsPred _ _ hp
        refine ⟨r', ?_, lmap_mono_fold le dec thr comb _ (c' :: l) st hm⟩
        intro hc
        subst hc
        rw [LMap.containsRef_of_mem _ _ _ hm] at hr'
        exact Bool.noConfusion hr'
      · exfalso
        have hp' : st.lmap.containsPred c'.pred = false := by simpa using hp
        have hstep : (c'.pred, r) ∈ (mergeStep le dec thr comb st c').lmap := by
          unfold mergeStep
          simp only [hp', hcr, hr', hb, Bool.false_eq_true, if_false, if_true]
          exact List.mem_append_right _ (List.mem_singleton.mpr rfl)
        have := LMap.containsRef_of_mem _ _ _
          (lmap_mono_fold le dec thr comb _ l _ hstep)
        simp only [List.foldl_cons] at h
        rw [h] at this
        exact Bool.noConfusion this
    · simp only [List.foldl_cons] at h ⊢
      exact ih _ h c' hmem hcr hb

end Best

end Panoptica
