/-
  Helper lemmas for Extracted/MetricCode.lean.
-/
import Panoptica.Model.MetricCode
import Panoptica.Model.Metrics
import Mathlib.Tactic.Ring
import Mathlib.Tactic.FieldSimp
import Mathlib.Tactic.Push
import Mathlib.Data.Rat.Defs
import Mathlib.Tactic.Linarith
import Mathlib.Tactic.NormNum
namespace Panoptica.MetricCode

/-- the environment of the four counts, variable by variable -/
@[simp] theorem envM_I (I U R P : Nat) : envM I U R P "I" = I := by simp [envM]
@[simp] theorem envM_U (I U R P : Nat) : envM I U R P "U" = U := by simp [envM]
@[simp] theorem envM_R (I U R P : Nat) : envM I U R P "R" = R := by simp [envM]
@[simp] theorem envM_P (I U R P : Nat) : envM I U R P "P" = P := by simp [envM]

theorem cast_ne_zero_of_ne {n : Nat} (h : n ≠ 0) : (n : Rat) ≠ 0 := by exact_mod_cast h

theorem cast_add_eq_zero_iff (a b : Nat) : (a : Rat) + (b : Rat) = 0 ↔ a = 0 ∧ b = 0 := by
  constructor
  · intro h
    have h' : a + b = 0 := by exact_mod_cast h
    omega
  · rintro ⟨rfl, rfl⟩; simp

theorem cast_add_ne_zero_left {a : Nat} (b : Nat) (h : a ≠ 0) : (a : Rat) + (b : Rat) ≠ 0 := by
  intro h0; exact h ((cast_add_eq_zero_iff a b).1 h0).1

theorem cast_add_ne_zero_right (a : Nat) {b : Nat} (h : b ≠ 0) : (a : Rat) + (b : Rat) ≠ 0 := by
  intro h0; exact h ((cast_add_eq_zero_iff a b).1 h0).2

/-- a count is zero, or it is positive (stated on `Nat` and on the casts, the forms `simp`, `field_simp` and
    `positivity` look for) -/
theorem count_cases (n : Nat) :
    n = 0 ∨ (n ≠ 0 ∧ 0 < n ∧ (n : Rat) ≠ 0 ∧ (0 : Rat) < (n : Rat)) := by
  rcases Nat.eq_zero_or_pos n with h | h
  · exact Or.inl h
  · refine Or.inr ⟨by omega, h, ?_, ?_⟩
    · exact_mod_cast (show n ≠ 0 by omega)
    · exact_mod_cast h

/-- closes one case of a metric-body obligation: unfold the generated body and the evaluators, decide the
    guards from the facts in the context, then finish the remaining identity of rationals -/
macro "metric_close " b:ident : tactic => `(tactic| (
  simp only [$b:ident, QBody.eval, QCond.eval, QExpr.eval, envM_I, envM_U, envM_R, envM_P]
  try simp [*, cast_add_eq_zero_iff]
  try first
    | done
    | ring1
    | (field_simp; done)
    | (field_simp; ring1)
    | (push_cast; ring1)
    | (push_cast; field_simp; ring1)
    | (norm_num; done)))

end Panoptica.MetricCode
