/- helper lemmas for C06 (counts on masks, rational arithmetic) -/
import Panoptica.Model.Metrics
import Panoptica.Spec.Masks
import Mathlib.Tactic.FieldSimp
import Mathlib.Tactic.Linarith
import Mathlib.Tactic.Ring
import Mathlib.Tactic.Positivity
import Mathlib.Algebra.Order.Field.Basic
import Mathlib.Data.Rat.Cast.Order
namespace Panoptica
open Panoptica.Spec

/-! ### counts -/

theorem foldl_add_maskVals (X : List Bool) (n : Nat) :
    (maskVals X).foldl (· + ·) n = n + card X := by
  induction X generalizing n with
  | nil => simp [maskVals, card]
  | cons b bs ih =>
    have ih' := ih
    simp only [maskVals, card] at ih ⊢
    cases b <;> simp [ih]; omega

theorem sumVals_maskVals (X : List Bool) : sumVals (maskVals X) = card X := by
  simp [sumVals, foldl_add_maskVals]

theorem interCount_maskVals (X Y : List Bool) :
    interCount (maskVals X) (maskVals Y) = cardInter X Y := by
  induction X generalizing Y with
  | nil => simp [maskVals, cardInter, interCount]
  | cons b bs ih =>
    cases Y with
    | nil => simp [maskVals, cardInter, interCount]
    | cons c cs =>
      have ih' := ih cs
      simp only [maskVals, cardInter] at ih' ⊢
      cases b <;> cases c <;> simp [interCount, ih', Nat.add_comm]

theorem unionCount_maskVals (X Y : List Bool) :
    unionCount (maskVals X) (maskVals Y) = cardUnion X Y := by
  induction X generalizing Y with
  | nil => simp [maskVals, cardUnion, unionCount]
  | cons b bs ih =>
    cases Y with
    | nil => simp [maskVals, cardUnion, unionCount]
    | cons c cs =>
      have ih' := ih cs
      simp only [maskVals, cardUnion] at ih' ⊢
      cases b <;> cases c <;> simp [unionCount, ih', Nat.add_comm]

theorem card_incl_excl (X Y : List Bool) (hlen : X.length = Y.length) :
    card X + card Y = cardInter X Y + cardUnion X Y := by
  induction X generalizing Y with
  | nil => cases Y <;> simp_all [card, cardInter, cardUnion]
  | cons b bs ih =>
    cases Y with
    | nil => simp at hlen
    | cons c cs =>
      have ih' := ih cs (by simpa using hlen)
      simp only [card, cardInter, cardUnion] at ih' ⊢
      cases b <;> cases c <;> simp <;> omega

theorem cardInter_le_left (X Y : List Bool) : cardInter X Y ≤ card X := by
  induction X generalizing Y with
  | nil => simp [card, cardInter]
  | cons b bs ih =>
    cases Y with
    | nil => simp [card, cardInter]
    | cons c cs =>
      have ih' := ih cs
      simp only [card, cardInter] at ih' ⊢
      cases b <;> cases c <;> simp <;> omega

theorem cardInter_le_right (X Y : List Bool) : cardInter X Y ≤ card Y := by
  induction X generalizing Y with
  | nil => simp [card, cardInter]
  | cons b bs ih =>
    cases Y with
    | nil => simp [card, cardInter]
    | cons c cs =>
      have ih' := ih cs
      simp only [card, cardInter] at ih' ⊢
      cases b <;> cases c <;> simp <;> omega

theorem cardInter_le_union (X Y : List Bool) : cardInter X Y ≤ cardUnion X Y := by
  induction X generalizing Y with
  | nil => simp [cardUnion, cardInter]
  | cons b bs ih =>
    cases Y with
    | nil => simp [cardUnion, cardInter]
    | cons c cs =>
      have ih' := ih cs
      simp only [cardUnion, cardInter] at ih' ⊢
      cases b <;> cases c <;> simp <;> omega

/-- equal intersection and union (same length) forces equal masks -/
theorem eq_of_cardInter_eq_cardUnion (X Y : List Bool) (hlen : X.length = Y.length)
    (h : cardInter X Y = cardUnion X Y) : X = Y := by
  induction X generalizing Y with
  | nil => cases Y <;> simp_all
  | cons b bs ih =>
    cases Y with
    | nil => simp at hlen
    | cons c cs =>
      have hle := cardInter_le_union bs cs
      have ih' := ih cs (by simpa using hlen)
      simp only [cardUnion, cardInter] at ih' h hle ⊢
      cases b <;> cases c <;> simp at h ⊢ <;> first | (apply ih'; omega) | omega

theorem cardInter_self (X : List Bool) : cardInter X X = card X := by
  induction X with
  | nil => simp [card, cardInter]
  | cons b bs ih =>
    simp only [card, cardInter] at ih ⊢
    cases b <;> simp

theorem cardUnion_self (X : List Bool) : cardUnion X X = card X := by
  induction X with
  | nil => simp [card, cardUnion]
  | cons b bs ih =>
    simp only [card, cardUnion] at ih ⊢
    cases b <;> simp

theorem interCount_comm (a b : Flat) : interCount a b = interCount b a := by
  induction a generalizing b with
  | nil => cases b <;> simp [interCount]
  | cons x xs ih =>
    cases b with
    | nil => simp [interCount]
    | cons y ys => simp [interCount, ih ys, Bool.and_comm]

theorem unionCount_comm (a b : Flat) : unionCount a b = unionCount b a := by
  induction a generalizing b with
  | nil => cases b <;> simp [unionCount]
  | cons x xs ih =>
    cases b with
    | nil => simp [unionCount]
    | cons y ys => simp [unionCount, ih ys, Bool.or_comm]

end Panoptica
