/- helper lemmas for Properties/C11Pipeline.lean -/
import Panoptica.Properties.C01Values
import Panoptica.Properties.C03Unique
import Panoptica.Properties.C11
namespace Panoptica
end Panoptica
