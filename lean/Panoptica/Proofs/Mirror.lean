/- helper lemmas for Properties/C11Pipeline.lean -/
import Panoptica.Properties.C01Values
import Panoptica.Properties.C03Unique
import Panoptica.Properties.C11
namespace Panoptica
namespace Mirror
open Panoptica.C11

/-! ### a total preorder on `Score` that agrees with `Score.le` on exact scores -/

def IsExact (x : Score) : Prop := ∃ q, x = .exact q

/-- exact scores by value, every non-exact score above all of them -/
def leT : Score → Score → Bool
  | .exact a, .exact b => decide (a ≤ b)
  | .exact _, _ => true
  | _, .exact _ => false
  | _, _ => true

theorem leT_total (a b : Score) : leT a b = true ∨ leT b a = true := by
  cases a <;> cases b <;> simp [leT]
  exact Rat.le_total

theorem leT_trans (a b c : Score) (hab : leT a b = true) (hbc : leT b c = true) : leT a c = true := by
  cases a <;> cases b <;> cases c <;> simp_all [leT]
  exact Rat.le_trans hab hbc

theorem leT_exact {a b : Score} (ha : IsExact a) (hb : IsExact b) : Score.le a b = leT a b := by
  obtain ⟨x, rfl⟩ := ha
  obtain ⟨y, rfl⟩ := hb
  rfl

/-! ### the loop and the sort only see the Boolean results of `le` -/

section congr
variable {S : Type} (le1 le2 : S → S → Bool) (dec : Bool) (thr : S)

theorem sortBest_congr (cs : List (Cand S))
    (h : ∀ a ∈ cs, ∀ b ∈ cs, le1 a.score b.score = le2 a.score b.score) :
    sortBest le1 dec cs = sortBest le2 dec cs := by
  unfold sortBest
  have := List.map_mergeSort
    (r := fun (a b : Cand S) => if dec then le1 a.score b.score else le1 b.score a.score)
    (s := fun (a b : Cand S) => if dec then le2 a.score b.score else le2 b.score a.score)
    (f := id) (l := cs)
    (by
      intro a ha b hb
      simp only [id]
      rw [h a ha b hb, h b hb a ha])
  simpa using this

theorem naiveFold_congr (m2o : Bool) (cs : List (Cand S))
    (h : ∀ c ∈ cs, beats le1 dec c.score thr = beats le2 dec c.score thr) (m : LMap) :
    cs.foldl (naiveStep le1 dec thr m2o) m = cs.foldl (naiveStep le2 dec thr m2o) m := by
  induction cs generalizing m with
  | nil => rfl
  | cons c cs ih =>
    have hc : naiveStep le1 dec thr m2o m c = naiveStep le2 dec thr m2o m c := by
      unfold naiveStep
      rw [h c (List.mem_cons_self ..)]
    rw [List.foldl_cons, List.foldl_cons, hc]
    exact ih (fun c' hc' => h c' (List.mem_cons_of_mem _ hc')) _

theorem naiveLoop_congr (m2o : Bool) (cs : List (Cand S))
    (h : ∀ c ∈ cs, beats le1 dec c.score thr = beats le2 dec c.score thr) :
    naiveLoop le1 dec thr m2o cs = naiveLoop le2 dec thr m2o cs :=
  naiveFold_congr le1 le2 dec thr m2o cs h []

theorem determined_congr (cs : List (Cand S))
    (hle : ∀ a ∈ cs, ∀ b ∈ cs, le1 a.score b.score = le2 a.score b.score)
    (hb : ∀ c ∈ cs, beats le1 dec c.score thr = beats le2 dec c.score thr)
    (hd : C03.Determined le1 dec thr cs) : C03.Determined le2 dec thr cs where
  keysNodup := hd.keysNodup
  distinct := by
    intro a ha b hb' hne hcomp h1 h2
    rw [← hb a ha] at h1
    rw [← hb b hb'] at h2
    have := hd.distinct a ha b hb' hne hcomp h1 h2
    simpa only [C03.strictlyBetterC, C03.betterEq, hle a ha b hb', hle b hb' a ha] using this

end congr

/-! ### `Determined` and `ValidMatching` under permutation and mirroring of the candidates -/

section inv
variable {S : Type} (le : S → S → Bool) (dec : Bool) (thr : S)

def swapPair (e : Lab × Lab) : Lab × Lab := (e.2, e.1)

theorem swapPair_swapPair (e : Lab × Lab) : swapPair (swapPair e) = e := rfl

theorem mem_map_swapPair (M : List (Lab × Lab)) (a b : Lab) :
    (a, b) ∈ M.map swapPair ↔ (b, a) ∈ M := by
  rw [List.mem_map]
  constructor
  · rintro ⟨e, he, h⟩
    have : e = (b, a) := by
      have := congrArg swapPair h
      rw [swapPair_swapPair] at this
      exact this
    rw [← this]; exact he
  · intro h
    exact ⟨(b, a), h, rfl⟩

theorem determined_perm {cs cs2 : List (Cand S)} (hp : cs.Perm cs2)
    (hd : C03.Determined le dec thr cs) : C03.Determined le dec thr cs2 where
  keysNodup := (hp.map _).nodup_iff.1 hd.keysNodup
  distinct := fun a ha b hb => hd.distinct a (hp.mem_iff.2 ha) b (hp.mem_iff.2 hb)

theorem determined_swap {cs : List (Cand S)} (hd : C03.Determined le dec thr cs) :
    C03.Determined le dec thr (cs.map swapCand) where
  keysNodup := by
    have h := hd.keysNodup
    rw [List.map_map]
    unfold List.Nodup at h ⊢
    rw [List.pairwise_map] at h ⊢
    refine h.imp ?_
    intro a b hab heq
    apply hab
    simp only [Function.comp_apply, swapCand, Prod.mk.injEq] at heq ⊢
    exact ⟨heq.2, heq.1⟩
  distinct := by
    intro a ha b hb hne hcomp h1 h2
    obtain ⟨a0, ha0, rfl⟩ := List.mem_map.1 ha
    obtain ⟨b0, hb0, rfl⟩ := List.mem_map.1 hb
    have hne0 : (a0.pred, a0.ref) ≠ (b0.pred, b0.ref) := by
      intro h
      apply hne
      simp only [swapCand, Prod.mk.injEq] at h ⊢
      exact ⟨h.2, h.1⟩
    have hcomp0 : C03.competes a0 b0 = true := by
      simp only [C03.competes, swapCand, Bool.or_eq_true] at hcomp ⊢
      exact hcomp.symm
    exact hd.distinct a0 ha0 b0 hb0 hne0 hcomp0 h1 h2

theorem valid_perm {cs cs2 : List (Cand S)} (hp : cs.Perm cs2) {M : List (Lab × Lab)}
    (hM : C03.ValidMatching le dec thr cs M) : C03.ValidMatching le dec thr cs2 M where
  sound := by
    intro e he
    obtain ⟨c, hc, h⟩ := hM.sound e he
    exact ⟨c, hp.mem_iff.1 hc, h⟩
  predsNodup := hM.predsNodup
  refsNodup := hM.refsNodup
  stable := by
    intro c hc hb hnot
    obtain ⟨c', hc', h⟩ := hM.stable c (hp.mem_iff.2 hc) hb hnot
    exact ⟨c', hp.mem_iff.1 hc', h⟩

theorem valid_swap {cs : List (Cand S)} {M : List (Lab × Lab)}
    (hM : C03.ValidMatching le dec thr cs M) :
    C03.ValidMatching le dec thr (cs.map swapCand) (M.map swapPair) where
  sound := by
    intro e he
    obtain ⟨e0, he0, rfl⟩ := List.mem_map.1 he
    obtain ⟨c, hc, h1, h2, hb⟩ := hM.sound e0 he0
    exact ⟨swapCand c, List.mem_map.2 ⟨c, hc, rfl⟩, h2, h1, hb⟩
  predsNodup := by
    rw [List.map_map]
    exact hM.refsNodup
  refsNodup := by
    rw [List.map_map]
    exact hM.predsNodup
  stable := by
    intro c hc hb hnot
    obtain ⟨c0, hc0, rfl⟩ := List.mem_map.1 hc
    have hnot0 : (c0.pred, c0.ref) ∉ M := by
      intro h
      apply hnot
      exact (mem_map_swapPair M _ _).2 h
    obtain ⟨c', hc', hin, hcomp, hs⟩ := hM.stable c0 hc0 hb hnot0
    refine ⟨swapCand c', List.mem_map.2 ⟨c', hc', rfl⟩, ?_, ?_, hs⟩
    · exact (mem_map_swapPair M _ _).2 hin
    · simp only [C03.competes, swapCand, Bool.or_eq_true] at hcomp ⊢
      exact hcomp.symm

end inv

/-! ### the matcher on mirrored candidates -/

theorem naive_mirror (dec : Bool) (thr : Score) (cs cs' : List (Cand Score))
    (hex : ∀ c ∈ cs, IsExact c.score) (hthr : IsExact thr)
    (hperm : cs'.Perm (cs.map swapCand))
    (hdet : C03.Determined Score.le dec thr cs) :
    ∀ p r, (p, r) ∈ naiveLoop Score.le dec thr false (sortBest Score.le dec cs) ↔
      (r, p) ∈ naiveLoop Score.le dec thr false (sortBest Score.le dec cs') := by
  have hex' : ∀ c ∈ cs', IsExact c.score := by
    intro c hc
    obtain ⟨c0, hc0, rfl⟩ := List.mem_map.1 (hperm.mem_iff.1 hc)
    exact hex c0 hc0
  -- agreement of the two orders on everything the matcher looks at
  have hle : ∀ (l : List (Cand Score)), (∀ c ∈ l, IsExact c.score) →
      ∀ a ∈ l, ∀ b ∈ l, Score.le a.score b.score = leT a.score b.score :=
    fun l hl a ha b hb => leT_exact (hl a ha) (hl b hb)
  have hbe : ∀ (l : List (Cand Score)), (∀ c ∈ l, IsExact c.score) →
      ∀ c ∈ l, beats Score.le dec c.score thr = beats leT dec c.score thr := by
    intro l hl c hc
    unfold beats
    rw [leT_exact (hl c hc) hthr, leT_exact hthr (hl c hc)]
  have hrew : ∀ (l : List (Cand Score)), (∀ c ∈ l, IsExact c.score) →
      naiveLoop Score.le dec thr false (sortBest Score.le dec l) =
        naiveLoop leT dec thr false (sortBest leT dec l) := by
    intro l hl
    rw [sortBest_congr Score.le leT dec l (hle l hl)]
    apply naiveLoop_congr
    intro c hc
    have hc' : c ∈ l := by
      unfold sortBest at hc
      exact List.mem_mergeSort.1 hc
    exact hbe l hl c hc'
  rw [hrew cs hex, hrew cs' hex']
  have hdT : C03.Determined leT dec thr cs :=
    determined_congr Score.le leT dec thr cs (hle cs hex) (hbe cs hex) hdet
  have hdT' : C03.Determined leT dec thr cs' :=
    determined_perm leT dec thr hperm.symm (determined_swap leT dec thr hdT)
  have hv := C03.naive_valid leT dec thr leT_total leT_trans cs hdT
  have hv' := valid_perm leT dec thr hperm.symm (valid_swap leT dec thr hv)
  have hu := C03.unique leT dec thr leT_total leT_trans cs' hdT' _ hv'
  intro p r
  rw [← hu (r, p), mem_map_swapPair]

/-! ### candidates of the mirrored pair -/

theorem metricOn_swap (m : Metric) (hm : m = .IOU ∨ m = .DSC) (s : List Nat) (pred ref : Flat) (r p : Lab) :
    metricOn m ⟨s, ref⟩ ⟨s, pred⟩ p [r] = metricOn m ⟨s, pred⟩ ⟨s, ref⟩ r [p] := by
  rcases hm with rfl | rfl
  · simp only [metricOn]; rw [iouSel_swap pred ref r p]
  · simp only [metricOn]; rw [diceSel_swap pred ref r p]

theorem metricOn_exact (m : Metric) (hm : m = .IOU ∨ m = .DSC) (pred ref : Arr) (r : Lab) (ps : List Lab) :
    IsExact (metricOn m pred ref r ps) := by
  rcases hm with rfl | rfl
  · exact ⟨_, rfl⟩
  · exact ⟨_, rfl⟩

theorem nodup_map_on {α β : Type} (f : α → β) (l : List α)
    (hinj : ∀ x ∈ l, ∀ y ∈ l, f x = f y → x = y) (h : l.Nodup) : (l.map f).Nodup := by
  unfold List.Nodup at h ⊢
  rw [List.pairwise_map]
  exact h.imp_of_mem (fun ha hb hab heq => hab (hinj _ ha _ hb heq))

theorem bounds_left {pred ref : Flat} (hb : ∀ x ∈ pred ++ ref, x < 2 ^ 32 - 1) :
    ∀ x ∈ pred, x < 2 ^ 32 - 1 := fun x hx => hb x (List.mem_append_left _ hx)

theorem bounds_right {pred ref : Flat} (hb : ∀ x ∈ pred ++ ref, x < 2 ^ 32 - 1) :
    ∀ x ∈ ref, x < 2 ^ 32 - 1 := fun x hx => hb x (List.mem_append_right _ hx)

theorem bounds_swap {pred ref : Flat} (hb : ∀ x ∈ pred ++ ref, x < 2 ^ 32 - 1) :
    ∀ x ∈ ref ++ pred, x < 2 ^ 32 - 1 := by
  intro x hx
  apply hb x
  rw [List.mem_append] at hx ⊢
  exact hx.symm

theorem overlapPairs_swap (pred ref : Flat) (hlen : pred.length = ref.length)
    (hb : ∀ x ∈ pred ++ ref, x < 2 ^ 32 - 1) :
    (overlapPairs ref pred (labelsOf pred)).Perm
      ((overlapPairs pred ref (labelsOf ref)).map swapPair) := by
  have hbp := bounds_left hb
  have hbr := bounds_right hb
  have hbp' : ∀ x ∈ pred, x < 2 ^ 32 := fun x hx => lt32_of_lt x (hbp x hx)
  have hbr' : ∀ x ∈ ref, x < 2 ^ 32 := fun x hx => lt32_of_lt x (hbr x hx)
  apply (List.perm_ext_iff_of_nodup ?_ ?_).2
  · rintro ⟨a, b⟩
    rw [mem_map_swapPair, C09.overlapPairs_spec ref pred hlen.symm hbr' hbp a b,
      C09.overlapPairs_spec pred ref hlen hbp' hbr b a, overlaps_swap pred ref b a]
    constructor
    · rintro ⟨h1, h2, h3⟩; exact ⟨h2, h1, h3⟩
    · rintro ⟨h1, h2, h3⟩; exact ⟨h2, h1, h3⟩
  · exact C09.overlapPairs_nodup ref pred hlen.symm hbr' hbp
  · apply nodup_map_on _ _ _ (C09.overlapPairs_nodup pred ref hlen hbp' hbr)
    intro x _ y _ h
    have := congrArg swapPair h
    rwa [swapPair_swapPair, swapPair_swapPair] at this

theorem scoredCands_swap_bdd (m : Metric) (hm : m = .IOU ∨ m = .DSC) (s : List Nat) (pred ref : Flat)
    (hlen : pred.length = ref.length) (hb : ∀ x ∈ pred ++ ref, x < 2 ^ 32 - 1) :
    (scoredCands m ⟨s, ref⟩ ⟨s, pred⟩).Perm ((scoredCands m ⟨s, pred⟩ ⟨s, ref⟩).map swapCand) := by
  have hperm := overlapPairs_swap pred ref hlen hb
  have hR : (scoredCands m ⟨s, pred⟩ ⟨s, ref⟩).map swapCand =
      ((overlapPairs pred ref (labelsOf ref)).map swapPair).map
        (fun (x : Lab × Lab) =>
          ({ score := metricOn m ⟨s, ref⟩ ⟨s, pred⟩ x.1 [x.2], ref := x.1, pred := x.2 } : Cand Score)) := by
    unfold scoredCands
    rw [List.map_map, List.map_map]
    apply List.map_congr_left
    rintro ⟨r, p⟩ _
    simp only [Function.comp_apply, swapCand, swapPair]
    rw [metricOn_swap m hm s pred ref r p]
  rw [hR]
  exact hperm.map _

/-! ### the label map of the mirrored pair -/

theorem runMatcher_naive (mc : MatcherCfg) (m2o : Bool) (hk : mc.kind = .naive m2o) (pred ref : Arr) :
    runMatcher mc pred ref = .ok (naiveLoop Score.le mc.metric.decreasing mc.thr m2o
      (sortBest Score.le mc.metric.decreasing (scoredCands mc.metric pred ref))) := by
  unfold runMatcher
  rw [hk]
  exact C03.naive_total Score.le mc.metric.decreasing mc.thr m2o _

theorem runMatcher_swap_bdd (mc : MatcherCfg) (hk : mc.kind = .naive false)
    (hm : mc.metric = .IOU ∨ mc.metric = .DSC)
    (ht : ∃ q, mc.thr = .exact q) (s : List Nat) (pred ref : Flat) (hlen : pred.length = ref.length)
    (hb : ∀ x ∈ pred ++ ref, x < 2 ^ 32 - 1)
    (hdet : C03.Determined Score.le mc.metric.decreasing mc.thr (scoredCands mc.metric ⟨s, pred⟩ ⟨s, ref⟩))
    (lm lm' : LMap) (h : runMatcher mc ⟨s, pred⟩ ⟨s, ref⟩ = .ok lm)
    (h' : runMatcher mc ⟨s, ref⟩ ⟨s, pred⟩ = .ok lm') :
    ∀ p r, (p, r) ∈ lm ↔ (r, p) ∈ lm' := by
  rw [runMatcher_naive mc false hk] at h h'
  cases h
  cases h'
  apply naive_mirror mc.metric.decreasing mc.thr _ _ ?_ ht
    (scoredCands_swap_bdd mc.metric hm s pred ref hlen hb) hdet
  intro c hc
  rw [C01.scoredCands_score mc.metric _ _ c hc]
  exact metricOn_exact mc.metric hm _ _ _ _

/-! ### instance counts after one-to-one relabelling -/

theorem labelsOf_map_length (f : Lab → Lab) (a : Flat)
    (h0 : ∀ x ∈ a, (f x = 0 ↔ x = 0))
    (hinj : ∀ x ∈ labelsOf a, ∀ y ∈ labelsOf a, f x = f y → x = y) :
    (labelsOf (a.map f)).length = (labelsOf a).length := by
  have hperm : (labelsOf (a.map f)).Perm ((labelsOf a).map f) := by
    apply (List.perm_ext_iff_of_nodup (labelsOf_nodup _)
      (nodup_map_on f _ hinj (labelsOf_nodup a))).2
    intro x
    rw [mem_labelsOf, List.mem_map, List.mem_map]
    constructor
    · rintro ⟨⟨y, hy, rfl⟩, hx0⟩
      refine ⟨y, (mem_labelsOf a y).2 ⟨hy, ?_⟩, rfl⟩
      intro hy0
      exact hx0 ((h0 y hy).2 hy0)
    · rintro ⟨y, hy, rfl⟩
      obtain ⟨hya, hy0⟩ := (mem_labelsOf a y).1 hy
      exact ⟨⟨y, hya, rfl⟩, fun h => hy0 ((h0 y hya).1 h)⟩
  rw [hperm.length_eq, List.length_map]

theorem rf_length {lm : LMap} {pred ref : Flat} (hg : Values.Good lm pred ref)
    (hrefs : (lm.map (·.2)).Nodup) :
    (labelsOf (pred.map (Values.rf lm pred ref))).length = (labelsOf pred).length := by
  have hlm0 : ∀ e ∈ lm, e.2 ≠ 0 := fun e he => ((mem_labelsOf ref _).1 (hg.vals e he)).2
  apply labelsOf_map_length
  · intro x hx
    constructor
    · intro h
      refine Classical.byContradiction fun hx0 => ?_
      exact C04.foreground_kept lm (labelsOf ref) (labelsOf pred) hlm0 x
        ((mem_labelsOf pred x).2 ⟨hx, hx0⟩) h
    · intro h
      rw [h]; exact Values.rf_zero hg
  · intro x hx y hy h
    rcases (C04.partition_preserved lm (labelsOf ref) (labelsOf pred) (labelsOf_nodup pred)
      hg.vals x y hx hy).1 h with h | ⟨r, h1, h2⟩
    · exact h
    · have e1 := Values.lookup_some_mem lm x r h1
      have e2 := Values.lookup_some_mem lm y r h2
      have := inj_of_nodup_map (fun e : Lab × Lab => e.2) lm hrefs _ e1 _ e2 rfl
      exact congrArg Prod.fst this

theorem pipeline_nPred (cfg : Config) (bits : Nat) (s : List Nat) (pred ref : Flat) (mc : MatcherCfg)
    (hin : cfg.input = .UNMATCHED) (hm : cfg.matcher = some mc)
    (hlen : pred.length = ref.length) (hb : ∀ x ∈ pred ++ ref, x < 2 ^ 32 - 1)
    (hp : labelsOf pred ≠ []) (hr : labelsOf ref ≠ [])
    (out : PipeOut) (h : pipeline cfg bits ⟨s, pred⟩ ⟨s, ref⟩ = .ok out) :
    ∃ lm, runMatcher mc ⟨s, pred⟩ ⟨s, ref⟩ = .ok lm ∧
      out.nPred = (labelsOf (pred.map (Values.rf lm pred ref))).length := by
  obtain ⟨lm, hrun⟩ := Values.runMatcher_total mc ⟨s, pred⟩ ⟨s, ref⟩
  have hg : Values.Good lm pred ref := Values.runMatcher_good mc ⟨s, pred⟩ ⟨s, ref⟩ hlen hb lm hrun
  refine ⟨lm, hrun, ?_⟩
  have hn : ((labelsOf pred).length == 0 || (labelsOf ref).length == 0) = false := by
    cases h1 : labelsOf pred with
    | nil => exact absurd h1 hp
    | cons _ _ =>
      cases h2 : labelsOf ref with
      | nil => exact absurd h2 hr
      | cons _ _ => simp
  unfold pipeline at h
  rw [hin] at h
  change matchPhase cfg bits ⟨s, pred⟩ ⟨s, ref⟩ (labelsOf pred).length (labelsOf ref).length = _ at h
  rw [matchPhase_of_nonzero cfg bits ⟨s, pred⟩ ⟨s, ref⟩ _ _ mc lm hn hm hrun] at h
  change evalPhase cfg ⟨s, mapInstanceLabels bits pred (labelsOf ref) (labelsOf pred) lm⟩ ⟨s, ref⟩ _ _ = _ at h
  rw [C04.relabel_pointwise bits pred lm _ _ (Values.bounded_of_good hg hb)] at h
  change evalPhase cfg ⟨s, pred.map (Values.rf lm pred ref)⟩ ⟨s, ref⟩ (some lm)
    (some (pred.map (Values.rf lm pred ref))) = _ at h
  rw [evalPhase_of_nonzero cfg ⟨s, pred.map (Values.rf lm pred ref)⟩ ⟨s, ref⟩ _ _
    (Values.labelsOf_map_rf_ne_nil hg hp) hr] at h
  cases h
  rfl

theorem nPred_core (cfg : Config) (mc : MatcherCfg) (hin : cfg.input = .UNMATCHED) (hm : cfg.matcher = some mc)
    (hk : mc.kind = .naive false) (bits : Nat) (s : List Nat) (pred ref : Flat)
    (hlen : pred.length = ref.length) (hb : ∀ x ∈ pred ++ ref, x < 2 ^ 32 - 1)
    (hp : labelsOf pred ≠ []) (hr : labelsOf ref ≠ [])
    (out : PipeOut) (h : pipeline cfg bits ⟨s, pred⟩ ⟨s, ref⟩ = .ok out) :
    out.nPred = (labelsOf pred).length ∧ out.nRef = (labelsOf ref).length := by
  obtain ⟨lm, hrun, hn⟩ := pipeline_nPred cfg bits s pred ref mc hin hm hlen hb hp hr out h
  obtain ⟨lm2, hrun2, _, _, hnr, _⟩ := Values.pipeline_values cfg bits s pred ref mc hin hm hlen hb hp hr out h
  refine ⟨?_, hnr⟩
  have hg : Values.Good lm pred ref := Values.runMatcher_good mc ⟨s, pred⟩ ⟨s, ref⟩ hlen hb lm hrun
  rw [hn]
  apply rf_length hg
  rw [runMatcher_naive mc false hk] at hrun
  cases hrun
  exact C03.injective Score.le mc.metric.decreasing mc.thr _

/-! ### the per-instance lists -/

theorem predsOf_single (lm : LMap) (hrefs : (lm.map (·.2)).Nodup) (p r : Lab) (h : (p, r) ∈ lm) :
    lm.predsOf r = [p] := by
  induction lm with
  | nil => cases h
  | cons e l ih =>
    rw [List.map_cons, List.nodup_cons] at hrefs
    unfold LMap.predsOf at ih ⊢
    rcases List.mem_cons.1 h with h | h
    · subst h
      have hnone : l.filter (fun e => e.2 == r) = [] := by
        rw [List.filter_eq_nil_iff]
        intro e' he' heq
        apply hrefs.1
        have : e'.2 = r := by simpa using heq
        exact List.mem_map.2 ⟨e', he', this⟩
      rw [List.filter_cons]
      simp only [beq_self_eq_true, if_true, hnone, List.map_cons, List.map_nil]
    · have hne : (e.2 == r) = false := by
        rw [beq_eq_false_iff_ne]
        intro heq
        apply hrefs.1
        exact List.mem_map.2 ⟨(p, r), h, heq.symm⟩
      rw [List.filter_cons, hne]
      exact ih hrefs.2 h

theorem passing_mirror (s : List Nat) (pred ref : Flat) (lm lm' : LMap) (ms : List Metric)
    (hms : ∀ m ∈ ms, m = .IOU ∨ m = .DSC) (decision : Option (Metric × Score))
    (hg : Values.Good lm pred ref)
    (hrefs : (lm.map (·.2)).Nodup) (hrefs' : (lm'.map (·.2)).Nodup)
    (hsw : ∀ p r, (p, r) ∈ lm ↔ (r, p) ∈ lm') :
    ∃ g : Lab → Lab,
      ((((labelsOf pred).filter (fun p => lm'.containsRef p)).filter (fun p =>
          passesDecision Score.le decision (ms.map (fun m =>
            (m, metricOn m ⟨s, ref⟩ ⟨s, pred⟩ p (lm'.predsOf p)))))).Perm
        ((((labelsOf ref).filter (fun r => lm.containsRef r)).filter (fun r =>
          passesDecision Score.le decision (ms.map (fun m =>
            (m, metricOn m ⟨s, pred⟩ ⟨s, ref⟩ r (lm.predsOf r)))))).map g)) ∧
      ∀ r ∈ (((labelsOf ref).filter (fun r => lm.containsRef r)).filter (fun r =>
          passesDecision Score.le decision (ms.map (fun m =>
            (m, metricOn m ⟨s, pred⟩ ⟨s, ref⟩ r (lm.predsOf r)))))), ∀ m ∈ ms,
        metricOn m ⟨s, ref⟩ ⟨s, pred⟩ (g r) (lm'.predsOf (g r)) =
          metricOn m ⟨s, pred⟩ ⟨s, ref⟩ r (lm.predsOf r) := by
  let g : Lab → Lab := fun r => (lm.predsOf r).headD 0
  have K : ∀ p r, (p, r) ∈ lm → g r = p ∧ (∀ m ∈ ms,
      metricOn m ⟨s, ref⟩ ⟨s, pred⟩ p (lm'.predsOf p) =
        metricOn m ⟨s, pred⟩ ⟨s, ref⟩ r (lm.predsOf r)) := by
    intro p r h
    have h1 := predsOf_single lm hrefs p r h
    have h2 := predsOf_single lm' hrefs' r p ((hsw p r).1 h)
    refine ⟨by simp only [g, h1, List.headD_cons], ?_⟩
    intro m hm
    rw [h1, h2]
    exact metricOn_swap m (hms m hm) s pred ref r p
  have D : ∀ p r, (p, r) ∈ lm →
      ms.map (fun m => (m, metricOn m ⟨s, ref⟩ ⟨s, pred⟩ p (lm'.predsOf p))) =
        ms.map (fun m => (m, metricOn m ⟨s, pred⟩ ⟨s, ref⟩ r (lm.predsOf r))) := by
    intro p r h
    apply List.map_congr_left
    intro m hm
    rw [(K p r h).2 m hm]
  have hinj : ∀ x, lm.containsRef x = true → ∀ y, lm.containsRef y = true → g x = g y → x = y := by
    intro x hx y hy hxy
    obtain ⟨e, he, hex⟩ := (Values.containsRef_eq_true lm x).1 hx
    obtain ⟨e', he', hey⟩ := (Values.containsRef_eq_true lm y).1 hy
    have m1 : (e.1, x) ∈ lm := by rw [← hex]; exact he
    have m2 : (e'.1, y) ∈ lm := by rw [← hey]; exact he'
    have g1 := (K _ _ m1).1
    have g2 := (K _ _ m2).1
    have hk : e.1 = e'.1 := by rw [← g1, ← g2, hxy]
    exact hg.functional _ m1 _ m2 hk
  refine ⟨g, ?_, ?_⟩
  · apply (List.perm_ext_iff_of_nodup ?_ ?_).2
    · intro x
      simp only [List.mem_filter, List.mem_map, Values.containsRef_eq_true]
      constructor
      · rintro ⟨⟨hx, e, he, hex⟩, hpass⟩
        have hmem : (x, e.1) ∈ lm := (hsw x e.1).2 (by rw [← hex]; exact he)
        refine ⟨e.1, ⟨⟨hg.vals (x, e.1) hmem, (x, e.1), hmem, rfl⟩, ?_⟩, (K x e.1 hmem).1⟩
        rw [← D x e.1 hmem]; exact hpass
      · rintro ⟨r, ⟨⟨hr, e, he, her⟩, hpass⟩, rfl⟩
        have hmem : (e.1, r) ∈ lm := by rw [← her]; exact he
        rw [(K e.1 r hmem).1]
        refine ⟨⟨hg.keys (e.1, r) hmem, (r, e.1), (hsw e.1 r).1 hmem, rfl⟩, ?_⟩
        rw [D e.1 r hmem]; exact hpass
    · exact ((labelsOf_nodup pred).filter _).filter _
    · apply nodup_map_on _ _ _ (((labelsOf_nodup ref).filter _).filter _)
      intro x hx y hy
      exact hinj x (List.mem_filter.1 (List.mem_filter.1 hx).1).2 y
        (List.mem_filter.1 (List.mem_filter.1 hy).1).2
  · intro r hr m hm
    obtain ⟨e, he, her⟩ := (Values.containsRef_eq_true lm r).1
      (List.mem_filter.1 (List.mem_filter.1 hr).1).2
    have hmem : (e.1, r) ∈ lm := by rw [← her]; exact he
    rw [(K e.1 r hmem).1]
    exact (K e.1 r hmem).2 m hm

/-- end to end, with the configuration hypotheses unbundled -/
theorem pipeline_mirror_core (cfg : Config) (mc : MatcherCfg)
    (hin : cfg.input = .UNMATCHED) (hmat : cfg.matcher = some mc) (hk : mc.kind = .naive false)
    (hmm : mc.metric = .IOU ∨ mc.metric = .DSC) (ht : ∃ q, mc.thr = .exact q)
    (hms : ∀ m ∈ cfg.evalMetrics, m = .IOU ∨ m = .DSC)
    (bits : Nat) (s : List Nat)
    (pred ref : Flat) (hlen : pred.length = ref.length) (hb : ∀ x ∈ pred ++ ref, x < 2 ^ 32 - 1)
    (hp : labelsOf pred ≠ []) (hr : labelsOf ref ≠ [])
    (hdet : C03.Determined Score.le mc.metric.decreasing mc.thr (scoredCands mc.metric ⟨s, pred⟩ ⟨s, ref⟩))
    (out out' : PipeOut) (h : pipeline cfg bits ⟨s, pred⟩ ⟨s, ref⟩ = .ok out)
    (h' : pipeline cfg bits ⟨s, ref⟩ ⟨s, pred⟩ = .ok out') :
    out'.tp = out.tp ∧ out'.nRef = out.nPred ∧ out'.nPred = out.nRef ∧
    ∀ m ∈ cfg.evalMetrics, ∀ vals vals', (m, vals) ∈ out.lists → (m, vals') ∈ out'.lists → vals.Perm vals' := by
  have hb' := bounds_swap hb
  obtain ⟨lm, hrun, _, _, _, htp, hlists⟩ :=
    Values.pipeline_values cfg bits s pred ref mc hin hmat hlen hb hp hr out h
  obtain ⟨lm', hrun', _, _, _, htp', hlists'⟩ :=
    Values.pipeline_values cfg bits s ref pred mc hin hmat hlen.symm hb' hr hp out' h'
  obtain ⟨hnp, hnr⟩ := nPred_core cfg mc hin hmat hk bits s pred ref hlen hb hp hr out h
  obtain ⟨hnp', hnr'⟩ := nPred_core cfg mc hin hmat hk bits s ref pred hlen.symm hb' hr hp out' h'
  have hsw := runMatcher_swap_bdd mc hk hmm ht s pred ref hlen hb hdet lm lm' hrun hrun'
  have hg : Values.Good lm pred ref := Values.runMatcher_good mc ⟨s, pred⟩ ⟨s, ref⟩ hlen hb lm hrun
  have hrefs : (lm.map (·.2)).Nodup := by
    rw [runMatcher_naive mc false hk] at hrun
    cases hrun
    exact C03.injective Score.le mc.metric.decreasing mc.thr _
  have hrefs' : (lm'.map (·.2)).Nodup := by
    rw [runMatcher_naive mc false hk] at hrun'
    cases hrun'
    exact C03.injective Score.le mc.metric.decreasing mc.thr _
  obtain ⟨g, hperm, hscore⟩ := passing_mirror s pred ref lm lm' cfg.evalMetrics hms cfg.decision
    hg hrefs hrefs' hsw
  refine ⟨?_, ?_, ?_, ?_⟩
  · rw [htp, htp', hperm.length_eq, List.length_map]
  · rw [hnr', hnp]
  · rw [hnp', hnr]
  · intro m hm vals vals' hv hv'
    rw [hlists] at hv
    rw [hlists'] at hv'
    obtain ⟨m1, _, heq1⟩ := List.mem_map.1 hv
    obtain ⟨m2, _, heq2⟩ := List.mem_map.1 hv'
    simp only [Prod.mk.injEq] at heq1 heq2
    obtain ⟨rfl, rfl⟩ := heq1
    obtain ⟨rfl, rfl⟩ := heq2
    refine ((hperm.map _).trans ?_).symm
    rw [List.map_map]
    apply List.Perm.of_eq
    apply List.map_congr_left
    intro r hr'
    exact hscore r hr' _ hm

end Mirror
end Panoptica
