/-
  Helper lemmas for Properties/C11Semantic.lean.
-/
import Panoptica.Proofs.Mirror
import Panoptica.Proofs.SemanticE2E
namespace Panoptica
namespace MirrorSemantic
open Panoptica.Mirror Panoptica.SemanticE2E

/-- `Mirror.pipeline_mirror_core` with independent integer widths for the two directions (the result for
    unmatched input within the label bound does not depend on the width) -/
theorem pipeline_mirror_bits (cfg : Config) (mc : MatcherCfg)
    (hin : cfg.input = .UNMATCHED) (hmat : cfg.matcher = some mc) (hk : mc.kind = .naive false)
    (hmm : mc.metric = .IOU ∨ mc.metric = .DSC) (ht : ∃ q, mc.thr = .exact q)
    (hms : ∀ m ∈ cfg.evalMetrics, m = .IOU ∨ m = .DSC)
    (bits bits₂ : Nat) (s : List Nat)
    (pred ref : Flat) (hlen : pred.length = ref.length) (hb : ∀ x ∈ pred ++ ref, x < 2 ^ 32 - 1)
    (hp : labelsOf pred ≠ []) (hr : labelsOf ref ≠ [])
    (hdet : C03.Determined Score.le mc.metric.decreasing mc.thr (scoredCands mc.metric ⟨s, pred⟩ ⟨s, ref⟩))
    (out out' : PipeOut) (h : pipeline cfg bits ⟨s, pred⟩ ⟨s, ref⟩ = .ok out)
    (h' : pipeline cfg bits₂ ⟨s, ref⟩ ⟨s, pred⟩ = .ok out') :
    out'.tp = out.tp ∧ out'.nRef = out.nPred ∧ out'.nPred = out.nRef ∧
    ∀ m ∈ cfg.evalMetrics, ∀ vals vals', (m, vals) ∈ out.lists → (m, vals') ∈ out'.lists → vals.Perm vals' := by
  have hb' := bounds_swap hb
  obtain ⟨lm, hrun, _, _, _, htp, hlists⟩ :=
    Values.pipeline_values cfg bits s pred ref mc hin hmat hlen hb hp hr out h
  obtain ⟨lm', hrun', _, _, _, htp', hlists'⟩ :=
    Values.pipeline_values cfg bits₂ s ref pred mc hin hmat hlen.symm hb' hr hp out' h'
  obtain ⟨hnp, hnr⟩ := nPred_core cfg mc hin hmat hk bits s pred ref hlen hb hp hr out h
  obtain ⟨hnp', hnr'⟩ := nPred_core cfg mc hin hmat hk bits₂ s ref pred hlen.symm hb' hr hp out' h'
  have hsw := runMatcher_swap_bdd mc hk hmm ht s pred ref hlen hb hdet lm lm' hrun hrun'
  have hg : Values.Good lm pred ref := Values.runMatcher_good mc ⟨s, pred⟩ ⟨s, ref⟩ hlen hb lm hrun
  have hrefs : (lm.map (·.2)).Nodup := by
    rw [runMatcher_naive mc false hk] at hrun
    cases hrun
    exact C03.injective Score.le mc.metric.decreasing mc.thr _
  have hrefs' : (lm'.map (·.2)).Nodup := by
    rw [runMatcher_naive mc false hk] at hrun'
    cases hrun'
    exact C03.injective Score.le mc.metric.decreasing mc.thr _
  obtain ⟨g, hperm, hscore⟩ := passing_mirror s pred ref lm lm' cfg.evalMetrics hms cfg.decision
    hg hrefs hrefs' hsw
  refine ⟨?_, ?_, ?_, ?_⟩
  · rw [htp, htp', hperm.length_eq, List.length_map]
  · rw [hnr', hnp]
  · rw [hnp', hnr]
  · intro m hm vals vals' hv hv'
    rw [hlists] at hv
    rw [hlists'] at hv'
    obtain ⟨m1, _, heq1⟩ := List.mem_map.1 hv
    obtain ⟨m2, _, heq2⟩ := List.mem_map.1 hv'
    simp only [Prod.mk.injEq] at heq1 heq2
    obtain ⟨rfl, rfl⟩ := heq1
    obtain ⟨rfl, rfl⟩ := heq2
    refine ((hperm.map _).trans ?_).symm
    rw [List.map_map]
    apply List.Perm.of_eq
    apply List.map_congr_left
    intro r hr'
    exact hscore r hr' _ hm

/-- semantic input, end to end, with the configuration hypotheses unbundled -/
theorem pipeline_mirror_semantic_core (cfg : Config) (mc : MatcherCfg) (hin : cfg.input = .SEMANTIC)
    (hmat : cfg.matcher = some mc) (hk : mc.kind = .naive false)
    (hmm : mc.metric = .IOU ∨ mc.metric = .DSC) (ht : ∃ q, mc.thr = .exact q)
    (hms : ∀ m ∈ cfg.evalMetrics, m = .IOU ∨ m = .DSC)
    (bits bits₂ : Nat) (pred ref : Arr) (b : Backend)
    (hb : cfg.backend.getD (defaultBackend pred.shape.length) = b)
    (hs : ref.shape = pred.shape)
    (hwp : pred.data.length = shapeSize pred.shape) (hwr : ref.data.length = shapeSize ref.shape)
    (hbndP : ccCount (backendAdj b) pred.fg < 2 ^ 32 - 1)
    (hbndR : ccCount (backendAdj b) ref.fg < 2 ^ 32 - 1)
    (hdet : C03.Determined Score.le mc.metric.decreasing mc.thr
      (scoredCands mc.metric (connectedComponents b pred).1 (connectedComponents b ref).1))
    (out out' : PipeOut) (h : pipeline cfg bits pred ref = .ok out) (h' : pipeline cfg bits₂ ref pred = .ok out') :
    out'.tp = out.tp ∧ out'.nRef = out.nPred ∧ out'.nPred = out.nRef ∧
    ∀ m ∈ cfg.evalMetrics, ∀ vals vals', (m, vals) ∈ out.lists → (m, vals') ∈ out'.lists → vals.Perm vals' := by
  have hb2 : cfg.backend.getD (defaultBackend ref.shape.length) = b := by rw [hs]; exact hb
  rw [pipeline_semantic cfg bits pred ref hin, hb] at h
  rw [pipeline_semantic cfg bits₂ ref pred hin, hb2] at h'
  by_cases h0 : (semPart b pred).2 = 0 ∨ (semPart b ref).2 = 0
  · rw [matchPhase_zero _ _ _ _ _ _ h0] at h
    rw [matchPhase_zero _ _ _ _ _ _ h0.symm] at h'
    cases h
    cases h'
    refine ⟨rfl, rfl, rfl, ?_⟩
    intro m _ vals vals' hv hv'
    obtain ⟨_, _, e1⟩ := List.mem_map.1 hv
    obtain ⟨_, _, e2⟩ := List.mem_map.1 hv'
    rw [← (Prod.mk.inj e1).2, ← (Prod.mk.inj e2).2]
  · have hp0 : ccCount (backendAdj b) pred.fg ≠ 0 := by
      intro hz; apply h0; left; rw [semPart_count]; exact hz
    have hr0 : ccCount (backendAdj b) ref.fg ≠ 0 := by
      intro hz; apply h0; right; rw [semPart_count]; exact hz
    rw [semPart_arr b pred hp0, semPart_arr b ref hr0, semPart_count, semPart_count,
      ← labelsOf_cc_length b pred, ← labelsOf_cc_length b ref, matchPhase_eq_unmatched] at h
    rw [semPart_arr b pred hp0, semPart_arr b ref hr0, semPart_count, semPart_count,
      ← labelsOf_cc_length b pred, ← labelsOf_cc_length b ref, matchPhase_eq_unmatched] at h'
    generalize smallestUintBits _ = bitsA at h
    generalize smallestUintBits _ = bitsB at h'
    have eP : (connectedComponents b pred).1 = ⟨pred.shape, (connectedComponents b pred).1.data⟩ := rfl
    have eR : (connectedComponents b ref).1 = ⟨pred.shape, (connectedComponents b ref).1.data⟩ := by
      rw [← hs]; rfl
    rw [eR] at hdet h h'
    rw [eP] at hdet h h'
    have hlen : (connectedComponents b pred).1.data.length = (connectedComponents b ref).1.data.length := by
      rw [cc_data_length b pred hwp, cc_data_length b ref hwr, hs]
    exact pipeline_mirror_bits { cfg with input := .UNMATCHED } mc rfl hmat hk hmm ht hms bitsA bitsB pred.shape
      (connectedComponents b pred).1.data (connectedComponents b ref).1.data hlen
      (by
        intro x hx
        rcases List.mem_append.1 hx with hx | hx
        · exact Nat.lt_of_le_of_lt (cc_data_le b pred x hx) hbndP
        · exact Nat.lt_of_le_of_lt (cc_data_le b ref x hx) hbndR)
      (by
        intro hnil
        apply hp0
        rw [← labelsOf_cc_length b pred, hnil]; rfl)
      (by
        intro hnil
        apply hr0
        rw [← labelsOf_cc_length b ref, hnil]; rfl)
      hdet out out' h h'

end MirrorSemantic
end Panoptica
