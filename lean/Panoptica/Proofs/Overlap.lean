/- helper lemmas for C09 / C11 (pair encoding, overlap counts under relabelling and role exchange) -/
import Panoptica.Proofs.Basic
import Panoptica.Proofs.Matching
import Panoptica.Proofs.Metrics
import Panoptica.Model.Overlap
namespace Panoptica

/-! ### arithmetic of the pair encoding -/

theorem twoPow64_eq : twoPow64 = 2 ^ 64 := by decide

theorem encode_lt (m p r : Nat) (hm : m ≤ 2 ^ 32) (hp : p < 2 ^ 32) (hr : r < m) :
    p * m + r < 2 ^ 64 := by
  have h1 : p * m + r < (p + 1) * m := by rw [Nat.succ_mul]; omega
  have h2 : (p + 1) * m ≤ 2 ^ 32 * 2 ^ 32 := Nat.mul_le_mul (by omega) hm
  have h3 : (2 : Nat) ^ 32 * 2 ^ 32 = 2 ^ 64 := by decide
  omega

theorem encode_mod (m p r : Nat) (hr : r < m) : (p * m + r) % m = r := by
  rw [Nat.add_comm, Nat.add_mul_mod_self_right, Nat.mod_eq_of_lt hr]

theorem encode_div (m p r : Nat) (hr : r < m) : (p * m + r) / m = p := by
  have hm : 0 < m := by omega
  rw [Nat.add_comm, Nat.add_mul_div_right _ _ hm, Nat.div_eq_of_lt hr, Nat.zero_add]

/-- the 64-bit code is the exact integer `p * m + r` -/
theorem encode_exact (m p r : Nat) (hm : m ≤ 2 ^ 32) (hp : p < 2 ^ 32) (hr : r < m) :
    ((p % twoPow64) * m + r) % twoPow64 = p * m + r := by
  rw [twoPow64_eq]
  have h := encode_lt m p r hm hp hr
  have hp' : p % 2 ^ 64 = p := Nat.mod_eq_of_lt (by omega)
  rw [hp', Nat.mod_eq_of_lt h]

theorem encode_inj (m p p' r r' : Nat) (hr : r < m) (hr' : r' < m)
    (h : p * m + r = p' * m + r') : p = p' ∧ r = r' := by
  have h1 := encode_mod m p r hr
  have h2 := encode_mod m p' r' hr'
  have h3 := encode_div m p r hr
  have h4 := encode_div m p' r' hr'
  rw [h] at h1 h3
  exact ⟨by rw [← h3, h4], by rw [← h1, h2]⟩

theorem decode_inj (m c c' : Nat) (h : (c % m, c / m) = (c' % m, c' / m)) : c = c' := by
  have h1 : c % m = c' % m := congrArg Prod.fst h
  have h2 : c / m = c' / m := congrArg Prod.snd h
  rw [← Nat.div_add_mod c m, ← Nat.div_add_mod c' m, h1, h2]

/-! ### the encoded array and the specification as statements about `zip` -/

theorem encodeArr_eq (M m : Nat) (pred ref : Flat) :
    encodeArr M m pred ref =
      (pred.zip ref).map (fun e => if e.2 == 0 then 0 else ((e.1 % M) * m + e.2) % M) := by
  induction pred generalizing ref with
  | nil => simp [encodeArr]
  | cons p ps ih =>
    cases ref with
    | nil => simp [encodeArr]
    | cons r rs => simp [encodeArr, ih rs]

theorem overlaps_iff (pred ref : Flat) (r0 p0 : Lab) :
    overlaps pred ref r0 p0 = true ↔ (p0, r0) ∈ pred.zip ref := by
  induction pred generalizing ref with
  | nil => simp [overlaps]
  | cons p ps ih =>
    cases ref with
    | nil => simp [overlaps]
    | cons r rs =>
      simp only [overlaps, Bool.or_eq_true, Bool.and_eq_true, beq_iff_eq, ih rs, List.zip_cons_cons,
        List.mem_cons, Prod.mk.injEq]
      constructor
      · rintro (⟨h1, h2⟩ | h)
        · exact .inl ⟨h1.symm, h2.symm⟩
        · exact .inr h
      · rintro (⟨h1, h2⟩ | h)
        · exact .inl ⟨h1.symm, h2.symm⟩
        · exact .inr h

theorem maxRef_bound (ref : Flat) (hr : ∀ x ∈ ref, x < 2 ^ 32 - 1) :
    maxOf (labelsOf ref) + 1 ≤ 2 ^ 32 := by
  have := maxOf_lt (labelsOf ref) (2 ^ 32 - 1) (by decide)
    (fun x hx => hr x ((mem_labelsOf ref x).1 hx).1)
  omega

theorem lt_maxRef (ref : Flat) (r : Lab) (hr : r ∈ ref) (h0 : r ≠ 0) :
    r < maxOf (labelsOf ref) + 1 := by
  exact Nat.lt_succ_of_le (le_maxOf (labelsOf ref) r ((mem_labelsOf ref r).2 ⟨hr, h0⟩))

theorem mem_overlapPairs (pred ref : Flat)
    (hp : ∀ x ∈ pred, x < 2 ^ 32) (hr : ∀ x ∈ ref, x < 2 ^ 32 - 1) (r p : Lab) :
    (r, p) ∈ overlapPairs pred ref (labelsOf ref) ↔
      (r ≠ 0 ∧ p ≠ 0 ∧ (p, r) ∈ pred.zip ref) := by
  have hm := maxRef_bound ref hr
  simp only [overlapPairs, overlapPairsM, List.mem_map, List.mem_filter, mem_uniqueSorted,
    encodeArr_eq, decide_eq_true_eq, Prod.mk.injEq, Prod.exists]
  generalize hM : maxOf (labelsOf ref) + 1 = m at hm
  constructor
  · rintro ⟨c, ⟨⟨p', r', hmem, hc⟩, hgt⟩, hmod, hdiv⟩
    have hp' := hp p' (List.of_mem_zip hmem).1
    have hr'mem := (List.of_mem_zip hmem).2
    by_cases h0 : r' = 0
    · simp only [h0, beq_self_eq_true, if_true] at hc
      omega
    · have hlt : r' < m := by rw [← hM]; exact lt_maxRef ref r' hr'mem h0
      have hb : (r' == 0) = false := by simpa using h0
      simp only [hb, Bool.false_eq_true, if_false] at hc
      rw [encode_exact m p' r' hm hp' hlt] at hc
      subst hc
      rw [encode_mod m p' r' hlt] at hmod
      rw [encode_div m p' r' hlt] at hdiv
      subst hmod hdiv
      refine ⟨h0, ?_, hmem⟩
      intro hp0
      rw [hp0, Nat.zero_mul, Nat.zero_add] at hgt
      exact absurd hlt (Nat.lt_asymm hgt)
  · rintro ⟨hr0, hp0, hmem⟩
    have hp' := hp p (List.of_mem_zip hmem).1
    have hlt : r < m := by rw [← hM]; exact lt_maxRef ref r (List.of_mem_zip hmem).2 hr0
    refine ⟨p * m + r, ⟨⟨p, r, hmem, ?_⟩, ?_⟩, encode_mod m p r hlt, encode_div m p r hlt⟩
    · have hb : (r == 0) = false := by simpa using hr0
      simp only [hb, Bool.false_eq_true, if_false]
      rw [encode_exact m p r hm hp' hlt]
    · have h1 : m ≤ p * m := Nat.le_mul_of_pos_left m (Nat.pos_of_ne_zero hp0)
      have h2 : 0 < r := Nat.pos_of_ne_zero hr0
      exact Nat.lt_of_lt_of_le (Nat.lt_add_of_pos_right h2) (Nat.add_le_add_right h1 r)

theorem overlapPairsM_nodup (M : Nat) (pred ref : Flat) (refLabels : List Lab) :
    (overlapPairsM M pred ref refLabels).Nodup := by
  unfold overlapPairsM
  apply List.Nodup.map_on
  · intro x _ y _ h
    exact decode_inj _ x y h
  · exact (uniqueSorted_nodup _).filter _

/-! ### counts under relabelling / role exchange -/

theorem ovCount_swap' (pred ref : Flat) (r p : Lab) :
    ovCount ref pred p r = ovCount pred ref r p := by
  induction pred generalizing ref with
  | nil => cases ref <;> simp [ovCount]
  | cons x xs ih =>
    cases ref with
    | nil => simp [ovCount]
    | cons y ys => simp only [ovCount, ih ys, Bool.and_comm]

theorem overlaps_swap' (pred ref : Flat) (r p : Lab) :
    overlaps ref pred p r = overlaps pred ref r p := by
  induction pred generalizing ref with
  | nil => cases ref <;> simp [overlaps]
  | cons x xs ih =>
    cases ref with
    | nil => simp [overlaps]
    | cons y ys => simp only [overlaps, ih ys, Bool.and_comm]

theorem ovCount_map (σ τ : Lab → Lab) (pred ref : Flat) (r p : Lab)
    (hσ : ∀ a ∈ pred, σ a = σ p → a = p) (hτ : ∀ b ∈ ref, τ b = τ r → b = r) :
    ovCount (pred.map σ) (ref.map τ) (τ r) (σ p) = ovCount pred ref r p := by
  induction pred generalizing ref with
  | nil => simp [ovCount]
  | cons x xs ih =>
    cases ref with
    | nil => simp [ovCount]
    | cons y ys =>
      have ih' := ih ys (fun a ha => hσ a (List.mem_cons_of_mem _ ha))
        (fun b hb => hτ b (List.mem_cons_of_mem _ hb))
      have h1 : (σ x == σ p) = (x == p) := by
        have := hσ x (List.mem_cons_self ..)
        by_cases h : x = p
        · simp [h]
        · have h' : σ x ≠ σ p := fun e => h (this e)
          simp [h, h']
      have h2 : (τ y == τ r) = (y == r) := by
        have := hτ y (List.mem_cons_self ..)
        by_cases h : y = r
        · simp [h]
        · have h' : τ y ≠ τ r := fun e => h (this e)
          simp [h, h']
      simp only [List.map_cons, ovCount, h1, h2, ih']

theorem cnt_map (σ : Lab → Lab) (a : Flat) (l : Lab) (hσ : ∀ x ∈ a, σ x = σ l → x = l) :
    cnt (a.map σ) (σ l) = cnt a l := by
  unfold cnt
  induction a with
  | nil => rfl
  | cons x xs ih =>
    have ih' := ih (fun a ha => hσ a (List.mem_cons_of_mem _ ha))
    have h1 : (σ x == σ l) = (x == l) := by
      have := hσ x (List.mem_cons_self ..)
      by_cases h : x = l
      · simp [h]
      · have h' : σ x ≠ σ l := fun e => h (this e)
        simp [h, h']
    simp only [List.map_cons, List.filter_cons, h1]
    split <;> simp [ih']

/-! ### matcher under relabelling -/

section
variable {S : Type} (le : S → S → Bool) (dec : Bool) (thr : S) (m2o : Bool)

theorem containsPred_map (f : Lab × Lab → Lab × Lab) (σ : Lab → Lab) (m : LMap) (p : Lab)
    (hf : ∀ e, (f e).1 = σ e.1) (hσ : ∀ e ∈ m, σ e.1 = σ p → e.1 = p) :
    LMap.containsPred (m.map f) (σ p) = LMap.containsPred m p := by
  rw [Bool.eq_iff_iff, LMap.containsPred_iff, LMap.containsPred_iff]
  constructor
  · rintro ⟨e, he, h⟩
    obtain ⟨e', he', rfl⟩ := List.mem_map.1 he
    rw [hf] at h
    exact ⟨e', he', hσ e' he' h⟩
  · rintro ⟨e, he, h⟩
    exact ⟨f e, List.mem_map_of_mem he, by rw [hf, h]⟩

theorem containsRef_map (f : Lab × Lab → Lab × Lab) (τ : Lab → Lab) (m : LMap) (r : Lab)
    (hf : ∀ e, (f e).2 = τ e.2) (hτ : ∀ e ∈ m, τ e.2 = τ r → e.2 = r) :
    LMap.containsRef (m.map f) (τ r) = LMap.containsRef m r := by
  rw [Bool.eq_iff_iff, LMap.containsRef_iff, LMap.containsRef_iff]
  constructor
  · rintro ⟨e, he, h⟩
    obtain ⟨e', he', rfl⟩ := List.mem_map.1 he
    rw [hf] at h
    exact ⟨e', he', hτ e' he' h⟩
  · rintro ⟨e, he, h⟩
    exact ⟨f e, List.mem_map_of_mem he, by rw [hf, h]⟩

/-- relabelling of the candidates, general accumulator; `P`/`Q` are the label sets on which the
    relabellings are injective -/
theorem naiveFold_relabel (σ τ : Lab → Lab) (P Q : Lab → Prop)
    (hσ : ∀ a b, P a → P b → σ a = σ b → a = b) (hτ : ∀ a b, Q a → Q b → τ a = τ b → a = b)
    (cs : List (Cand S)) (hcs : ∀ c ∈ cs, P c.pred ∧ Q c.ref)
    (m : LMap) (hm : ∀ e ∈ m, P e.1 ∧ Q e.2) :
    (cs.map (fun c => { c with ref := τ c.ref, pred := σ c.pred })).foldl
        (naiveStep le dec thr m2o) (m.map (fun e => (σ e.1, τ e.2))) =
      (cs.foldl (naiveStep le dec thr m2o) m).map (fun e => (σ e.1, τ e.2)) := by
  induction cs generalizing m with
  | nil => rfl
  | cons c cs ih =>
    have hc := hcs c (List.mem_cons_self ..)
    have hstep : naiveStep le dec thr m2o (m.map (fun e => (σ e.1, τ e.2)))
          { c with ref := τ c.ref, pred := σ c.pred } =
        (naiveStep le dec thr m2o m c).map (fun e => (σ e.1, τ e.2)) := by
      have h1 := containsPred_map (fun e => (σ e.1, τ e.2)) σ m c.pred (fun _ => rfl)
        (fun e he h => hσ _ _ (hm e he).1 hc.1 h)
      have h2 := containsRef_map (fun e => (σ e.1, τ e.2)) τ m c.ref (fun _ => rfl)
        (fun e he h => hτ _ _ (hm e he).2 hc.2 h)
      simp only [naiveStep, naiveSkip, h1, h2]
      by_cases hsk : (m.containsPred c.pred || m.containsRef c.ref && !m2o) = true <;>
        by_cases hbt : beats le dec c.score thr = true <;>
        simp only [hsk, hbt, Bool.false_eq_true, if_true, if_false, List.map_append, List.map_cons, List.map_nil]
    rw [List.map_cons, List.foldl_cons, List.foldl_cons, hstep]
    apply ih (fun c' hc' => hcs c' (List.mem_cons_of_mem _ hc'))
    intro e he
    rcases naiveStep_cases le dec thr m2o m c with ⟨h, _⟩ | ⟨h, _⟩ <;> rw [h] at he
    · exact hm e he
    · rcases List.mem_append.1 he with he | he
      · exact hm e he
      · rw [List.mem_singleton] at he
        subst he
        exact hc

/-- role exchange, general accumulator (one-to-one matching) -/
theorem naiveFold_swap (cs : List (Cand S)) (m : LMap) :
    (cs.map (fun c => { c with ref := c.pred, pred := c.ref })).foldl
        (naiveStep le dec thr false) (m.map (fun e => (e.2, e.1))) =
      (cs.foldl (naiveStep le dec thr false) m).map (fun e => (e.2, e.1)) := by
  induction cs generalizing m with
  | nil => rfl
  | cons c cs ih =>
    have hstep : naiveStep le dec thr false (m.map (fun e => (e.2, e.1)))
          { c with ref := c.pred, pred := c.ref } =
        (naiveStep le dec thr false m c).map (fun e => (e.2, e.1)) := by
      have h1 : LMap.containsPred (m.map (fun e => (e.2, e.1))) c.ref = LMap.containsRef m c.ref := by
        simp [LMap.containsPred, LMap.containsRef, List.any_map, Function.comp_def]
      have h2 : LMap.containsRef (m.map (fun e => (e.2, e.1))) c.pred = LMap.containsPred m c.pred := by
        simp [LMap.containsPred, LMap.containsRef, List.any_map, Function.comp_def]
      simp only [naiveStep, naiveSkip, h1, h2, Bool.not_false, Bool.and_true]
      rw [Bool.or_comm]
      by_cases hsk : (m.containsPred c.pred || m.containsRef c.ref) = true <;>
        by_cases hbt : beats le dec c.score thr = true <;>
        simp only [hsk, hbt, Bool.false_eq_true, if_true, if_false, List.map_append, List.map_cons, List.map_nil]
    rw [List.map_cons, List.foldl_cons, List.foldl_cons, hstep]
    exact ih _
end

/-! ### RVD under role exchange -/

theorem rvd_swap' (X Y : Flat) (q : Rat) (hx : sumVals X ≠ 0) (hy : sumVals Y ≠ 0)
    (h : rvd X Y = .ok q) : rvd Y X = .ok (-q / (1 + q)) := by
  simp only [rvd] at h ⊢
  have hxb : (sumVals X == 0) = false := by simpa using hx
  have hyb : (sumVals Y == 0) = false := by simpa using hy
  simp only [hxb, hyb, Bool.false_and, Bool.false_eq_true, if_false, Except.ok.injEq] at h ⊢
  subst h
  have hxq : ((sumVals X : Nat) : Rat) ≠ 0 := by exact_mod_cast hx
  have hyq : ((sumVals Y : Nat) : Rat) ≠ 0 := by exact_mod_cast hy
  push_cast
  have h1 : (1 : Rat) + ((sumVals Y : Rat) - (sumVals X : Rat)) / (sumVals X : Rat)
      = (sumVals Y : Rat) / (sumVals X : Rat) := by
    field_simp
    ring
  rw [h1]
  field_simp
  ring

end Panoptica
