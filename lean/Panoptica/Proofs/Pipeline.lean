/- helper lemmas for C01 (composition of the pipeline stages) -/
import Panoptica.Proofs.Basic
import Panoptica.Proofs.Matching
import Panoptica.Proofs.Overlap
import Panoptica.Proofs.Result
import Panoptica.Model.Pipeline
namespace Panoptica

/-- every evaluated metric is found in a dictionary built by mapping over the metric list -/
theorem find?_map_key_isSome {V : Type} (f : Metric → V) (ms : List Metric) (m : Metric) (hm : m ∈ ms) :
    ((ms.map (fun m => (m, f m))).find? (fun e => e.1 == m)).isSome = true := by
  rw [List.find?_isSome]
  exact ⟨(m, f m), List.mem_map.2 ⟨m, hm, rfl⟩, by simp⟩

theorem evaluateInstance_full (ms : List Metric) (pred ref : Arr) (l : Lab) (m : Metric) (hm : m ∈ ms) :
    ((evaluateInstance ms pred ref l).find? (fun e => e.1 == m)).isSome = true :=
  find?_map_key_isSome _ ms m hm

theorem length_eq_zero_beq (l : List Lab) : (l.length == 0) = true ↔ l = [] := by
  cases l <;> simp

/-- the zero branch of `evalPhase` -/
theorem evalPhase_of_zero (cfg : Config) (pred ref : Arr) (lm : Option LMap) (mp : Option Flat)
    (h0 : labelsOf pred.data = [] ∨ labelsOf ref.data = []) :
    evalPhase cfg pred ref lm mp =
      .ok { nRef := (labelsOf ref.data).length, nPred := (labelsOf pred.data).length, tp := 0,
            lists := cfg.evalMetrics.map (fun m => (m, [])), matchedPred := mp, lmap := lm } := by
  unfold evalPhase
  have : ((labelsOf pred.data).length == 0 || (labelsOf ref.data).length == 0) = true := by
    rcases h0 with h | h <;> simp [h]
  simp only [this, if_true]

/-- the evaluating branch of `evalPhase` -/
theorem evalPhase_of_nonzero (cfg : Config) (pred ref : Arr) (lm : Option LMap) (mp : Option Flat)
    (hp : labelsOf pred.data ≠ []) (hr : labelsOf ref.data ≠ []) :
    evalPhase cfg pred ref lm mp =
      .ok { nRef := (labelsOf ref.data).length, nPred := (labelsOf pred.data).length,
            tp := (evalMatched Score.le cfg.evalMetrics cfg.decision
                    ((matchedInstances pred.data ref.data).map (evaluateInstance cfg.evalMetrics pred ref))).1,
            lists := (evalMatched Score.le cfg.evalMetrics cfg.decision
                    ((matchedInstances pred.data ref.data).map (evaluateInstance cfg.evalMetrics pred ref))).2,
            matchedPred := mp, lmap := lm } := by
  unfold evalPhase
  have : ((labelsOf pred.data).length == 0 || (labelsOf ref.data).length == 0) = false := by
    cases h1 : labelsOf pred.data with
    | nil => exact absurd h1 hp
    | cons _ _ =>
      cases h2 : labelsOf ref.data with
      | nil => exact absurd h2 hr
      | cons _ _ => simp
  simp only [this]
  rfl

/-- the matching branch of `matchPhase` -/
theorem matchPhase_of_nonzero (cfg : Config) (bits : Nat) (pred ref : Arr) (nPred nRef : Nat) (mc : MatcherCfg)
    (lm : LMap) (hn : (nPred == 0 || nRef == 0) = false) (hm : cfg.matcher = some mc)
    (hrun : runMatcher mc pred ref = .ok lm) :
    matchPhase cfg bits pred ref nPred nRef =
      evalPhase cfg { shape := pred.shape,
                      data := mapInstanceLabels bits pred.data (labelsOf ref.data) (labelsOf pred.data) lm }
        ref (some lm)
        (some (mapInstanceLabels bits pred.data (labelsOf ref.data) (labelsOf pred.data) lm)) := by
  unfold matchPhase
  simp only [hn, hm, hrun]
  rfl

end Panoptica
