/- helper lemmas for C15 (heap machine invariants) -/
import Panoptica.Model.Purity
namespace Panoptica.Pure

/-- every aggregator key list exists -/
def AggOk (w : World) : Prop := ∀ l : Nat, l ∈ w.aggKeys → l < w.heap.length

/-- the inductive well-formedness invariant: aggregator key lists exist (unconditionally), every
    cached location exists, is not an aggregator's list and is private to its evaluator -/
def WFs (w : World) : Prop :=
  AggOk w ∧ ∀ (e : Nat) (ev : Evaluator) (c : Nat), w.evals[e]? = some ev → ev.cache = some c →
    c < w.heap.length ∧ c ∉ w.aggKeys ∧
    ∀ (e' : Nat) (ev' : Evaluator), w.evals[e']? = some ev' → ev'.cache = some c → e' = e

abbrev rk (ev : Evaluator) : List String := resultKeys ev.cfg.evalMetrics ev.cfg.globalMetrics

/-- the three possible behaviours of the fixed `resulting_metric_keys` -/
theorem getKeys_true_cases (w : World) (e : Nat) :
    (w.evals[e]? = none ∧ getKeys true w e = none) ∨
    (∃ ev c, w.evals[e]? = some ev ∧ ev.cache = some c ∧
      getKeys true w e = some ({ w with heap := w.heap ++ [w.heap.getD c []] }, w.heap.length)) ∨
    (∃ ev, w.evals[e]? = some ev ∧ ev.cache = none ∧
      getKeys true w e = some ({ w with heap := w.heap ++ [rk ev, rk ev],
                                        evals := w.evals.set e { ev with cache := some w.heap.length } },
                               w.heap.length + 1)) := by
  unfold getKeys
  cases h : w.evals[e]? with
  | none => simp
  | some ev =>
    cases hc : ev.cache with
    | none => simp [alloc, hc]
    | some c => simp [alloc, hc]


/-! ### shapes of the successor world -/

theorem advertised_cached {w : World} {e : Nat} {ev : Evaluator} {c : Loc}
    (h : w.evals[e]? = some ev) (hc : ev.cache = some c) :
    advertised w e = some (w.heap.getD c []) := by
  simp [advertised, h, hc]

theorem advertised_uncached {w : World} {e : Nat} {ev : Evaluator}
    (h : w.evals[e]? = some ev) (hc : ev.cache = none) :
    advertised w e = some (rk ev) := by
  simp [advertised, h, hc]

theorem advertised_none {w : World} {e : Nat} (h : w.evals[e]? = none) :
    advertised w e = none := by
  simp [advertised, h]

/-- growing the heap at the end (and registering fresh locations as aggregator lists) -/
theorem WFs_grow {w : World} (hw : WFs w) (ext : List (List String)) (agg : List Nat)
    (hagg : ∀ l : Nat, l ∈ agg → w.heap.length ≤ l ∧ l < w.heap.length + ext.length) :
    WFs { w with heap := w.heap ++ ext, aggKeys := w.aggKeys ++ agg } := by
  obtain ⟨ha, hc⟩ := hw
  refine ⟨?_, ?_⟩
  · intro l hl
    dsimp only at hl ⊢
    simp only [List.mem_append] at hl
    simp only [List.length_append]
    rcases hl with hl | hl
    · have := ha l hl; omega
    · exact (hagg l hl).2
  · intro e ev c he hcache
    obtain ⟨h1, h2, h3⟩ := hc e ev c he hcache
    dsimp only at he ⊢
    refine ⟨?_, ?_, h3⟩
    · simp only [List.length_append]; omega
    · simp only [List.mem_append, not_or]
      refine ⟨h2, fun hin => ?_⟩
      have := (hagg c hin).1
      omega

theorem advertised_grow {w : World} (hw : WFs w) (ext : List (List String)) (agg : List Nat)
    (e : Nat) :
    advertised { w with heap := w.heap ++ ext, aggKeys := w.aggKeys ++ agg } e = advertised w e := by
  unfold advertised
  cases he : w.evals[e]? with
  | none => simp
  | some ev =>
    cases hc : ev.cache with
    | none => simp [hc]
    | some c =>
      have := (hw.2 e ev c he hc).1
      simp [hc, List.getD_eq_getElem?_getD, List.getElem?_append_left this]


/-- filling an empty cache with a location nobody else uses -/
theorem WFs_setCache {w : World} (hw : WFs w) {e : Nat} {ev : Evaluator} (c : Nat)
    (_he : w.evals[e]? = some ev) (hlt : c < w.heap.length) (hagg : c ∉ w.aggKeys)
    (hfresh : ∀ (e' : Nat) (ev' : Evaluator), w.evals[e']? = some ev' → ev'.cache ≠ some c) :
    WFs { w with evals := w.evals.set e { ev with cache := some c } } := by
  obtain ⟨ha, hc⟩ := hw
  refine ⟨ha, ?_⟩
  intro e1 ev1 c1 he1 hc1
  dsimp only at he1 ⊢
  rw [List.getElem?_set] at he1
  split at he1
  · -- e1 = e
    rename_i heq
    subst heq
    split at he1
    · simp only [Option.some.injEq] at he1
      subst he1
      simp only [Option.some.injEq] at hc1
      subst hc1
      refine ⟨hlt, hagg, ?_⟩
      intro e2 ev2 he2 hc2
      rw [List.getElem?_set] at he2
      split at he2
      · rename_i h; exact h.symm
      · exact absurd hc2 (hfresh e2 ev2 he2)
    · cases he1
  · rename_i hne
    obtain ⟨h1, h2, h3⟩ := hc e1 ev1 c1 he1 hc1
    refine ⟨h1, h2, ?_⟩
    intro e2 ev2 he2 hc2
    rw [List.getElem?_set] at he2
    split at he2
    · rename_i heq
      subst heq
      split at he2
      · simp only [Option.some.injEq] at he2
        subst he2
        simp only [Option.some.injEq] at hc2
        subst hc2
        exact absurd hc1 (hfresh e1 ev1 he1)
      · cases he2
    · exact h3 e2 ev2 he2 hc2

theorem advertised_setCache {w : World} {e : Nat} {ev : Evaluator} (c : Nat)
    (he : w.evals[e]? = some ev) (hnone : ev.cache = none) (hval : w.heap.getD c [] = rk ev)
    (e' : Nat) :
    advertised { w with evals := w.evals.set e { ev with cache := some c } } e' = advertised w e' := by
  unfold advertised
  dsimp only
  rw [List.getElem?_set]
  by_cases heq : e = e'
  · subst heq
    have hlt : e < w.evals.length := by
      rcases Nat.lt_or_ge e w.evals.length with h | h
      · exact h
      · rw [List.getElem?_eq_none h] at he; cases he
    rw [if_pos rfl, if_pos hlt, he]
    simp only [hnone, hval]
  · simp [heq]


/-- the uncached branch of `getKeys true`, optionally followed by registering the copy -/
theorem WFs_fill {w : World} (hw : WFs w) {e : Nat} {ev : Evaluator}
    (he : w.evals[e]? = some ev) (y : List String) (agg : List Nat)
    (hagg : ∀ l : Nat, l ∈ agg → l = w.heap.length + 1) :
    WFs { heap := w.heap ++ [rk ev, y],
          evals := w.evals.set e { ev with cache := some w.heap.length },
          aggKeys := w.aggKeys ++ agg } := by
  have h1 : WFs { w with heap := w.heap ++ [rk ev, y], aggKeys := w.aggKeys ++ agg } :=
    WFs_grow hw _ _ (by intro l hl; have := hagg l hl; simp only [List.length_cons, List.length_nil]; omega)
  refine WFs_setCache h1 (e := e) (ev := ev) w.heap.length he ?_ ?_ ?_
  · simp only [List.length_append, List.length_cons, List.length_nil]; omega
  · simp only [List.mem_append, not_or]
    refine ⟨fun hin => ?_, fun hin => ?_⟩
    · have := hw.1 _ hin; omega
    · have := hagg _ hin; omega
  · intro e' ev' he' hc'
    have := (hw.2 e' ev' _ he' hc').1
    omega

theorem advertised_fill {w : World} (hw : WFs w) {e : Nat} {ev : Evaluator}
    (he : w.evals[e]? = some ev) (hnone : ev.cache = none) (y : List String) (agg : List Nat)
    (e' : Nat) :
    advertised { heap := w.heap ++ [rk ev, y],
                 evals := w.evals.set e { ev with cache := some w.heap.length },
                 aggKeys := w.aggKeys ++ agg } e' = advertised w e' := by
  rw [← advertised_grow hw [rk ev, y] agg e']
  exact advertised_setCache (w := { w with heap := w.heap ++ [rk ev, y], aggKeys := w.aggKeys ++ agg })
    w.heap.length he hnone (by simp [List.getD_eq_getElem?_getD]) e'

theorem WFs_newEval {w : World} (hw : WFs w) (cfg : EvalCfg) :
    WFs { w with evals := w.evals ++ [{ cfg := cfg, cache := none }] } := by
  obtain ⟨ha, hc⟩ := hw
  have key : ∀ (e : Nat) (ev : Evaluator) (c : Nat),
      (w.evals ++ [{ cfg := cfg, cache := none }])[e]? = some ev → ev.cache = some c →
      w.evals[e]? = some ev := by
    intro e ev c he hcache
    rw [List.getElem?_append] at he
    split at he
    · exact he
    · rw [List.getElem?_singleton] at he
      split at he
      · simp only [Option.some.injEq] at he; subst he; cases hcache
      · cases he
  refine ⟨ha, ?_⟩
  intro e ev c he hcache
  dsimp only at he ⊢
  obtain ⟨h1, h2, h3⟩ := hc e ev c (key e ev c he hcache) hcache
  exact ⟨h1, h2, fun e' ev' he' hc' => h3 e' ev' (key e' ev' c he' hc') hc'⟩

theorem advertised_newEval {w : World} (cfg : EvalCfg) {e : Nat} {ks : List String}
    (h : advertised w e = some ks) :
    advertised { w with evals := w.evals ++ [{ cfg := cfg, cache := none }] } e = some ks := by
  unfold advertised at h ⊢
  dsimp only
  cases he : w.evals[e]? with
  | none => rw [he] at h; cases h
  | some ev =>
    have hlt : e < w.evals.length := by
      rcases Nat.lt_or_ge e w.evals.length with h | h
      · exact h
      · rw [List.getElem?_eq_none h] at he; cases he
    rw [List.getElem?_append_left hlt, he]
    rw [he] at h
    exact h

theorem set_last (l : List (List String)) (x y : List String) :
    (l ++ [x]).set l.length y = l ++ [y] := by
  simp

theorem set_last2 (l : List (List String)) (a x y : List String) :
    (l ++ [a, x]).set (l.length + 1) y = l ++ [a, y] := by
  simp


/-- one step preserves the strong invariant and every advertised key list -/
theorem step_strong (w : World) (hw : WFs w) (op : Op) :
    WFs (step w op).1 ∧
    ∀ (e : Nat) (ks : List String), advertised w e = some ks → advertised (step w op).1 e = some ks := by
  cases op with
  | newEvaluator cfg =>
    exact ⟨WFs_newEval hw cfg, fun e ks h => advertised_newEval cfg h⟩
  | keys e =>
    rcases getKeys_true_cases w e with ⟨_, hg⟩ | ⟨ev, c, he, hc, hg⟩ | ⟨ev, he, hc, hg⟩
    · simp only [step, stepWith, hg]
      exact ⟨hw, fun _ _ h => h⟩
    · simp only [step, stepWith, hg]
      have h1 := WFs_grow hw [w.heap.getD c []] [] (by intro l hl; cases hl)
      have h2 := advertised_grow hw [w.heap.getD c []] []
      simp only [List.append_nil] at h1 h2
      exact ⟨h1, fun e' ks h => by rw [h2 e']; exact h⟩
    · simp only [step, stepWith, hg]
      have h1 := WFs_fill hw he (rk ev) [] (by intro l hl; cases hl)
      have h2 := advertised_fill hw he hc (rk ev) []
      simp only [List.append_nil] at h1 h2
      exact ⟨h1, fun e' ks h => by rw [h2 e']; exact h⟩
  | newAggregator e b =>
    rcases getKeys_true_cases w e with ⟨_, hg⟩ | ⟨ev, c, he, hc, hg⟩ | ⟨ev, he, hc, hg⟩
    · simp only [step, stepWith, hg]
      exact ⟨hw, fun _ _ h => h⟩
    · simp only [step, stepWith, hg]
      cases b with
      | false =>
        simp only [Bool.false_eq_true, if_false]
        have h1 := WFs_grow hw [w.heap.getD c []] [w.heap.length]
          (by intro l hl; simp only [List.mem_singleton] at hl; subst hl; simp)
        have h2 := advertised_grow hw [w.heap.getD c []] [w.heap.length]
        exact ⟨h1, fun e' ks h => by rw [h2 e']; exact h⟩
      | true =>
        simp only [if_true, set_last]
        have h1 := WFs_grow hw [(w.heap ++ [w.heap.getD c []]).getD w.heap.length [] ++ ["computation_time"]]
          [w.heap.length]
          (by intro l hl; simp only [List.mem_singleton] at hl; subst hl; simp)
        have h2 := advertised_grow hw
          [(w.heap ++ [w.heap.getD c []]).getD w.heap.length [] ++ ["computation_time"]] [w.heap.length]
        exact ⟨h1, fun e' ks h => by rw [h2 e']; exact h⟩
    · simp only [step, stepWith, hg]
      cases b with
      | false =>
        simp only [Bool.false_eq_true, if_false]
        have h1 := WFs_fill hw he (rk ev) [w.heap.length + 1]
          (by intro l hl; simp only [List.mem_singleton] at hl; exact hl)
        have h2 := advertised_fill hw he hc (rk ev) [w.heap.length + 1]
        exact ⟨h1, fun e' ks h => by rw [h2 e']; exact h⟩
      | true =>
        simp only [if_true, set_last2]
        have h1 := WFs_fill hw he
          ((w.heap ++ [rk ev, rk ev]).getD (w.heap.length + 1) [] ++ ["computation_time"]) [w.heap.length + 1]
          (by intro l hl; simp only [List.mem_singleton] at hl; exact hl)
        have h2 := advertised_fill hw he hc
          ((w.heap ++ [rk ev, rk ev]).getD (w.heap.length + 1) [] ++ ["computation_time"]) [w.heap.length + 1]
        exact ⟨h1, fun e' ks h => by rw [h2 e']; exact h⟩
  | evaluate e input o =>
    simp only [step, stepWith]
    split <;> exact ⟨hw, fun _ _ h => h⟩
  | saveConfig e =>
    simp only [step, stepWith]
    split <;> exact ⟨hw, fun _ _ h => h⟩


/-! ### evaluators along a step -/

theorem getElem?_lt {α} {l : List α} {i : Nat} {a : α} (h : l[i]? = some a) : i < l.length := by
  rcases Nat.lt_or_ge i l.length with h' | h'
  · exact h'
  · rw [List.getElem?_eq_none h'] at h; cases h

/-- the evaluator list after a step: old, old plus one fresh uncached evaluator, or old with one
    cache filled -/
theorem step_evals_cases (w : World) (op : Op) :
    (step w op).1.evals = w.evals ∨
    (∃ cfg, (step w op).1.evals = w.evals ++ [{ cfg := cfg, cache := none }]) ∨
    (∃ e0 ev0 c, w.evals[e0]? = some ev0 ∧
      (step w op).1.evals = w.evals.set e0 { ev0 with cache := some c }) := by
  cases op with
  | newEvaluator cfg => exact Or.inr (Or.inl ⟨cfg, rfl⟩)
  | keys e =>
    rcases getKeys_true_cases w e with ⟨_, hg⟩ | ⟨ev, c, he, hc, hg⟩ | ⟨ev, he, hc, hg⟩
    · simp only [step, stepWith, hg]; exact Or.inl trivial
    · simp only [step, stepWith, hg]; exact Or.inl trivial
    · simp only [step, stepWith, hg]; exact Or.inr (Or.inr ⟨e, ev, _, he, rfl⟩)
  | newAggregator e b =>
    rcases getKeys_true_cases w e with ⟨_, hg⟩ | ⟨ev, c, he, hc, hg⟩ | ⟨ev, he, hc, hg⟩
    · simp only [step, stepWith, hg]; exact Or.inl trivial
    · simp only [step, stepWith, hg]; cases b <;> exact Or.inl rfl
    · simp only [step, stepWith, hg]; cases b <;> exact Or.inr (Or.inr ⟨e, ev, _, he, rfl⟩)
  | evaluate e input o =>
    simp only [step, stepWith]; split <;> exact Or.inl rfl
  | saveConfig e =>
    simp only [step, stepWith]; split <;> exact Or.inl rfl

theorem cfg_stable_step (w : World) (op : Op) (e : Nat) (ev : Evaluator) (h : w.evals[e]? = some ev) :
    ∃ ev', (step w op).1.evals[e]? = some ev' ∧ ev'.cfg = ev.cfg := by
  have hlt := getElem?_lt h
  rcases step_evals_cases w op with h1 | ⟨cfg, h1⟩ | ⟨e0, ev0, c, h0, h1⟩
  · rw [h1]; exact ⟨ev, h, rfl⟩
  · rw [h1, List.getElem?_append_left hlt]; exact ⟨ev, h, rfl⟩
  · rw [h1, List.getElem?_set]
    by_cases heq : e0 = e
    · subst heq
      rw [h] at h0
      simp only [Option.some.injEq] at h0
      subst h0
      rw [if_pos rfl, if_pos hlt]
      exact ⟨_, rfl, rfl⟩
    · rw [if_neg heq]; exact ⟨ev, h, rfl⟩

/-- an evaluator present after a step either existed before with the same configuration, or is
    brand new and has an empty cache -/
theorem step_evals_origin (w : World) (op : Op) (e : Nat) (ev' : Evaluator)
    (h : (step w op).1.evals[e]? = some ev') :
    (∃ ev, w.evals[e]? = some ev ∧ ev'.cfg = ev.cfg) ∨ ev'.cache = none := by
  rcases step_evals_cases w op with h1 | ⟨cfg, h1⟩ | ⟨e0, ev0, c, h0, h1⟩
  · rw [h1] at h; exact Or.inl ⟨ev', h, rfl⟩
  · rw [h1, List.getElem?_append] at h
    split at h
    · exact Or.inl ⟨ev', h, rfl⟩
    · rw [List.getElem?_singleton] at h
      split at h
      · simp only [Option.some.injEq] at h; subst h; exact Or.inr rfl
      · cases h
  · rw [h1, List.getElem?_set] at h
    by_cases heq : e0 = e
    · subst heq
      rw [if_pos rfl] at h
      split at h
      · simp only [Option.some.injEq] at h; subst h
        exact Or.inl ⟨ev0, h0, rfl⟩
      · cases h
    · rw [if_neg heq] at h; exact Or.inl ⟨ev', h, rfl⟩

theorem step_evaluate (w : World) (e input : Nat) (o : Opts) (ev : Evaluator)
    (h : w.evals[e]? = some ev) :
    (step w (Op.evaluate e input o)).2
      = Out.result ev.cfg input (o.saveGroupTimes.getD ev.cfg.saveGroupTimes) := by
  simp only [step, stepWith, h]

theorem step_saveConfig (w : World) (e : Nat) (ev : Evaluator) (h : w.evals[e]? = some ev) :
    (step w (Op.saveConfig e)).2 = Out.config ev.cfg := by
  simp only [step, stepWith, h]

/-! ### runs -/

theorem runOps_nil (stp : World → Op → World × Out) (w : World) : runOps stp w [] = (w, []) := rfl

theorem runOps_cons_fst (stp : World → Op → World × Out) (w : World) (op : Op) (ops : List Op) :
    (runOps stp w (op :: ops)).1 = (runOps stp (stp w op).1 ops).1 := rfl

/-- running `a ++ b` is running `a`, then `b` from the world reached -/
theorem runOps_append_fst (stp : World → Op → World × Out) (w : World) (a b : List Op) :
    (runOps stp w (a ++ b)).1 = (runOps stp (runOps stp w a).1 b).1 := by
  induction a generalizing w with
  | nil => rfl
  | cons op a ih =>
    rw [List.cons_append, runOps_cons_fst, runOps_cons_fst, ih]

/-- invariants of single steps lift to runs -/
theorem runOps_invariant (P : World → Prop) (hstep : ∀ w op, P w → P (step w op).1)
    (w : World) (hw : P w) (ops : List Op) : P (runOps step w ops).1 := by
  induction ops generalizing w with
  | nil => exact hw
  | cons op ops ih => rw [runOps_cons_fst]; exact ih _ (hstep w op hw)

/-- the full invariant: strong well-formedness, and every evaluator advertises exactly the keys
    its configuration determines -/
def Good (w : World) : Prop :=
  WFs w ∧ ∀ (e : Nat) (ev : Evaluator), w.evals[e]? = some ev → advertised w e = some (rk ev)

theorem Good_empty : Good empty := by
  refine ⟨⟨?_, ?_⟩, ?_⟩
  · intro l hl; cases hl
  · intro e ev c he; simp [empty] at he
  · intro e ev he; simp [empty] at he

theorem Good_step (w : World) (op : Op) (hw : Good w) : Good (step w op).1 := by
  obtain ⟨hwf, hadv⟩ := hw
  obtain ⟨hwf', hst⟩ := step_strong w hwf op
  refine ⟨hwf', ?_⟩
  intro e ev' he'
  rcases step_evals_origin w op e ev' he' with ⟨ev, he, hcfg⟩ | hnone
  · have := hst e _ (hadv e ev he)
    rw [this]; unfold rk; rw [hcfg]
  · exact advertised_uncached he' hnone

theorem Good_run (ops : List Op) : Good (runOps step empty ops).1 :=
  runOps_invariant Good Good_step empty Good_empty ops

theorem cfg_stable_run (w : World) (ops : List Op) (e : Nat) (ev : Evaluator)
    (h : w.evals[e]? = some ev) :
    ∃ ev', (runOps step w ops).1.evals[e]? = some ev' ∧ ev'.cfg = ev.cfg := by
  induction ops generalizing w ev with
  | nil => exact ⟨ev, h, rfl⟩
  | cons op ops ih =>
    obtain ⟨ev1, h1, hc1⟩ := cfg_stable_step w op e ev h
    obtain ⟨ev2, h2, hc2⟩ := ih (step w op).1 ev1 h1
    rw [runOps_cons_fst]
    exact ⟨ev2, h2, hc2.trans hc1⟩

end Panoptica.Pure
