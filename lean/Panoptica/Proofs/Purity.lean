/- helper lemmas for C15 (heap machine invariants) -/
import Panoptica.Model.Purity
namespace Panoptica.Pure
end Panoptica.Pure
