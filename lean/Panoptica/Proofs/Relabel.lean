/- helper lemmas for C04 (relabelling) -/
import Panoptica.Proofs.Basic
import Panoptica.Model.Relabel
namespace Panoptica

/-! ### `applyMap` -/

theorem applyMap_of_not_key (m : List (Lab × Lab)) (x : Lab) (h : ∀ e ∈ m, e.1 ≠ x) :
    applyMap m x = x := by
  unfold applyMap
  have : m.find? (fun e => e.1 == x) = none := by
    rw [List.find?_eq_none]
    intro e he
    simpa using h e he
  rw [this]

theorem applyMap_of_key (m : List (Lab × Lab)) (x : Lab) (h : ∃ e ∈ m, e.1 = x) :
    ∃ e ∈ m, e.1 = x ∧ applyMap m x = e.2 := by
  unfold applyMap
  cases hf : m.find? (fun e => e.1 == x) with
  | none =>
    rw [List.find?_eq_none] at hf
    obtain ⟨e, he, hx⟩ := h
    exact absurd (by simpa using hx) (hf e he)
  | some e =>
    exact ⟨e, List.mem_of_find?_eq_some hf, by simpa using List.find?_some hf, rfl⟩

theorem applyMap_append_left (m₁ m₂ : List (Lab × Lab)) (x : Lab) (h : ∃ e ∈ m₁, e.1 = x) :
    applyMap (m₁ ++ m₂) x = applyMap m₁ x := by
  unfold applyMap
  rw [List.find?_append]
  cases hf : m₁.find? (fun e => e.1 == x) with
  | none =>
    rw [List.find?_eq_none] at hf
    obtain ⟨e, he, hx⟩ := h
    exact absurd (by simpa using hx) (hf e he)
  | some e => rfl

theorem applyMap_append_right (m₁ m₂ : List (Lab × Lab)) (x : Lab) (h : ∀ e ∈ m₁, e.1 ≠ x) :
    applyMap (m₁ ++ m₂) x = applyMap m₂ x := by
  unfold applyMap
  rw [List.find?_append]
  have : m₁.find? (fun e => e.1 == x) = none := by
    rw [List.find?_eq_none]
    intro e he
    simpa using h e he
  rw [this]
  rfl

/-! ### `LMap` -/

theorem containsPred_eq_false (lm : LMap) (p : Lab) :
    lm.containsPred p = false ↔ ∀ e ∈ lm, e.1 ≠ p := by
  simp [LMap.containsPred]

theorem containsPred_eq_true (lm : LMap) (p : Lab) :
    lm.containsPred p = true ↔ ∃ e ∈ lm, e.1 = p := by
  simp [LMap.containsPred]

theorem lookup_eq_some (lm : LMap) (p r : Lab) (h : lm.lookup p = some r) :
    (∃ e ∈ lm, e.1 = p) ∧ (∃ e ∈ lm, e.2 = r) ∧ applyMap lm p = r := by
  unfold LMap.lookup at h
  unfold applyMap
  cases hf : lm.find? (fun e => e.1 == p) with
  | none => rw [hf] at h; simp at h
  | some e =>
    rw [hf] at h
    have hr : e.2 = r := by simpa using h
    have hm := List.mem_of_find?_eq_some hf
    have hk : e.1 = p := by simpa using List.find?_some hf
    exact ⟨⟨e, hm, hk⟩, ⟨e, hm, hr⟩, hr⟩

theorem lookup_eq_none (lm : LMap) (p : Lab) (h : ∀ e ∈ lm, e.1 ≠ p) : lm.lookup p = none := by
  unfold LMap.lookup
  have : lm.find? (fun e => e.1 == p) = none := by
    rw [List.find?_eq_none]
    intro e he
    simpa using h e he
  rw [this]; rfl

theorem lookup_of_key (lm : LMap) (p : Lab) (h : ∃ e ∈ lm, e.1 = p) :
    ∃ r, lm.lookup p = some r := by
  unfold LMap.lookup
  cases hf : lm.find? (fun e => e.1 == p) with
  | none =>
    rw [List.find?_eq_none] at hf
    obtain ⟨e, he, hx⟩ := h
    exact absurd (by simpa using hx) (hf e he)
  | some e => exact ⟨e.2, rfl⟩

/-! ### `assignFresh` -/

theorem mem_assignFresh (l : List Lab) (c : Nat) (e : Lab × Lab) (h : e ∈ assignFresh l c) :
    e.1 ∈ l ∧ c ≤ e.2 ∧ e.2 < c + l.length := by
  induction l generalizing c with
  | nil => simp [assignFresh] at h
  | cons p ps ih =>
    simp only [assignFresh, List.mem_cons] at h
    rcases h with rfl | h
    · simp
    · have := ih (c + 1) h
      simp only [List.mem_cons, List.length_cons]
      refine ⟨Or.inr this.1, by grind, by grind⟩

theorem key_assignFresh (l : List Lab) (c : Nat) (p : Lab) (h : p ∈ l) :
    ∃ e ∈ assignFresh l c, e.1 = p := by
  induction l generalizing c with
  | nil => simp at h
  | cons q qs ih =>
    rcases List.mem_cons.1 h with rfl | h
    · exact ⟨(p, c), by simp [assignFresh], rfl⟩
    · obtain ⟨e, he, hk⟩ := ih (c + 1) h
      exact ⟨e, by simp [assignFresh, he], hk⟩

theorem applyMap_assignFresh_bounds (l : List Lab) (c : Nat) (p : Lab) (h : p ∈ l) :
    c ≤ applyMap (assignFresh l c) p ∧ applyMap (assignFresh l c) p < c + l.length := by
  obtain ⟨e, he, _, hv⟩ := applyMap_of_key _ p (key_assignFresh l c p h)
  have := mem_assignFresh l c e he
  rw [hv]; exact this.2

theorem applyMap_cons_self (p v : Lab) (m : List (Lab × Lab)) : applyMap ((p, v) :: m) p = v := by
  simp [applyMap]

theorem applyMap_cons_ne (k v : Lab) (m : List (Lab × Lab)) (x : Lab) (h : k ≠ x) :
    applyMap ((k, v) :: m) x = applyMap m x := by
  simp [applyMap, h]

theorem applyMap_assignFresh_inj (l : List Lab) (c : Nat) (hnd : l.Nodup) (p q : Lab)
    (hp : p ∈ l) (hq : q ∈ l) (hpq : p ≠ q) :
    applyMap (assignFresh l c) p ≠ applyMap (assignFresh l c) q := by
  induction l generalizing c with
  | nil => simp at hp
  | cons a as ih =>
    have hnd' := List.nodup_cons.1 hnd
    simp only [assignFresh]
    rcases List.mem_cons.1 hp with rfl | hp' <;> rcases List.mem_cons.1 hq with rfl | hq'
    · exact absurd rfl hpq
    · rw [applyMap_cons_self, applyMap_cons_ne _ _ _ _ hpq]
      have := (applyMap_assignFresh_bounds as (c + 1) q hq').1
      grind
    · rw [applyMap_cons_self, applyMap_cons_ne _ _ _ _ (Ne.symm hpq)]
      have := (applyMap_assignFresh_bounds as (c + 1) p hp').1
      grind
    · have h1 : a ≠ p := fun h => hnd'.1 (h ▸ hp')
      have h2 : a ≠ q := fun h => hnd'.1 (h ▸ hq')
      rw [applyMap_cons_ne _ _ _ _ h1, applyMap_cons_ne _ _ _ _ h2]
      exact ih (c + 1) hnd'.2 hp' hq'

/-! ### `fullLabelMap` -/

theorem applyMap_full_matched (lm : LMap) (refLabels predLabels : List Lab) (p r : Lab)
    (h : lm.lookup p = some r) : applyMap (fullLabelMap lm refLabels predLabels) p = r := by
  obtain ⟨hk, _, hv⟩ := lookup_eq_some lm p r h
  unfold fullLabelMap
  simp only
  rw [applyMap_append_left _ _ _ hk, hv]

theorem applyMap_full_unmatched (lm : LMap) (refLabels predLabels : List Lab) (p : Lab)
    (hun : lm.containsPred p = false) :
    applyMap (fullLabelMap lm refLabels predLabels) p =
      applyMap (assignFresh (predLabels.filter (fun p => !lm.containsPred p)) (maxOf refLabels + 1)) p := by
  unfold fullLabelMap
  simp only
  rw [applyMap_append_right _ _ _ ((containsPred_eq_false lm p).1 hun)]

theorem mem_missed (lm : LMap) (predLabels : List Lab) (p : Lab) (hp : p ∈ predLabels)
    (hun : lm.containsPred p = false) :
    p ∈ predLabels.filter (fun p => !lm.containsPred p) := by
  simp [List.mem_filter, hp, hun]

theorem mem_fullLabelMap (lm : LMap) (refLabels predLabels : List Lab) (e : Lab × Lab)
    (h : e ∈ fullLabelMap lm refLabels predLabels) :
    e ∈ lm ∨ (e.1 ∈ predLabels ∧ maxOf refLabels + 1 ≤ e.2 ∧
      e.2 < maxOf refLabels + 1 + predLabels.length) := by
  unfold fullLabelMap at h
  simp only [List.mem_append] at h
  rcases h with h | h
  · exact Or.inl h
  · right
    have := mem_assignFresh _ _ e h
    have hl := List.length_filter_le (fun p => !lm.containsPred p) predLabels
    refine ⟨(List.mem_filter.1 this.1).1, this.2.1, by grind⟩

/-! ### dtype width -/

theorem lt_two_pow_smallestUintBits (mx : Nat) (h : mx < 2 ^ 64) : mx < 2 ^ smallestUintBits mx := by
  unfold smallestUintBits
  split
  · omega
  · split
    · omega
    · split
      · omega
      · exact h

theorem mapLabelsBits_exact (bits : Nat) (arr : Flat) (m : List (Lab × Lab))
    (h : ∀ e ∈ m, e.1 < 2 ^ bits ∧ e.2 < 2 ^ bits) :
    mapLabelsBits bits arr m = arr.map (applyMap m) := by
  unfold mapLabelsBits
  simp only
  have : m.map (fun e => (e.1 % 2 ^ bits, e.2 % 2 ^ bits)) = m := by
    conv => rhs; rw [← List.map_id m]
    apply List.map_congr_left
    intro e he
    have := h e he
    simp [Nat.mod_eq_of_lt this.1, Nat.mod_eq_of_lt this.2]
  rw [this]

theorem mapLabels_exact (arrBits : Nat) (arr : Flat) (m : List (Lab × Lab))
    (ha : ∀ x ∈ arr, x < 2 ^ 64) (hm : ∀ e ∈ m, e.1 < 2 ^ 64 ∧ e.2 < 2 ^ 64) :
    mapLabels arrBits arr m = arr.map (applyMap m) := by
  unfold mapLabels
  apply mapLabelsBits_exact
  intro e he
  unfold mapBits
  simp only
  generalize hmx : max (maxOf arr) (max (maxOf (m.map (·.1))) (maxOf (m.map (·.2)))) = mx
  have h1 : maxOf arr < 2 ^ 64 := maxOf_lt _ _ (by omega) ha
  have h2 : maxOf (m.map (·.1)) < 2 ^ 64 := by
    apply maxOf_lt _ _ (by omega)
    intro x hx
    obtain ⟨e', he', rfl⟩ := List.mem_map.1 hx
    exact (hm e' he').1
  have h3 : maxOf (m.map (·.2)) < 2 ^ 64 := by
    apply maxOf_lt _ _ (by omega)
    intro x hx
    obtain ⟨e', he', rfl⟩ := List.mem_map.1 hx
    exact (hm e' he').2
  have hmx64 : mx < 2 ^ 64 := by omega
  have hlt := lt_two_pow_smallestUintBits mx hmx64
  have e1 : e.1 ≤ maxOf (m.map (·.1)) := le_maxOf _ _ (List.mem_map.2 ⟨e, he, rfl⟩)
  have e2 : e.2 ≤ maxOf (m.map (·.2)) := le_maxOf _ _ (List.mem_map.2 ⟨e, he, rfl⟩)
  have hpow : 2 ^ smallestUintBits mx ≤ 2 ^ max arrBits (smallestUintBits mx) :=
    Nat.pow_le_pow_right (by omega) (Nat.le_max_right _ _)
  constructor <;> grind

end Panoptica
