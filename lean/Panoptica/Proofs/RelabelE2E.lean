/- helper lemmas for Properties/C09Pipeline.lean -/
import Panoptica.Proofs.Mirror
import Panoptica.Properties.C09
namespace Panoptica
namespace RelabelE2E
open Panoptica.C09 Panoptica.Mirror

/-- `f` is injective on the values of `a` -/
def InjOn (f : Lab → Lab) (a : Flat) : Prop := ∀ x ∈ a, ∀ y ∈ a, f x = f y → x = y

/-- relabel an entry `(pred, ref)` of a label map -/
def relPair (σ τ : Lab → Lab) (e : Lab × Lab) : Lab × Lab := (σ e.1, τ e.2)

/-- relabel a candidate pair `(ref, pred)` of the candidate discovery -/
def relOv (σ τ : Lab → Lab) (x : Lab × Lab) : Lab × Lab := (τ x.1, σ x.2)

/-! ### metrics of a renamed pair -/

theorem metricOn_rename_core (m : Metric) (s : List Nat) (pred ref : Flat) (σ τ : Lab → Lab)
    (hσ : InjOn σ pred) (hτ : InjOn τ ref) (r p : Lab) (hr : r ∈ ref) (hp : p ∈ pred) :
    metricOn m ⟨s, pred.map σ⟩ ⟨s, ref.map τ⟩ (τ r) [σ p] = metricOn m ⟨s, pred⟩ ⟨s, ref⟩ r [p] := by
  have h1 : selRef (ref.map τ) (τ r) = selRef ref r := selRef_relabel τ ref hτ r hr
  have h2 : selPred (pred.map σ) [σ p] = selPred pred [p] :=
    selPred_relabel σ pred hσ [p] (fun q hq => by rw [List.mem_singleton.1 hq]; exact hp)
  cases m with
  | IOU => simp only [metricOn, iouSel, selectPair, h1, h2]
  | DSC => simp only [metricOn, diceSel, selectPair, h1, h2]
  | RVD => simp only [metricOn, rvdSel, selectPair, h1, h2]
  | clDSC => rfl
  | ASSD =>
    simp only [metricOn]
    rw [Values.coordsWhere_map s ref τ (fun l => l == τ r) (fun l => l == r),
      Values.coordsWhere_map s pred σ (fun l => [σ p].contains l) (fun l => [p].contains l)]
    · intro x hx
      rw [Bool.eq_iff_iff, List.contains_iff_mem, List.contains_iff_mem, List.mem_singleton,
        List.mem_singleton]
      exact ⟨fun h => hσ x hx p hp h, fun h => by rw [h]⟩
    · intro x hx
      rw [Bool.eq_iff_iff, beq_iff_eq, beq_iff_eq]
      exact ⟨fun h => hτ x hx r hr h, fun h => by rw [h]⟩

/-! ### candidates of a renamed pair -/

theorem mem_zip_map (σ τ : Lab → Lab) (pred ref : Flat) (b a : Lab) :
    (b, a) ∈ (pred.map σ).zip (ref.map τ) ↔ ∃ p r, (p, r) ∈ pred.zip ref ∧ σ p = b ∧ τ r = a := by
  rw [List.zip_map, List.mem_map]
  constructor
  · rintro ⟨⟨p, r⟩, h, heq⟩
    simp only [Prod.map_apply, Prod.mk.injEq] at heq
    exact ⟨p, r, h, heq.1, heq.2⟩
  · rintro ⟨p, r, h, h1, h2⟩
    exact ⟨(p, r), h, by simp only [Prod.map_apply, h1, h2]⟩

theorem overlapPairs_rename (pred ref : Flat) (σ τ : Lab → Lab)
    (hσ0 : σ 0 = 0) (hτ0 : τ 0 = 0)
    (hσn : ∀ x ∈ pred, x ≠ 0 → σ x ≠ 0) (hτn : ∀ x ∈ ref, x ≠ 0 → τ x ≠ 0)
    (hσ : InjOn σ pred) (hτ : InjOn τ ref)
    (hb : ∀ x ∈ pred ++ ref, x < 2 ^ 32 - 1) (hb' : ∀ x ∈ pred.map σ ++ ref.map τ, x < 2 ^ 32 - 1) :
    (overlapPairs (pred.map σ) (ref.map τ) (labelsOf (ref.map τ))).Perm
      ((overlapPairs pred ref (labelsOf ref)).map (relOv σ τ)) := by
  have hbp : ∀ x ∈ pred, x < 2 ^ 32 := fun x hx => lt32_of_lt x (bounds_left hb x hx)
  have hbr := bounds_right hb
  have hbp' : ∀ x ∈ pred.map σ, x < 2 ^ 32 := fun x hx => lt32_of_lt x (bounds_left hb' x hx)
  have hbr' := bounds_right hb'
  apply (List.perm_ext_iff_of_nodup ?_ ?_).2
  · rintro ⟨a, b⟩
    rw [mem_overlapPairs (pred.map σ) (ref.map τ) hbp' hbr' a b, mem_zip_map, List.mem_map]
    constructor
    · rintro ⟨ha, hb0, p, r, hz, rfl, rfl⟩
      refine ⟨(r, p), ?_, rfl⟩
      rw [mem_overlapPairs pred ref hbp hbr r p]
      refine ⟨?_, ?_, hz⟩
      · intro h; rw [h] at ha; exact ha hτ0
      · intro h; rw [h] at hb0; exact hb0 hσ0
    · rintro ⟨⟨r, p⟩, hx, heq⟩
      simp only [relOv, Prod.mk.injEq] at heq
      obtain ⟨rfl, rfl⟩ := heq
      obtain ⟨hr0, hp0, hz⟩ := (mem_overlapPairs pred ref hbp hbr r p).1 hx
      have hm := List.of_mem_zip hz
      exact ⟨hτn r hm.2 hr0, hσn p hm.1 hp0, p, r, hz, rfl, rfl⟩
  · exact overlapPairsM_nodup _ _ _ _
  · apply nodup_map_on _ _ _ (overlapPairsM_nodup _ pred ref _)
    rintro ⟨r1, p1⟩ h1 ⟨r2, p2⟩ h2 heq
    simp only [relOv, Prod.mk.injEq] at heq
    have m1 := List.of_mem_zip ((mem_overlapPairs pred ref hbp hbr r1 p1).1 h1).2.2
    have m2 := List.of_mem_zip ((mem_overlapPairs pred ref hbp hbr r2 p2).1 h2).2.2
    rw [hτ r1 m1.2 r2 m2.2 heq.1, hσ p1 m1.1 p2 m2.1 heq.2]

theorem scoredCands_rename_core (m : Metric) (s : List Nat) (pred ref : Flat) (σ τ : Lab → Lab)
    (hσ0 : σ 0 = 0) (hτ0 : τ 0 = 0)
    (hσn : ∀ x ∈ pred, x ≠ 0 → σ x ≠ 0) (hτn : ∀ x ∈ ref, x ≠ 0 → τ x ≠ 0)
    (hσ : InjOn σ pred) (hτ : InjOn τ ref)
    (hb : ∀ x ∈ pred ++ ref, x < 2 ^ 32 - 1) (hb' : ∀ x ∈ pred.map σ ++ ref.map τ, x < 2 ^ 32 - 1) :
    (scoredCands m ⟨s, pred.map σ⟩ ⟨s, ref.map τ⟩).Perm
      ((scoredCands m ⟨s, pred⟩ ⟨s, ref⟩).map (relabelCand σ τ)) := by
  have hperm := overlapPairs_rename pred ref σ τ hσ0 hτ0 hσn hτn hσ hτ hb hb'
  have hbp : ∀ x ∈ pred, x < 2 ^ 32 := fun x hx => lt32_of_lt x (bounds_left hb x hx)
  have hbr := bounds_right hb
  have hR : (scoredCands m ⟨s, pred⟩ ⟨s, ref⟩).map (relabelCand σ τ) =
      ((overlapPairs pred ref (labelsOf ref)).map (relOv σ τ)).map
        (fun (x : Lab × Lab) =>
          ({ score := metricOn m ⟨s, pred.map σ⟩ ⟨s, ref.map τ⟩ x.1 [x.2], ref := x.1, pred := x.2 } :
            Cand Score)) := by
    unfold scoredCands
    rw [List.map_map, List.map_map]
    apply List.map_congr_left
    rintro ⟨r, p⟩ hx
    have hm := List.of_mem_zip ((mem_overlapPairs pred ref hbp hbr r p).1 hx).2.2
    simp only [Function.comp_apply, relabelCand, relOv]
    rw [metricOn_rename_core m s pred ref σ τ hσ hτ r p hm.2 hm.1]
  rw [hR]
  exact hperm.map _

/-! ### `Determined` and `ValidMatching` under an injective renaming of the candidates -/

section inv
variable {S : Type} (le : S → S → Bool) (dec : Bool) (thr : S) (σ τ : Lab → Lab)

theorem mem_map_relPair_of_mem (M : List (Lab × Lab)) (p r : Lab) (h : (p, r) ∈ M) :
    (σ p, τ r) ∈ M.map (relPair σ τ) := List.mem_map.2 ⟨(p, r), h, rfl⟩

theorem determined_relabel {cs : List (Cand S)}
    (hσ : ∀ a ∈ cs, ∀ b ∈ cs, σ a.pred = σ b.pred → a.pred = b.pred)
    (hτ : ∀ a ∈ cs, ∀ b ∈ cs, τ a.ref = τ b.ref → a.ref = b.ref)
    (hd : C03.Determined le dec thr cs) :
    C03.Determined le dec thr (cs.map (relabelCand σ τ)) where
  keysNodup := by
    have h := hd.keysNodup
    rw [List.map_map]
    unfold List.Nodup at h ⊢
    rw [List.pairwise_map] at h ⊢
    refine h.imp_of_mem ?_
    intro a b ha hb hab heq
    apply hab
    simp only [Function.comp_apply, relabelCand, Prod.mk.injEq] at heq
    rw [hσ a ha b hb heq.1, hτ a ha b hb heq.2]
  distinct := by
    intro a ha b hb hne hcomp h1 h2
    obtain ⟨a0, ha0, rfl⟩ := List.mem_map.1 ha
    obtain ⟨b0, hb0, rfl⟩ := List.mem_map.1 hb
    have hne0 : (a0.pred, a0.ref) ≠ (b0.pred, b0.ref) := by
      intro h
      apply hne
      simp only [relabelCand, Prod.mk.injEq] at h ⊢
      rw [h.1, h.2]
      exact ⟨rfl, rfl⟩
    have hcomp0 : C03.competes a0 b0 = true := by
      simp only [C03.competes, relabelCand, Bool.or_eq_true, beq_iff_eq] at hcomp ⊢
      rcases hcomp with h | h
      · exact .inl (hσ a0 ha0 b0 hb0 h)
      · exact .inr (hτ a0 ha0 b0 hb0 h)
    exact hd.distinct a0 ha0 b0 hb0 hne0 hcomp0 h1 h2

theorem valid_relabel {cs : List (Cand S)} {M : List (Lab × Lab)}
    (hσ : ∀ a ∈ cs, ∀ b ∈ cs, σ a.pred = σ b.pred → a.pred = b.pred)
    (hτ : ∀ a ∈ cs, ∀ b ∈ cs, τ a.ref = τ b.ref → a.ref = b.ref)
    (hM : C03.ValidMatching le dec thr cs M) :
    C03.ValidMatching le dec thr (cs.map (relabelCand σ τ)) (M.map (relPair σ τ)) where
  sound := by
    intro e he
    obtain ⟨e0, he0, rfl⟩ := List.mem_map.1 he
    obtain ⟨c, hc, h1, h2, hb⟩ := hM.sound e0 he0
    refine ⟨relabelCand σ τ c, List.mem_map.2 ⟨c, hc, rfl⟩, ?_, ?_, hb⟩
    · simp only [relabelCand, relPair, h1]
    · simp only [relabelCand, relPair, h2]
  predsNodup := by
    have : (M.map (relPair σ τ)).map (·.1) = (M.map (·.1)).map σ := by
      rw [List.map_map, List.map_map]; rfl
    rw [this]
    apply nodup_map_on σ _ _ hM.predsNodup
    intro x hx y hy hxy
    obtain ⟨e, he, rfl⟩ := List.mem_map.1 hx
    obtain ⟨e', he', rfl⟩ := List.mem_map.1 hy
    obtain ⟨c, hc, h1, _, _⟩ := hM.sound e he
    obtain ⟨c', hc', h1', _, _⟩ := hM.sound e' he'
    change σ e.1 = σ e'.1 at hxy
    rw [← h1, ← h1'] at hxy ⊢
    exact hσ c hc c' hc' hxy
  refsNodup := by
    have : (M.map (relPair σ τ)).map (·.2) = (M.map (·.2)).map τ := by
      rw [List.map_map, List.map_map]; rfl
    rw [this]
    apply nodup_map_on τ _ _ hM.refsNodup
    intro x hx y hy hxy
    obtain ⟨e, he, rfl⟩ := List.mem_map.1 hx
    obtain ⟨e', he', rfl⟩ := List.mem_map.1 hy
    obtain ⟨c, hc, _, h2, _⟩ := hM.sound e he
    obtain ⟨c', hc', _, h2', _⟩ := hM.sound e' he'
    change τ e.2 = τ e'.2 at hxy
    rw [← h2, ← h2'] at hxy ⊢
    exact hτ c hc c' hc' hxy
  stable := by
    intro c hc hb hnot
    obtain ⟨c0, hc0, rfl⟩ := List.mem_map.1 hc
    have hnot0 : (c0.pred, c0.ref) ∉ M := by
      intro h
      apply hnot
      exact mem_map_relPair_of_mem σ τ M _ _ h
    obtain ⟨c', hc', hin, hcomp, hs⟩ := hM.stable c0 hc0 hb hnot0
    refine ⟨relabelCand σ τ c', List.mem_map.2 ⟨c', hc', rfl⟩, ?_, ?_, hs⟩
    · exact mem_map_relPair_of_mem σ τ M _ _ hin
    · simp only [C03.competes, relabelCand, Bool.or_eq_true, beq_iff_eq] at hcomp ⊢
      rcases hcomp with h | h
      · exact .inl (by rw [h])
      · exact .inr (by rw [h])

end inv

/-! ### the matcher on renamed candidates -/

theorem naive_rel (dec : Bool) (thr : Score) (σ τ : Lab → Lab) (cs cs' : List (Cand Score))
    (hex : ∀ c ∈ cs, IsExact c.score) (hthr : IsExact thr)
    (hσ : ∀ a ∈ cs, ∀ b ∈ cs, σ a.pred = σ b.pred → a.pred = b.pred)
    (hτ : ∀ a ∈ cs, ∀ b ∈ cs, τ a.ref = τ b.ref → a.ref = b.ref)
    (hperm : cs'.Perm (cs.map (relabelCand σ τ)))
    (hdet : C03.Determined Score.le dec thr cs) :
    ∀ e, e ∈ (naiveLoop Score.le dec thr false (sortBest Score.le dec cs)).map (relPair σ τ) ↔
      e ∈ naiveLoop Score.le dec thr false (sortBest Score.le dec cs') := by
  have hex' : ∀ c ∈ cs', IsExact c.score := by
    intro c hc
    obtain ⟨c0, hc0, rfl⟩ := List.mem_map.1 (hperm.mem_iff.1 hc)
    exact hex c0 hc0
  have hle : ∀ (l : List (Cand Score)), (∀ c ∈ l, IsExact c.score) →
      ∀ a ∈ l, ∀ b ∈ l, Score.le a.score b.score = leT a.score b.score :=
    fun l hl a ha b hb => leT_exact (hl a ha) (hl b hb)
  have hbe : ∀ (l : List (Cand Score)), (∀ c ∈ l, IsExact c.score) →
      ∀ c ∈ l, beats Score.le dec c.score thr = beats leT dec c.score thr := by
    intro l hl c hc
    unfold beats
    rw [leT_exact (hl c hc) hthr, leT_exact hthr (hl c hc)]
  have hrew : ∀ (l : List (Cand Score)), (∀ c ∈ l, IsExact c.score) →
      naiveLoop Score.le dec thr false (sortBest Score.le dec l) =
        naiveLoop leT dec thr false (sortBest leT dec l) := by
    intro l hl
    rw [sortBest_congr Score.le leT dec l (hle l hl)]
    apply naiveLoop_congr
    intro c hc
    have hc' : c ∈ l := by
      unfold sortBest at hc
      exact List.mem_mergeSort.1 hc
    exact hbe l hl c hc'
  rw [hrew cs hex, hrew cs' hex']
  have hdT : C03.Determined leT dec thr cs :=
    determined_congr Score.le leT dec thr cs (hle cs hex) (hbe cs hex) hdet
  have hdT' : C03.Determined leT dec thr cs' :=
    determined_perm leT dec thr hperm.symm (determined_relabel leT dec thr σ τ hσ hτ hdT)
  have hv := C03.naive_valid leT dec thr leT_total leT_trans cs hdT
  have hv' := valid_perm leT dec thr hperm.symm (valid_relabel leT dec thr σ τ hσ hτ hv)
  exact C03.unique leT dec thr leT_total leT_trans cs' hdT' _ hv'

/-- the label map of the renamed pair is the renamed label map (as a set of pairs) -/
theorem runMatcher_rename (mc : MatcherCfg) (hk : mc.kind = .naive false)
    (hm : mc.metric = .IOU ∨ mc.metric = .DSC) (ht : ∃ q, mc.thr = .exact q)
    (s : List Nat) (pred ref : Flat) (σ τ : Lab → Lab)
    (hσ0 : σ 0 = 0) (hτ0 : τ 0 = 0)
    (hσn : ∀ x ∈ pred, x ≠ 0 → σ x ≠ 0) (hτn : ∀ x ∈ ref, x ≠ 0 → τ x ≠ 0)
    (hσ : InjOn σ pred) (hτ : InjOn τ ref)
    (hlen : pred.length = ref.length)
    (hb : ∀ x ∈ pred ++ ref, x < 2 ^ 32 - 1) (hb' : ∀ x ∈ pred.map σ ++ ref.map τ, x < 2 ^ 32 - 1)
    (hdet : C03.Determined Score.le mc.metric.decreasing mc.thr (scoredCands mc.metric ⟨s, pred⟩ ⟨s, ref⟩))
    (lm lm' : LMap) (h : runMatcher mc ⟨s, pred⟩ ⟨s, ref⟩ = .ok lm)
    (h' : runMatcher mc ⟨s, pred.map σ⟩ ⟨s, ref.map τ⟩ = .ok lm') :
    ∀ e, e ∈ lm.map (relPair σ τ) ↔ e ∈ lm' := by
  rw [runMatcher_naive mc false hk] at h h'
  cases h
  cases h'
  have hbp : ∀ x ∈ pred, x < 2 ^ 32 := fun x hx => lt32_of_lt x (bounds_left hb x hx)
  have hbr := bounds_right hb
  have hmem : ∀ c ∈ scoredCands mc.metric ⟨s, pred⟩ ⟨s, ref⟩, c.pred ∈ pred ∧ c.ref ∈ ref := by
    intro c hc
    obtain ⟨_, _, hov⟩ := (C01.scoredCands_spec mc.metric ⟨s, pred⟩ ⟨s, ref⟩ hlen hbp hbr c.ref c.pred).1
      ⟨c, hc, rfl, rfl⟩
    exact List.of_mem_zip ((overlaps_iff pred ref c.ref c.pred).1 hov)
  apply naive_rel mc.metric.decreasing mc.thr σ τ _ _ ?_ ht ?_ ?_
    (scoredCands_rename_core mc.metric s pred ref σ τ hσ0 hτ0 hσn hτn hσ hτ hb hb') hdet
  · intro c hc
    rw [C01.scoredCands_score mc.metric _ _ c hc]
    exact metricOn_exact mc.metric hm _ _ _ _
  · intro a ha b hb2 h
    exact hσ _ (hmem a ha).1 _ (hmem b hb2).1 h
  · intro a ha b hb2 h
    exact hτ _ (hmem a ha).2 _ (hmem b hb2).2 h

/-! ### the per-instance lists -/

theorem passing_rename (s : List Nat) (pred ref : Flat) (σ τ : Lab → Lab)
    (hσ : InjOn σ pred) (hτ : InjOn τ ref) (hτn : ∀ x ∈ ref, x ≠ 0 → τ x ≠ 0)
    (lm lm' : LMap) (ms : List Metric) (decision : Option (Metric × Score))
    (hg : Values.Good lm pred ref)
    (hrefs : (lm.map (·.2)).Nodup) (hrefs' : (lm'.map (·.2)).Nodup)
    (hrel : ∀ e, e ∈ lm.map (relPair σ τ) ↔ e ∈ lm') :
    ((((labelsOf (ref.map τ)).filter (fun r => lm'.containsRef r)).filter (fun r =>
        passesDecision Score.le decision (ms.map (fun m =>
          (m, metricOn m ⟨s, pred.map σ⟩ ⟨s, ref.map τ⟩ r (lm'.predsOf r)))))).Perm
      ((((labelsOf ref).filter (fun r => lm.containsRef r)).filter (fun r =>
        passesDecision Score.le decision (ms.map (fun m =>
          (m, metricOn m ⟨s, pred⟩ ⟨s, ref⟩ r (lm.predsOf r)))))).map τ)) ∧
    ∀ r ∈ (((labelsOf ref).filter (fun r => lm.containsRef r)).filter (fun r =>
        passesDecision Score.le decision (ms.map (fun m =>
          (m, metricOn m ⟨s, pred⟩ ⟨s, ref⟩ r (lm.predsOf r)))))), ∀ m,
      metricOn m ⟨s, pred.map σ⟩ ⟨s, ref.map τ⟩ (τ r) (lm'.predsOf (τ r)) =
        metricOn m ⟨s, pred⟩ ⟨s, ref⟩ r (lm.predsOf r) := by
  have hin : ∀ p r, (p, r) ∈ lm → p ∈ pred ∧ r ∈ ref := fun p r h =>
    ⟨((mem_labelsOf pred p).1 (hg.keys (p, r) h)).1, ((mem_labelsOf ref r).1 (hg.vals (p, r) h)).1⟩
  have K : ∀ p r, (p, r) ∈ lm → ∀ m,
      metricOn m ⟨s, pred.map σ⟩ ⟨s, ref.map τ⟩ (τ r) (lm'.predsOf (τ r)) =
        metricOn m ⟨s, pred⟩ ⟨s, ref⟩ r (lm.predsOf r) := by
    intro p r h m
    have h1 := predsOf_single lm hrefs p r h
    have h2 := predsOf_single lm' hrefs' (σ p) (τ r)
      ((hrel _).1 (mem_map_relPair_of_mem σ τ lm p r h))
    rw [h1, h2]
    exact metricOn_rename_core m s pred ref σ τ hσ hτ r p (hin p r h).2 (hin p r h).1
  have D : ∀ p r, (p, r) ∈ lm →
      ms.map (fun m => (m, metricOn m ⟨s, pred.map σ⟩ ⟨s, ref.map τ⟩ (τ r) (lm'.predsOf (τ r)))) =
        ms.map (fun m => (m, metricOn m ⟨s, pred⟩ ⟨s, ref⟩ r (lm.predsOf r))) := by
    intro p r h
    apply List.map_congr_left
    intro m _
    rw [K p r h m]
  refine ⟨?_, ?_⟩
  · apply (List.perm_ext_iff_of_nodup ?_ ?_).2
    · intro x
      simp only [List.mem_filter, List.mem_map, Values.containsRef_eq_true]
      constructor
      · rintro ⟨⟨_, e, he, rfl⟩, hpass⟩
        obtain ⟨⟨p, r⟩, he0, rfl⟩ := List.mem_map.1 ((hrel e).2 he)
        refine ⟨r, ⟨⟨hg.vals (p, r) he0, (p, r), he0, rfl⟩, ?_⟩, rfl⟩
        rw [← D p r he0]; exact hpass
      · rintro ⟨r, ⟨⟨hr, e, he, rfl⟩, hpass⟩, rfl⟩
        have hmem : (e.1, e.2) ∈ lm := he
        have hr' := (mem_labelsOf ref e.2).1 hr
        refine ⟨⟨(mem_labelsOf _ _).2 ⟨List.mem_map.2 ⟨e.2, hr'.1, rfl⟩, hτn e.2 hr'.1 hr'.2⟩,
          (σ e.1, τ e.2), (hrel _).1 (mem_map_relPair_of_mem σ τ lm _ _ hmem), rfl⟩, ?_⟩
        rw [D e.1 e.2 hmem]; exact hpass
    · exact ((labelsOf_nodup _).filter _).filter _
    · apply nodup_map_on _ _ _ (((labelsOf_nodup ref).filter _).filter _)
      intro x hx y hy
      have mx := ((mem_labelsOf ref x).1 (List.mem_filter.1 (List.mem_filter.1 hx).1).1).1
      have my := ((mem_labelsOf ref y).1 (List.mem_filter.1 (List.mem_filter.1 hy).1).1).1
      exact hτ x mx y my
  · intro r hr m
    obtain ⟨e, he, her⟩ := (Values.containsRef_eq_true lm r).1
      (List.mem_filter.1 (List.mem_filter.1 hr).1).2
    have hmem : (e.1, r) ∈ lm := by rw [← her]; exact he
    exact K e.1 r hmem m

/-! ### end to end -/

theorem labelsOf_rename_length (f : Lab → Lab) (a : Flat) (h0 : f 0 = 0)
    (hn : ∀ x ∈ a, x ≠ 0 → f x ≠ 0) (hinj : InjOn f a) :
    (labelsOf (a.map f)).length = (labelsOf a).length := by
  apply labelsOf_map_length
  · intro x hx
    constructor
    · intro h
      exact Classical.byContradiction fun hx0 => hn x hx hx0 h
    · intro h; rw [h]; exact h0
  · intro x hx y hy
    exact hinj x ((mem_labelsOf a x).1 hx).1 y ((mem_labelsOf a y).1 hy).1

theorem pipeline_rename_core (cfg : Config) (mc : MatcherCfg)
    (hin : cfg.input = .UNMATCHED) (hmat : cfg.matcher = some mc) (hk : mc.kind = .naive false)
    (hmm : mc.metric = .IOU ∨ mc.metric = .DSC) (ht : ∃ q, mc.thr = .exact q)
    (bits bits' : Nat) (s : List Nat) (pred ref : Flat) (σ τ : Lab → Lab)
    (hσ0 : σ 0 = 0) (hτ0 : τ 0 = 0)
    (hσn : ∀ x ∈ pred, x ≠ 0 → σ x ≠ 0) (hτn : ∀ x ∈ ref, x ≠ 0 → τ x ≠ 0)
    (hσ : InjOn σ pred) (hτ : InjOn τ ref)
    (hlen : pred.length = ref.length)
    (hb : ∀ x ∈ pred ++ ref, x < 2 ^ 32 - 1) (hb' : ∀ x ∈ pred.map σ ++ ref.map τ, x < 2 ^ 32 - 1)
    (hp : labelsOf pred ≠ []) (hr : labelsOf ref ≠ [])
    (hdet : C03.Determined Score.le mc.metric.decreasing mc.thr (scoredCands mc.metric ⟨s, pred⟩ ⟨s, ref⟩))
    (out out' : PipeOut) (h : pipeline cfg bits ⟨s, pred⟩ ⟨s, ref⟩ = .ok out)
    (h' : pipeline cfg bits' ⟨s, pred.map σ⟩ ⟨s, ref.map τ⟩ = .ok out') :
    out'.tp = out.tp ∧ out'.nRef = out.nRef ∧ out'.nPred = out.nPred ∧
    ∀ m ∈ cfg.evalMetrics, ∀ vals vals', (m, vals) ∈ out.lists → (m, vals') ∈ out'.lists → vals.Perm vals' := by
  have hlp := labelsOf_rename_length σ pred hσ0 hσn hσ
  have hlr := labelsOf_rename_length τ ref hτ0 hτn hτ
  have hp' : labelsOf (pred.map σ) ≠ [] := by
    intro h0
    apply hp
    apply List.eq_nil_of_length_eq_zero
    rw [← hlp, h0]; rfl
  have hr' : labelsOf (ref.map τ) ≠ [] := by
    intro h0
    apply hr
    apply List.eq_nil_of_length_eq_zero
    rw [← hlr, h0]; rfl
  have hlen' : (pred.map σ).length = (ref.map τ).length := by
    rw [List.length_map, List.length_map]; exact hlen
  obtain ⟨lm, hrun, _, _, _, htp, hlists⟩ :=
    Values.pipeline_values cfg bits s pred ref mc hin hmat hlen hb hp hr out h
  obtain ⟨lm', hrun', _, _, _, htp', hlists'⟩ :=
    Values.pipeline_values cfg bits' s (pred.map σ) (ref.map τ) mc hin hmat hlen' hb' hp' hr' out' h'
  obtain ⟨hnp, hnr⟩ := nPred_core cfg mc hin hmat hk bits s pred ref hlen hb hp hr out h
  obtain ⟨hnp', hnr'⟩ := nPred_core cfg mc hin hmat hk bits' s (pred.map σ) (ref.map τ) hlen' hb' hp' hr' out' h'
  have hrel := runMatcher_rename mc hk hmm ht s pred ref σ τ hσ0 hτ0 hσn hτn hσ hτ hlen hb hb' hdet
    lm lm' hrun hrun'
  have hg : Values.Good lm pred ref := Values.runMatcher_good mc ⟨s, pred⟩ ⟨s, ref⟩ hlen hb lm hrun
  have hrefs : (lm.map (·.2)).Nodup := by
    rw [runMatcher_naive mc false hk] at hrun
    cases hrun
    exact C03.injective Score.le mc.metric.decreasing mc.thr _
  have hrefs' : (lm'.map (·.2)).Nodup := by
    rw [runMatcher_naive mc false hk] at hrun'
    cases hrun'
    exact C03.injective Score.le mc.metric.decreasing mc.thr _
  obtain ⟨hperm, hscore⟩ := passing_rename s pred ref σ τ hσ hτ hτn lm lm' cfg.evalMetrics cfg.decision
    hg hrefs hrefs' hrel
  refine ⟨?_, ?_, ?_, ?_⟩
  · rw [htp, htp', hperm.length_eq, List.length_map]
  · rw [hnr', hnr, hlr]
  · rw [hnp', hnp, hlp]
  · intro m _ vals vals' hv hv'
    rw [hlists] at hv
    rw [hlists'] at hv'
    obtain ⟨m1, _, heq1⟩ := List.mem_map.1 hv
    obtain ⟨m2, _, heq2⟩ := List.mem_map.1 hv'
    simp only [Prod.mk.injEq] at heq1 heq2
    obtain ⟨rfl, rfl⟩ := heq1
    obtain ⟨rfl, rfl⟩ := heq2
    refine ((hperm.map _).trans ?_).symm
    rw [List.map_map]
    apply List.Perm.of_eq
    apply List.map_congr_left
    intro r hr2
    exact hscore r hr2 _

end RelabelE2E
end Panoptica
