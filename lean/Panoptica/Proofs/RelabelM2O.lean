/-
  Helper lemmas for Properties/C09PipelineM2O.lean (renaming invariance of the many-to-one threshold matcher, end to
  end). The one-to-one proof (Proofs/RelabelE2E.lean) is generalised from an injective label map to a functional one; the
  lemmas on the relabelling step and on the metric of a reference against a union of predictions come from
  Proofs/RelabelMerge.lean.
-/
import Panoptica.Proofs.RelabelE2E
import Panoptica.Proofs.RelabelMerge
import Panoptica.Proofs.UniqueM2O
import Panoptica.Properties.C03UniqueM2O
namespace Panoptica
namespace RelabelM2O
open Panoptica.C09 Panoptica.Mirror Panoptica.RelabelE2E Panoptica.RelabelMerge

/-! ### `DeterminedM2O` and `ValidMatchingM2O` under congruence, permutation and injective renaming -/

section inv
variable {S : Type} (le : S → S → Bool) (dec : Bool) (thr : S)

theorem determinedM2O_congr (le1 le2 : S → S → Bool) (cs : List (Cand S))
    (hle : ∀ a ∈ cs, ∀ b ∈ cs, le1 a.score b.score = le2 a.score b.score)
    (hb : ∀ c ∈ cs, beats le1 dec c.score thr = beats le2 dec c.score thr)
    (hd : C03.DeterminedM2O le1 dec thr cs) : C03.DeterminedM2O le2 dec thr cs where
  keysNodup := hd.keysNodup
  distinct := by
    intro a ha b hb' hne hp h1 h2
    rw [← hb a ha] at h1
    rw [← hb b hb'] at h2
    have := hd.distinct a ha b hb' hne hp h1 h2
    simpa only [C03.strictlyBetterC, C03.betterEq, hle a ha b hb', hle b hb' a ha] using this

theorem determinedM2O_perm {cs cs2 : List (Cand S)} (hp : cs.Perm cs2)
    (hd : C03.DeterminedM2O le dec thr cs) : C03.DeterminedM2O le dec thr cs2 where
  keysNodup := (hp.map _).nodup_iff.1 hd.keysNodup
  distinct := fun a ha b hb => hd.distinct a (hp.mem_iff.2 ha) b (hp.mem_iff.2 hb)

theorem validM2O_perm {cs cs2 : List (Cand S)} (hp : cs.Perm cs2) {M : List (Lab × Lab)}
    (hM : C03.ValidMatchingM2O le dec thr cs M) : C03.ValidMatchingM2O le dec thr cs2 M where
  sound := by
    intro e he
    obtain ⟨c, hc, h⟩ := hM.sound e he
    exact ⟨c, hp.mem_iff.1 hc, h⟩
  predsNodup := hM.predsNodup
  stable := by
    intro c hc hb hnot
    obtain ⟨c', hc', h⟩ := hM.stable c (hp.mem_iff.2 hc) hb hnot
    exact ⟨c', hp.mem_iff.1 hc', h⟩

variable (σ τ : Lab → Lab)

theorem determinedM2O_relabel {cs : List (Cand S)}
    (hσ : ∀ a ∈ cs, ∀ b ∈ cs, σ a.pred = σ b.pred → a.pred = b.pred)
    (hτ : ∀ a ∈ cs, ∀ b ∈ cs, τ a.ref = τ b.ref → a.ref = b.ref)
    (hd : C03.DeterminedM2O le dec thr cs) :
    C03.DeterminedM2O le dec thr (cs.map (relabelCand σ τ)) where
  keysNodup := by
    have h := hd.keysNodup
    rw [List.map_map]
    unfold List.Nodup at h ⊢
    rw [List.pairwise_map] at h ⊢
    refine h.imp_of_mem ?_
    intro a b ha hb hab heq
    apply hab
    simp only [Function.comp_apply, relabelCand, Prod.mk.injEq] at heq
    rw [hσ a ha b hb heq.1, hτ a ha b hb heq.2]
  distinct := by
    intro a ha b hb hne hp h1 h2
    obtain ⟨a0, ha0, rfl⟩ := List.mem_map.1 ha
    obtain ⟨b0, hb0, rfl⟩ := List.mem_map.1 hb
    have hne0 : (a0.pred, a0.ref) ≠ (b0.pred, b0.ref) := by
      intro h
      apply hne
      simp only [relabelCand, Prod.mk.injEq] at h ⊢
      rw [h.1, h.2]
      exact ⟨rfl, rfl⟩
    have hp0 : a0.pred = b0.pred := hσ a0 ha0 b0 hb0 hp
    exact hd.distinct a0 ha0 b0 hb0 hne0 hp0 h1 h2

theorem validM2O_relabel {cs : List (Cand S)} {M : List (Lab × Lab)}
    (hσ : ∀ a ∈ cs, ∀ b ∈ cs, σ a.pred = σ b.pred → a.pred = b.pred)
    (hM : C03.ValidMatchingM2O le dec thr cs M) :
    C03.ValidMatchingM2O le dec thr (cs.map (relabelCand σ τ)) (M.map (relPair σ τ)) where
  sound := by
    intro e he
    obtain ⟨e0, he0, rfl⟩ := List.mem_map.1 he
    obtain ⟨c, hc, h1, h2, hb⟩ := hM.sound e0 he0
    refine ⟨relabelCand σ τ c, List.mem_map.2 ⟨c, hc, rfl⟩, ?_, ?_, hb⟩
    · simp only [relabelCand, relPair, h1]
    · simp only [relabelCand, relPair, h2]
  predsNodup := by
    have : (M.map (relPair σ τ)).map (·.1) = (M.map (·.1)).map σ := by
      rw [List.map_map, List.map_map]; rfl
    rw [this]
    apply nodup_map_on σ _ _ hM.predsNodup
    intro x hx y hy hxy
    obtain ⟨e, he, rfl⟩ := List.mem_map.1 hx
    obtain ⟨e', he', rfl⟩ := List.mem_map.1 hy
    obtain ⟨c, hc, h1, _, _⟩ := hM.sound e he
    obtain ⟨c', hc', h1', _, _⟩ := hM.sound e' he'
    change σ e.1 = σ e'.1 at hxy
    rw [← h1, ← h1'] at hxy ⊢
    exact hσ c hc c' hc' hxy
  stable := by
    intro c hc hb hnot
    obtain ⟨c0, hc0, rfl⟩ := List.mem_map.1 hc
    have hnot0 : (c0.pred, c0.ref) ∉ M := by
      intro h
      apply hnot
      exact mem_map_relPair_of_mem σ τ M _ _ h
    obtain ⟨c', hc', hin, hp, hs⟩ := hM.stable c0 hc0 hb hnot0
    refine ⟨relabelCand σ τ c', List.mem_map.2 ⟨c', hc', rfl⟩, ?_, ?_, hs⟩
    · exact mem_map_relPair_of_mem σ τ M _ _ hin
    · simp only [relabelCand, hp]

end inv

/-! ### the many-to-one matcher on renamed candidates -/

theorem naive_rel_m2o (dec : Bool) (thr : Score) (σ τ : Lab → Lab) (cs cs' : List (Cand Score))
    (hex : ∀ c ∈ cs, IsExact c.score) (hthr : IsExact thr)
    (hσ : ∀ a ∈ cs, ∀ b ∈ cs, σ a.pred = σ b.pred → a.pred = b.pred)
    (hτ : ∀ a ∈ cs, ∀ b ∈ cs, τ a.ref = τ b.ref → a.ref = b.ref)
    (hperm : cs'.Perm (cs.map (relabelCand σ τ)))
    (hdet : C03.DeterminedM2O Score.le dec thr cs) :
    ∀ e, e ∈ (naiveLoop Score.le dec thr true (sortBest Score.le dec cs)).map (relPair σ τ) ↔
      e ∈ naiveLoop Score.le dec thr true (sortBest Score.le dec cs') := by
  have hex' : ∀ c ∈ cs', IsExact c.score := by
    intro c hc
    obtain ⟨c0, hc0, rfl⟩ := List.mem_map.1 (hperm.mem_iff.1 hc)
    exact hex c0 hc0
  have hle : ∀ (l : List (Cand Score)), (∀ c ∈ l, IsExact c.score) →
      ∀ a ∈ l, ∀ b ∈ l, Score.le a.score b.score = leT a.score b.score :=
    fun l hl a ha b hb => leT_exact (hl a ha) (hl b hb)
  have hbe : ∀ (l : List (Cand Score)), (∀ c ∈ l, IsExact c.score) →
      ∀ c ∈ l, beats Score.le dec c.score thr = beats leT dec c.score thr := by
    intro l hl c hc
    unfold beats
    rw [leT_exact (hl c hc) hthr, leT_exact hthr (hl c hc)]
  have hrew : ∀ (l : List (Cand Score)), (∀ c ∈ l, IsExact c.score) →
      naiveLoop Score.le dec thr true (sortBest Score.le dec l) =
        naiveLoop leT dec thr true (sortBest leT dec l) := by
    intro l hl
    rw [sortBest_congr Score.le leT dec l (hle l hl)]
    apply naiveLoop_congr
    intro c hc
    have hc' : c ∈ l := by
      unfold sortBest at hc
      exact List.mem_mergeSort.1 hc
    exact hbe l hl c hc'
  rw [hrew cs hex, hrew cs' hex']
  have hdT : C03.DeterminedM2O leT dec thr cs :=
    determinedM2O_congr dec thr Score.le leT cs (hle cs hex) (hbe cs hex) hdet
  have hdT' : C03.DeterminedM2O leT dec thr cs' :=
    determinedM2O_perm leT dec thr hperm.symm (determinedM2O_relabel leT dec thr σ τ hσ hτ hdT)
  have hv := C03.naive_valid_m2o leT dec thr leT_total leT_trans cs hdT
  have hv' := validM2O_perm leT dec thr hperm.symm (validM2O_relabel leT dec thr σ τ hσ hv)
  exact C03.unique_m2o leT dec thr leT_total leT_trans cs' hdT' _ hv'

/-- the label map of the renamed pair has exactly the renamed pairs of the original label map -/
theorem runMatcher_rename_m2o (mc : MatcherCfg) (hk : mc.kind = .naive true)
    (hm : mc.metric = .IOU ∨ mc.metric = .DSC) (ht : ∃ q, mc.thr = .exact q)
    (s : List Nat) (pred ref : Flat) (σ τ : Lab → Lab)
    (hσ0 : σ 0 = 0) (hτ0 : τ 0 = 0)
    (hσn : ∀ x ∈ pred, x ≠ 0 → σ x ≠ 0) (hτn : ∀ x ∈ ref, x ≠ 0 → τ x ≠ 0)
    (hσ : InjOn σ pred) (hτ : InjOn τ ref)
    (hlen : pred.length = ref.length)
    (hb : ∀ x ∈ pred ++ ref, x < 2 ^ 32 - 1) (hb' : ∀ x ∈ pred.map σ ++ ref.map τ, x < 2 ^ 32 - 1)
    (hdet : C03.DeterminedM2O Score.le mc.metric.decreasing mc.thr (scoredCands mc.metric ⟨s, pred⟩ ⟨s, ref⟩))
    (lm lm' : LMap) (h : runMatcher mc ⟨s, pred⟩ ⟨s, ref⟩ = .ok lm)
    (h' : runMatcher mc ⟨s, pred.map σ⟩ ⟨s, ref.map τ⟩ = .ok lm') :
    ∀ e, e ∈ lm.map (relPair σ τ) ↔ e ∈ lm' := by
  rw [runMatcher_naive mc true hk] at h h'
  cases h
  cases h'
  have hbp : ∀ x ∈ pred, x < 2 ^ 32 := fun x hx => lt32_of_lt x (bounds_left hb x hx)
  have hbr := bounds_right hb
  have hmem : ∀ c ∈ scoredCands mc.metric ⟨s, pred⟩ ⟨s, ref⟩, c.pred ∈ pred ∧ c.ref ∈ ref := by
    intro c hc
    obtain ⟨_, _, hov⟩ := (C01.scoredCands_spec mc.metric ⟨s, pred⟩ ⟨s, ref⟩ hlen hbp hbr c.ref c.pred).1
      ⟨c, hc, rfl, rfl⟩
    exact List.of_mem_zip ((overlaps_iff pred ref c.ref c.pred).1 hov)
  apply naive_rel_m2o mc.metric.decreasing mc.thr σ τ _ _ ?_ ht ?_ ?_
    (scoredCands_rename_core mc.metric s pred ref σ τ hσ0 hτ0 hσn hτn hσ hτ hb hb') hdet
  · intro c hc
    rw [C01.scoredCands_score mc.metric _ _ c hc]
    exact metricOn_exact mc.metric hm _ _ _ _
  · intro a ha b hb2 h
    exact hσ _ (hmem a ha).1 _ (hmem b hb2).1 h
  · intro a ha b hb2 h
    exact hτ _ (hmem a ha).2 _ (hmem b hb2).2 h

/-! ### label maps with the same pairs -/

theorem containsRef_congr (lm lm' : LMap) (h : ∀ e, e ∈ lm ↔ e ∈ lm') (r : Lab) :
    lm'.containsRef r = lm.containsRef r := by
  rw [Bool.eq_iff_iff, Values.containsRef_eq_true, Values.containsRef_eq_true]
  constructor
  · rintro ⟨e, he, her⟩; exact ⟨e, (h e).2 he, her⟩
  · rintro ⟨e, he, her⟩; exact ⟨e, (h e).1 he, her⟩

theorem predsOf_contains_congr (lm lm' : LMap) (h : ∀ e, e ∈ lm ↔ e ∈ lm') (r : Lab) :
    (fun l => (lm'.predsOf r).contains l) = (fun l => (lm.predsOf r).contains l) := by
  funext l
  rw [Bool.eq_iff_iff, List.contains_iff_mem, List.contains_iff_mem, Values.mem_predsOf, Values.mem_predsOf]
  exact (h (l, r)).symm

/-- the metric of a reference against a union of predictions only depends on the set of predictions -/
theorem metricOn_congr_contains (m : Metric) (pred ref : Arr) (r : Lab) (ps ps' : List Lab)
    (h : (fun l => ps'.contains l) = (fun l => ps.contains l)) :
    metricOn m pred ref r ps' = metricOn m pred ref r ps := by
  have hsel : selPred pred.data ps' = selPred pred.data ps := by
    unfold selPred
    exact congrArg (fun f => pred.data.map f) h
  cases m with
  | IOU => simp only [metricOn, iouSel, selectPair, hsel]
  | DSC => simp only [metricOn, diceSel, selectPair, hsel]
  | RVD => simp only [metricOn, rvdSel, selectPair, hsel]
  | clDSC => rfl
  | ASSD =>
    simp only [metricOn]
    rw [h]

theorem metricOn_congr_lm (m : Metric) (pred ref : Arr) (lm lm' : LMap) (h : ∀ e, e ∈ lm ↔ e ∈ lm') (r : Lab) :
    metricOn m pred ref r (lm'.predsOf r) = metricOn m pred ref r (lm.predsOf r) :=
  metricOn_congr_contains m pred ref r _ _ (predsOf_contains_congr lm lm' h r)

/-! ### the per-instance lists -/

theorem passing_rename_m2o (s : List Nat) (pred ref : Flat) (σ τ : Lab → Lab)
    (hσ : InjOn σ pred) (hτ : InjOn τ ref) (hτn : ∀ x ∈ ref, x ≠ 0 → τ x ≠ 0)
    (lm lm' : LMap) (ms : List Metric) (decision : Option (Metric × Score))
    (hg : Values.Good lm pred ref)
    (hrel : ∀ e, e ∈ lm.map (relPair σ τ) ↔ e ∈ lm') :
    ((((labelsOf (ref.map τ)).filter (fun r => lm'.containsRef r)).filter (fun r =>
        passesDecision Score.le decision (ms.map (fun m =>
          (m, metricOn m ⟨s, pred.map σ⟩ ⟨s, ref.map τ⟩ r (lm'.predsOf r)))))).Perm
      ((((labelsOf ref).filter (fun r => lm.containsRef r)).filter (fun r =>
        passesDecision Score.le decision (ms.map (fun m =>
          (m, metricOn m ⟨s, pred⟩ ⟨s, ref⟩ r (lm.predsOf r)))))).map τ)) ∧
    ∀ r ∈ (((labelsOf ref).filter (fun r => lm.containsRef r)).filter (fun r =>
        passesDecision Score.le decision (ms.map (fun m =>
          (m, metricOn m ⟨s, pred⟩ ⟨s, ref⟩ r (lm.predsOf r)))))), ∀ m,
      metricOn m ⟨s, pred.map σ⟩ ⟨s, ref.map τ⟩ (τ r) (lm'.predsOf (τ r)) =
        metricOn m ⟨s, pred⟩ ⟨s, ref⟩ r (lm.predsOf r) := by
  obtain ⟨hperm, hscore⟩ := passing_rename_merge s pred ref σ τ hσ hτ hτn lm ms decision hg
  have e1 : (fun r => lm'.containsRef r) = (fun r => LMap.containsRef (lm.map (relPair σ τ)) r) := by
    funext r
    exact containsRef_congr _ _ hrel r
  have e2 : (fun r => passesDecision Score.le decision (ms.map (fun m =>
          (m, metricOn m ⟨s, pred.map σ⟩ ⟨s, ref.map τ⟩ r (lm'.predsOf r))))) =
      (fun r => passesDecision Score.le decision (ms.map (fun m =>
          (m, metricOn m ⟨s, pred.map σ⟩ ⟨s, ref.map τ⟩ r (LMap.predsOf (lm.map (relPair σ τ)) r))))) := by
    funext r
    congr 1
    apply List.map_congr_left
    intro m _
    rw [metricOn_congr_lm m _ _ _ _ hrel r]
  refine ⟨?_, ?_⟩
  · rw [e1, e2]
    exact hperm
  · intro r hr m
    rw [metricOn_congr_lm m _ _ _ _ hrel (τ r)]
    exact hscore r hr m

/-! ### the number of instances of the relabelled prediction -/

theorem nPred_rename_m2o (pred ref : Flat) (σ τ : Lab → Lab)
    (hσ0 : σ 0 = 0) (hσn : ∀ x ∈ pred, x ≠ 0 → σ x ≠ 0)
    (hσ : InjOn σ pred) (hτ : InjOn τ ref) (lm lm' : LMap)
    (hrel : ∀ e, e ∈ lm.map (relPair σ τ) ↔ e ∈ lm')
    (hg : Values.Good lm pred ref)
    (hg' : Values.Good lm' (pred.map σ) (ref.map τ)) :
    (labelsOf ((pred.map σ).map (Values.rf lm' (pred.map σ) (ref.map τ)))).length =
      (labelsOf (pred.map (Values.rf lm pred ref))).length := by
  rw [List.map_map]
  have hkeys : ∀ e ∈ lm, e.1 ∈ pred := fun e he => ((mem_labelsOf pred _).1 (hg.keys e he)).1
  have hvals : ∀ e ∈ lm, e.2 ∈ ref := fun e he => ((mem_labelsOf ref _).1 (hg.vals e he)).1
  apply labelsOf_length_congr
  · intro x hx
    simp only [Function.comp_apply]
    rw [rf_eq_zero_iff hg' (σ x) (List.mem_map.2 ⟨x, hx, rfl⟩), rf_eq_zero_iff hg x hx]
    constructor
    · intro h
      exact Classical.byContradiction fun hx0 => hσn x hx hx0 h
    · intro h; rw [h]; exact hσ0
  · intro x hx y hy
    simp only [Function.comp_apply]
    rw [rf_kernel hg' (σ x) (σ y) (List.mem_map.2 ⟨x, hx, rfl⟩) (List.mem_map.2 ⟨y, hy, rfl⟩),
      rf_kernel hg x y hx hy]
    constructor
    · rintro (h | ⟨r', h1, h2⟩)
      · exact .inl (hσ x hx y hy h)
      · obtain ⟨r1, m1, e1⟩ := (mem_map_relPair σ τ pred hσ lm hkeys x hx r').1 ((hrel _).2 h1)
        obtain ⟨r2, m2, e2⟩ := (mem_map_relPair σ τ pred hσ lm hkeys y hy r').1 ((hrel _).2 h2)
        have : r1 = r2 := hτ r1 (hvals _ m1) r2 (hvals _ m2) (e1.trans e2.symm)
        subst this
        exact .inr ⟨r1, m1, m2⟩
    · rintro (h | ⟨r, h1, h2⟩)
      · exact .inl (by rw [h])
      · exact .inr ⟨τ r, (hrel _).1 ((mem_map_relPair σ τ pred hσ lm hkeys x hx _).2 ⟨r, h1, rfl⟩),
          (hrel _).1 ((mem_map_relPair σ τ pred hσ lm hkeys y hy _).2 ⟨r, h2, rfl⟩)⟩

/-! ### end to end -/

theorem pipeline_rename_m2o_core (cfg : Config) (mc : MatcherCfg)
    (hin : cfg.input = .UNMATCHED) (hmat : cfg.matcher = some mc) (hk : mc.kind = .naive true)
    (hmm : mc.metric = .IOU ∨ mc.metric = .DSC) (ht : ∃ q, mc.thr = .exact q)
    (bits bits' : Nat) (s : List Nat) (pred ref : Flat) (σ τ : Lab → Lab)
    (hσ0 : σ 0 = 0) (hτ0 : τ 0 = 0)
    (hσn : ∀ x ∈ pred, x ≠ 0 → σ x ≠ 0) (hτn : ∀ x ∈ ref, x ≠ 0 → τ x ≠ 0)
    (hσ : InjOn σ pred) (hτ : InjOn τ ref)
    (hlen : pred.length = ref.length)
    (hb : ∀ x ∈ pred ++ ref, x < 2 ^ 32 - 1) (hb' : ∀ x ∈ pred.map σ ++ ref.map τ, x < 2 ^ 32 - 1)
    (hp : labelsOf pred ≠ []) (hr : labelsOf ref ≠ [])
    (hdet : C03.DeterminedM2O Score.le mc.metric.decreasing mc.thr (scoredCands mc.metric ⟨s, pred⟩ ⟨s, ref⟩))
    (out out' : PipeOut) (h : pipeline cfg bits ⟨s, pred⟩ ⟨s, ref⟩ = .ok out)
    (h' : pipeline cfg bits' ⟨s, pred.map σ⟩ ⟨s, ref.map τ⟩ = .ok out') :
    out'.tp = out.tp ∧ out'.nRef = out.nRef ∧ out'.nPred = out.nPred ∧
    ∀ m ∈ cfg.evalMetrics, ∀ vals vals', (m, vals) ∈ out.lists → (m, vals') ∈ out'.lists → vals.Perm vals' := by
  have hlp := labelsOf_rename_length σ pred hσ0 hσn hσ
  have hlr := labelsOf_rename_length τ ref hτ0 hτn hτ
  have hp' : labelsOf (pred.map σ) ≠ [] := by
    intro h0
    apply hp
    apply List.eq_nil_of_length_eq_zero
    rw [← hlp, h0]; rfl
  have hr' : labelsOf (ref.map τ) ≠ [] := by
    intro h0
    apply hr
    apply List.eq_nil_of_length_eq_zero
    rw [← hlr, h0]; rfl
  have hlen' : (pred.map σ).length = (ref.map τ).length := by
    rw [List.length_map, List.length_map]; exact hlen
  obtain ⟨lm, hrun, _, _, hnr, htp, hlists⟩ :=
    Values.pipeline_values cfg bits s pred ref mc hin hmat hlen hb hp hr out h
  obtain ⟨lm', hrun', _, _, hnr', htp', hlists'⟩ :=
    Values.pipeline_values cfg bits' s (pred.map σ) (ref.map τ) mc hin hmat hlen' hb' hp' hr' out' h'
  obtain ⟨lm2, hrun2, hnp⟩ := pipeline_nPred cfg bits s pred ref mc hin hmat hlen hb hp hr out h
  obtain ⟨lm2', hrun2', hnp'⟩ :=
    pipeline_nPred cfg bits' s (pred.map σ) (ref.map τ) mc hin hmat hlen' hb' hp' hr' out' h'
  have e2 : lm2 = lm := Except.ok.inj (hrun2.symm.trans hrun)
  have e2' : lm2' = lm' := Except.ok.inj (hrun2'.symm.trans hrun')
  subst e2 e2'
  have hrel := runMatcher_rename_m2o mc hk hmm ht s pred ref σ τ hσ0 hτ0 hσn hτn hσ hτ hlen hb hb' hdet
    lm2 lm2' hrun hrun'
  have hg : Values.Good lm2 pred ref := Values.runMatcher_good mc ⟨s, pred⟩ ⟨s, ref⟩ hlen hb lm2 hrun
  have hg' : Values.Good lm2' (pred.map σ) (ref.map τ) :=
    Values.runMatcher_good mc ⟨s, pred.map σ⟩ ⟨s, ref.map τ⟩ hlen' hb' _ hrun'
  obtain ⟨hperm, hscore⟩ := passing_rename_m2o s pred ref σ τ hσ hτ hτn lm2 lm2' cfg.evalMetrics cfg.decision
    hg hrel
  refine ⟨?_, ?_, ?_, ?_⟩
  · rw [htp, htp', hperm.length_eq, List.length_map]
  · rw [hnr', hnr, hlr]
  · rw [hnp', hnp]
    exact nPred_rename_m2o pred ref σ τ hσ0 hσn hσ hτ lm2 lm2' hrel hg hg'
  · intro m _ vals vals' hv hv'
    rw [hlists] at hv
    rw [hlists'] at hv'
    obtain ⟨m1, _, heq1⟩ := List.mem_map.1 hv
    obtain ⟨m2, _, heq2⟩ := List.mem_map.1 hv'
    simp only [Prod.mk.injEq] at heq1 heq2
    obtain ⟨rfl, rfl⟩ := heq1
    obtain ⟨rfl, rfl⟩ := heq2
    refine ((hperm.map _).trans ?_).symm
    rw [List.map_map]
    apply List.Perm.of_eq
    apply List.map_congr_left
    intro r hr2
    exact hscore r hr2 _

end RelabelM2O
end Panoptica
