/-
  Helper lemmas for Properties/C09Merge.lean (renaming invariance of the merge matcher, end to end).
-/
import Panoptica.Proofs.RelabelE2E
import Panoptica.Proofs.MergeBest
namespace Panoptica
namespace RelabelMerge
open Panoptica.C09 Panoptica.Mirror Panoptica.RelabelE2E

/-! ### the merge loop commutes with an injective renaming of the candidates -/

section loop
variable {S : Type} (σ τ : Lab → Lab)

/-- renamed state of the merge loop -/
def renState (st : MergeState S) : MergeState S :=
  { lmap := st.lmap.map (relPair σ τ), scores := st.scores.map (fun e => (τ e.1, e.2)) }

theorem predsOf_map (m : LMap) (r : Lab) (hτ : ∀ e ∈ m, τ e.2 = τ r → e.2 = r) :
    LMap.predsOf (m.map (relPair σ τ)) (τ r) = (LMap.predsOf m r).map σ := by
  induction m with
  | nil => rfl
  | cons e m ih =>
    have ih' := ih (fun e' he' => hτ e' (List.mem_cons_of_mem _ he'))
    have he := hτ e (List.mem_cons_self ..)
    unfold LMap.predsOf at ih' ⊢
    rw [List.map_cons, List.filter_cons, List.filter_cons]
    by_cases h : e.2 = r
    · have h1 : ((relPair σ τ e).2 == τ r) = true := by simp [relPair, h]
      have h2 : (e.2 == r) = true := by simp [h]
      rw [h1, h2]
      simp only [if_true, List.map_cons, ih']
      rfl
    · have h1 : ((relPair σ τ e).2 == τ r) = false := by
        rw [beq_eq_false_iff_ne]
        intro hc
        exact h (he hc)
      have h2 : (e.2 == r) = false := by simpa using h
      rw [h1, h2]
      simpa using ih'

theorem get?_map (s : ScoreRef S) (r : Lab) (hτ : ∀ e ∈ s, τ e.1 = τ r → e.1 = r) :
    ScoreRef.get? (s.map (fun e => (τ e.1, e.2))) (τ r) = ScoreRef.get? s r := by
  induction s with
  | nil => rfl
  | cons e s ih =>
    have ih' := ih (fun e' he' => hτ e' (List.mem_cons_of_mem _ he'))
    have he := hτ e (List.mem_cons_self ..)
    unfold ScoreRef.get? at ih' ⊢
    rw [List.map_cons, List.find?_cons, List.find?_cons]
    by_cases h : e.1 = r
    · have h1 : ((τ e.1, e.2).1 == τ r) = true := by simp [h]
      have h2 : (e.1 == r) = true := by simp [h]
      rw [h1, h2]
      rfl
    · have h1 : ((τ e.1, e.2).1 == τ r) = false := by
        rw [beq_eq_false_iff_ne]
        intro hc
        exact h (he hc)
      have h2 : (e.1 == r) = false := by simpa using h
      rw [h1, h2]
      exact ih'

theorem key_beq (r : Lab) (e : Lab × S) (he : τ e.1 = τ r → e.1 = r) :
    ((τ e.1, e.2).1 == τ r) = (e.1 == r) := by
  by_cases h : e.1 = r
  · simp [h]
  · have h' : τ e.1 ≠ τ r := fun hc => h (he hc)
    simp [h, h']

theorem any_map_key (s : ScoreRef S) (r : Lab) (hτ : ∀ e ∈ s, τ e.1 = τ r → e.1 = r) :
    (s.map (fun e => (τ e.1, e.2))).any (fun e => e.1 == τ r) = s.any (fun e => e.1 == r) := by
  induction s with
  | nil => rfl
  | cons e s ih =>
    rw [List.map_cons, List.any_cons, List.any_cons, key_beq τ r e (hτ e (List.mem_cons_self ..)),
      ih (fun e' he' => hτ e' (List.mem_cons_of_mem _ he'))]

theorem set_map (s : ScoreRef S) (r : Lab) (x : S) (hτ : ∀ e ∈ s, τ e.1 = τ r → e.1 = r) :
    ScoreRef.set (s.map (fun e => (τ e.1, e.2))) (τ r) x =
      (ScoreRef.set s r x).map (fun e => (τ e.1, e.2)) := by
  unfold ScoreRef.set
  rw [any_map_key τ s r hτ]
  split
  · rw [List.map_map, List.map_map]
    apply List.map_congr_left
    intro e he
    simp only [Function.comp_apply]
    rw [key_beq τ r e (hτ e he)]
    split <;> rfl
  · rw [List.map_append]
    rfl

end loop

section fold
variable {S : Type} (le : S → S → Bool) (dec : Bool) (thr : S) (comb comb' : Lab → List Lab → S)
  (σ τ : Lab → Lab) (P Q : Lab → Prop)

/-- all labels of the state belong to the sets on which the renamings are injective -/
structure StInv (st : MergeState S) : Prop where
  lm : ∀ e ∈ st.lmap, P e.1 ∧ Q e.2
  sc : ∀ e ∈ st.scores, Q e.1

theorem mem_set (s : ScoreRef S) (r : Lab) (x : S) (e : Lab × S) (he : e ∈ s.set r x) :
    e ∈ s ∨ e.1 = r := by
  unfold ScoreRef.set at he
  split at he
  · obtain ⟨e0, he0, rfl⟩ := List.mem_map.1 he
    split
    · exact .inr rfl
    · exact .inl he0
  · rcases List.mem_append.1 he with h | h
    · exact .inl h
    · rw [List.mem_singleton] at h
      subst h
      exact .inr rfl

theorem StInv_step (st : MergeState S) (c : Cand S) (h : StInv P Q st) (hc : P c.pred ∧ Q c.ref) :
    StInv P Q (mergeStep le dec thr comb st c) := by
  have key : ∀ x, StInv P Q { lmap := st.lmap ++ [(c.pred, c.ref)], scores := st.scores.set c.ref x } := by
    intro x
    constructor
    · intro e he
      rcases List.mem_append.1 he with he | he
      · exact h.lm e he
      · rw [List.mem_singleton] at he
        subst he
        exact hc
    · intro e he
      rcases mem_set _ _ _ e he with he | he
      · exact h.sc e he
      · rw [he]; exact hc.2
  rcases mergeStep_cases le dec thr comb st c with e | ⟨_, _, _, e⟩ | ⟨_, _, _, _, _, e⟩
  · rw [e]; exact h
  · rw [e]; exact key _
  · rw [e]; exact key _

theorem step_ren
    (hσ : ∀ a b, P a → P b → σ a = σ b → a = b) (hτ : ∀ a b, Q a → Q b → τ a = τ b → a = b)
    (hcomb : ∀ r ps, Q r → (∀ p ∈ ps, P p) → comb' (τ r) (ps.map σ) = comb r ps)
    (st : MergeState S) (c : Cand S) (hinv : StInv P Q st) (hc : P c.pred ∧ Q c.ref) :
    mergeStep le dec thr comb' (renState σ τ st) (relabelCand σ τ c) =
      renState σ τ (mergeStep le dec thr comb st c) := by
  have h1 : LMap.containsPred (st.lmap.map (relPair σ τ)) (σ c.pred) = LMap.containsPred st.lmap c.pred :=
    containsPred_map (relPair σ τ) σ st.lmap c.pred (fun _ => rfl)
      (fun e he h => hσ _ _ (hinv.lm e he).1 hc.1 h)
  have h2 : LMap.containsRef (st.lmap.map (relPair σ τ)) (τ c.ref) = LMap.containsRef st.lmap c.ref :=
    containsRef_map (relPair σ τ) τ st.lmap c.ref (fun _ => rfl)
      (fun e he h => hτ _ _ (hinv.lm e he).2 hc.2 h)
  have h3 := predsOf_map σ τ st.lmap c.ref (fun e he h => hτ _ _ (hinv.lm e he).2 hc.2 h)
  have h4 := get?_map τ st.scores c.ref (fun e he h => hτ _ _ (hinv.sc e he) hc.2 h)
  have h5 := fun x => set_map τ st.scores c.ref x (fun e he h => hτ _ _ (hinv.sc e he) hc.2 h)
  have h6 : comb' (τ c.ref) ((st.lmap.predsOf c.ref).map σ ++ [σ c.pred]) =
      comb c.ref (st.lmap.predsOf c.ref ++ [c.pred]) := by
    have : (st.lmap.predsOf c.ref).map σ ++ [σ c.pred] = (st.lmap.predsOf c.ref ++ [c.pred]).map σ := by
      rw [List.map_append]; rfl
    rw [this]
    apply hcomb _ _ hc.2
    intro p hp
    rcases List.mem_append.1 hp with hp | hp
    · unfold LMap.predsOf at hp
      obtain ⟨e, he, rfl⟩ := List.mem_map.1 hp
      exact (hinv.lm e (List.mem_filter.1 he).1).1
    · rw [List.mem_singleton] at hp
      rw [hp]; exact hc.1
  unfold mergeStep
  simp only [renState, relabelCand, h1, h2, h3, h4, h5, h6]
  by_cases hp : st.lmap.containsPred c.pred = true
  · simp only [hp, if_true]
  · simp only [hp, Bool.false_eq_true, if_false]
    by_cases hr : st.lmap.containsRef c.ref = true
    · simp only [hr, if_true]
      cases hg : st.scores.get? c.ref with
      | none => rfl
      | some old =>
        simp only []
        by_cases hs : strictlyBetter le dec (comb c.ref (st.lmap.predsOf c.ref ++ [c.pred])) old = true
        · simp only [hs, if_true, List.map_append, List.map_cons, List.map_nil, relPair]
        · simp only [hs, Bool.false_eq_true, if_false]
    · simp only [hr, Bool.false_eq_true, if_false]
      by_cases hb : beats le dec c.score thr = true
      · simp only [hb, if_true, List.map_append, List.map_cons, List.map_nil, relPair]
      · simp only [hb, Bool.false_eq_true, if_false]

theorem fold_ren
    (hσ : ∀ a b, P a → P b → σ a = σ b → a = b) (hτ : ∀ a b, Q a → Q b → τ a = τ b → a = b)
    (hcomb : ∀ r ps, Q r → (∀ p ∈ ps, P p) → comb' (τ r) (ps.map σ) = comb r ps)
    (cs : List (Cand S)) (hcs : ∀ c ∈ cs, P c.pred ∧ Q c.ref)
    (st : MergeState S) (hinv : StInv P Q st) :
    (cs.map (relabelCand σ τ)).foldl (mergeStep le dec thr comb') (renState σ τ st) =
      renState σ τ (cs.foldl (mergeStep le dec thr comb) st) := by
  induction cs generalizing st with
  | nil => rfl
  | cons c cs ih =>
    have hc := hcs c (List.mem_cons_self ..)
    rw [List.map_cons, List.foldl_cons, List.foldl_cons,
      step_ren le dec thr comb comb' σ τ P Q hσ hτ hcomb st c hinv hc]
    exact ih (fun c' hc' => hcs c' (List.mem_cons_of_mem _ hc')) _
      (StInv_step le dec thr comb P Q st c hinv hc)

theorem mergeLoop_ren
    (hσ : ∀ a b, P a → P b → σ a = σ b → a = b) (hτ : ∀ a b, Q a → Q b → τ a = τ b → a = b)
    (hcomb : ∀ r ps, Q r → (∀ p ∈ ps, P p) → comb' (τ r) (ps.map σ) = comb r ps)
    (cs : List (Cand S)) (hcs : ∀ c ∈ cs, P c.pred ∧ Q c.ref) :
    mergeLoop le dec thr comb' (cs.map (relabelCand σ τ)) =
      renState σ τ (mergeLoop le dec thr comb cs) := by
  unfold mergeLoop
  exact fold_ren le dec thr comb comb' σ τ P Q hσ hτ hcomb cs hcs { lmap := [], scores := [] }
    ⟨fun e he => (by cases he), fun e he => (by cases he)⟩

end fold

/-! ### metrics of a renamed pair, reference against a union of predictions -/

theorem contains_map_inj (σ : Lab → Lab) (pred : Flat) (hσ : InjOn σ pred) (ps : List Lab)
    (hps : ∀ p ∈ ps, p ∈ pred) (x : Lab) (hx : x ∈ pred) :
    (ps.map σ).contains (σ x) = ps.contains x := by
  rw [Bool.eq_iff_iff, List.contains_iff_mem, List.contains_iff_mem, List.mem_map]
  constructor
  · rintro ⟨y, hy, h⟩
    rw [← hσ y (hps y hy) x hx h]; exact hy
  · intro h
    exact ⟨x, h, rfl⟩

theorem metricOn_rename_list (m : Metric) (s : List Nat) (pred ref : Flat) (σ τ : Lab → Lab)
    (hσ : InjOn σ pred) (hτ : InjOn τ ref) (r : Lab) (ps : List Lab) (hr : r ∈ ref)
    (hps : ∀ p ∈ ps, p ∈ pred) :
    metricOn m ⟨s, pred.map σ⟩ ⟨s, ref.map τ⟩ (τ r) (ps.map σ) = metricOn m ⟨s, pred⟩ ⟨s, ref⟩ r ps := by
  have h1 : selRef (ref.map τ) (τ r) = selRef ref r := selRef_relabel τ ref hτ r hr
  have h2 : selPred (pred.map σ) (ps.map σ) = selPred pred ps := selPred_relabel σ pred hσ ps hps
  cases m with
  | IOU => simp only [metricOn, iouSel, selectPair, h1, h2]
  | DSC => simp only [metricOn, diceSel, selectPair, h1, h2]
  | RVD => simp only [metricOn, rvdSel, selectPair, h1, h2]
  | clDSC => rfl
  | ASSD =>
    simp only [metricOn]
    rw [Values.coordsWhere_map s ref τ (fun l => l == τ r) (fun l => l == r),
      Values.coordsWhere_map s pred σ (fun l => (ps.map σ).contains l) (fun l => ps.contains l)]
    · intro x hx
      exact contains_map_inj σ pred hσ ps hps x hx
    · intro x hx
      rw [Bool.eq_iff_iff, beq_iff_eq, beq_iff_eq]
      exact ⟨fun h => hτ x hx r hr h, fun h => by rw [h]⟩

/-! ### best-first order of a permuted candidate list with pairwise distinct scores -/

theorem eq_of_score_eq (l : List (Cand Score)) (hd : l.Pairwise (fun a b => a.score ≠ b.score))
    (a b : Cand Score) (ha : a ∈ l) (hb : b ∈ l) (h : a.score = b.score) : a = b := by
  induction l with
  | nil => cases ha
  | cons x l ih =>
    rw [List.pairwise_cons] at hd
    rcases List.mem_cons.1 ha with rfl | ha' <;> rcases List.mem_cons.1 hb with rfl | hb'
    · rfl
    · exact absurd h (hd.1 b hb')
    · exact absurd h.symm (hd.1 a ha')
    · exact ih hd.2 ha' hb'

theorem leT_antisymm {a b : Score} (ha : IsExact a) (hb : IsExact b)
    (h1 : leT a b = true) (h2 : leT b a = true) : a = b := by
  obtain ⟨x, rfl⟩ := ha
  obtain ⟨y, rfl⟩ := hb
  simp only [leT, decide_eq_true_eq] at h1 h2
  rw [Rat.le_antisymm h1 h2]

theorem sortBest_map {S : Type} (le : S → S → Bool) (dec : Bool) (σ τ : Lab → Lab) (cs : List (Cand S)) :
    sortBest le dec (cs.map (relabelCand σ τ)) = (sortBest le dec cs).map (relabelCand σ τ) := by
  unfold sortBest
  exact (List.map_mergeSort
    (r := fun (a b : Cand S) => if dec then le a.score b.score else le b.score a.score)
    (s := fun (a b : Cand S) => if dec then le a.score b.score else le b.score a.score)
    (f := relabelCand σ τ) (l := cs) (fun a _ b _ => rfl)).symm

theorem sortBest_perm_eq (dec : Bool) (l1 l2 : List (Cand Score)) (hperm : l1.Perm l2)
    (hex : ∀ c ∈ l2, IsExact c.score) (hd : l2.Pairwise (fun a b => a.score ≠ b.score)) :
    sortBest Score.le dec l1 = sortBest Score.le dec l2 := by
  have hex1 : ∀ c ∈ l1, IsExact c.score := fun c hc => hex c (hperm.mem_iff.1 hc)
  rw [sortBest_congr Score.le leT dec l1 (fun a ha b hb => leT_exact (hex1 a ha) (hex1 b hb)),
    sortBest_congr Score.le leT dec l2 (fun a ha b hb => leT_exact (hex a ha) (hex b hb))]
  have p1 := sortBest_pairwise leT dec leT_trans leT_total l1
  have p2 := sortBest_pairwise leT dec leT_trans leT_total l2
  have hp : (sortBest leT dec l1).Perm (sortBest leT dec l2) := by
    unfold sortBest
    exact ((List.mergeSort_perm _ _).trans hperm).trans (List.mergeSort_perm _ _).symm
  refine List.Perm.eq_of_pairwise ?_ p1 p2 hp
  intro a b ha hb h1 h2
  have ha2 : a ∈ l2 := hperm.mem_iff.1 ((mem_sortBest leT dec l1 a).1 ha)
  have hb2 : b ∈ l2 := (mem_sortBest leT dec l2 b).1 hb
  apply eq_of_score_eq l2 hd a b ha2 hb2
  unfold betterEq at h1 h2
  cases dec
  · simp only [Bool.false_eq_true, if_false] at h1 h2
    exact leT_antisymm (hex a ha2) (hex b hb2) h2 h1
  · simp only [if_true] at h1 h2
    exact leT_antisymm (hex a ha2) (hex b hb2) h1 h2

/-! ### the merge matcher on a renamed pair -/

theorem runMatcher_merge (mc : MatcherCfg) (hk : mc.kind = .merge) (pred ref : Arr) :
    runMatcher mc pred ref = .ok (mergeMatch Score.le mc.metric.decreasing mc.thr
      (fun r ps => metricOn mc.metric pred ref r ps) (scoredCands mc.metric pred ref)).lmap := by
  unfold runMatcher
  rw [hk]

theorem runMatcher_rename_merge_core (mc : MatcherCfg) (hk : mc.kind = .merge)
    (hm : mc.metric = .IOU ∨ mc.metric = .DSC)
    (s : List Nat) (pred ref : Flat) (σ τ : Lab → Lab)
    (hσ0 : σ 0 = 0) (hτ0 : τ 0 = 0)
    (hσn : ∀ x ∈ pred, x ≠ 0 → σ x ≠ 0) (hτn : ∀ x ∈ ref, x ≠ 0 → τ x ≠ 0)
    (hσ : InjOn σ pred) (hτ : InjOn τ ref)
    (hlen : pred.length = ref.length)
    (hb : ∀ x ∈ pred ++ ref, x < 2 ^ 32 - 1) (hb' : ∀ x ∈ pred.map σ ++ ref.map τ, x < 2 ^ 32 - 1)
    (hdist : (scoredCands mc.metric ⟨s, pred⟩ ⟨s, ref⟩).Pairwise (fun a b => a.score ≠ b.score))
    (lm lm' : LMap) (h : runMatcher mc ⟨s, pred⟩ ⟨s, ref⟩ = .ok lm)
    (h' : runMatcher mc ⟨s, pred.map σ⟩ ⟨s, ref.map τ⟩ = .ok lm') :
    lm' = lm.map (relPair σ τ) := by
  rw [runMatcher_merge mc hk] at h h'
  cases h
  cases h'
  have hbp : ∀ x ∈ pred, x < 2 ^ 32 := fun x hx => lt32_of_lt x (bounds_left hb x hx)
  have hbr := bounds_right hb
  have hmem : ∀ c ∈ scoredCands mc.metric ⟨s, pred⟩ ⟨s, ref⟩, c.pred ∈ pred ∧ c.ref ∈ ref := by
    intro c hc
    obtain ⟨_, _, hov⟩ := (C01.scoredCands_spec mc.metric ⟨s, pred⟩ ⟨s, ref⟩ hlen hbp hbr c.ref c.pred).1
      ⟨c, hc, rfl, rfl⟩
    exact List.of_mem_zip ((overlaps_iff pred ref c.ref c.pred).1 hov)
  have hperm := scoredCands_rename_core mc.metric s pred ref σ τ hσ0 hτ0 hσn hτn hσ hτ hb hb'
  have hex : ∀ c ∈ (scoredCands mc.metric ⟨s, pred⟩ ⟨s, ref⟩).map (relabelCand σ τ), IsExact c.score := by
    intro c hc
    obtain ⟨c0, hc0, rfl⟩ := List.mem_map.1 hc
    change IsExact c0.score
    rw [C01.scoredCands_score mc.metric _ _ c0 hc0]
    exact metricOn_exact mc.metric hm _ _ _ _
  have hd : ((scoredCands mc.metric ⟨s, pred⟩ ⟨s, ref⟩).map (relabelCand σ τ)).Pairwise
      (fun a b => a.score ≠ b.score) := by
    rw [List.pairwise_map]
    exact hdist
  unfold mergeMatch
  rw [sortBest_perm_eq mc.metric.decreasing _ _ hperm hex hd, sortBest_map,
    mergeLoop_ren Score.le mc.metric.decreasing mc.thr
      (fun r ps => metricOn mc.metric ⟨s, pred⟩ ⟨s, ref⟩ r ps)
      (fun r ps => metricOn mc.metric ⟨s, pred.map σ⟩ ⟨s, ref.map τ⟩ r ps) σ τ
      (fun x => x ∈ pred) (fun x => x ∈ ref)
      (fun a b ha hb2 h => hσ a ha b hb2 h) (fun a b ha hb2 h => hτ a ha b hb2 h)
      (fun r ps hr hps => metricOn_rename_list mc.metric s pred ref σ τ hσ hτ r ps hr hps)
      _ (fun c hc => hmem c ((mem_sortBest _ _ _ c).1 hc))]
  rfl

/-! ### number of distinct labels of a mapped array -/

theorem length_insertSorted (x : Nat) (l : List Nat) (h : l.Pairwise (· < ·)) :
    (insertSorted x l).length = if x ∈ l then l.length else l.length + 1 := by
  induction l with
  | nil => simp [insertSorted]
  | cons y ys ih =>
    rw [List.pairwise_cons] at h
    have ih' := ih h.2
    unfold insertSorted
    by_cases h1 : x < y
    · have hn : x ∉ y :: ys := by
        intro hm
        rcases List.mem_cons.1 hm with rfl | hm
        · exact Nat.lt_irrefl _ h1
        · exact Nat.lt_asymm h1 (h.1 x hm)
      simp only [h1, if_true, hn, if_false, List.length_cons]
    · by_cases h2 : x = y
      · subst h2
        simp only [Nat.lt_irrefl, if_false, if_true, List.mem_cons_self]
      · simp only [h1, h2, if_false, List.length_cons, ih', List.mem_cons, false_or]
        split <;> rfl

theorem labelsOf_cons (y : Lab) (b : Flat) :
    labelsOf (y :: b) = if y = 0 then labelsOf b else insertSorted y (labelsOf b) := by
  unfold labelsOf
  rw [List.filter_cons]
  by_cases h : y = 0
  · subst h; rfl
  · have : (y != 0) = true := by simpa using h
    rw [this]
    simp only [if_true, h, if_false]
    rfl

theorem labelsOf_length_congr (a : Flat) (f g : Lab → Lab)
    (h0 : ∀ x ∈ a, (f x = 0 ↔ g x = 0))
    (hk : ∀ x ∈ a, ∀ y ∈ a, (f x = f y ↔ g x = g y)) :
    (labelsOf (a.map f)).length = (labelsOf (a.map g)).length := by
  induction a with
  | nil => rfl
  | cons x a ih =>
    have ih' := ih (fun y hy => h0 y (List.mem_cons_of_mem _ hy))
      (fun y hy z hz => hk y (List.mem_cons_of_mem _ hy) z (List.mem_cons_of_mem _ hz))
    have hx0 := h0 x (List.mem_cons_self ..)
    rw [List.map_cons, List.map_cons, labelsOf_cons, labelsOf_cons]
    by_cases hf : f x = 0
    · have hg : g x = 0 := hx0.1 hf
      simp only [hf, hg, if_true]
      exact ih'
    · have hg : ¬ g x = 0 := fun h => hf (hx0.2 h)
      simp only [hf, hg, if_false]
      rw [length_insertSorted _ _ (Values.labelsOf_sorted _), length_insertSorted _ _ (Values.labelsOf_sorted _), ih']
      have hiff : f x ∈ labelsOf (a.map f) ↔ g x ∈ labelsOf (a.map g) := by
        rw [mem_labelsOf, mem_labelsOf, List.mem_map, List.mem_map]
        constructor
        · rintro ⟨⟨y, hy, hyx⟩, _⟩
          exact ⟨⟨y, hy, (hk y (List.mem_cons_of_mem _ hy) x (List.mem_cons_self ..)).1 hyx⟩, hg⟩
        · rintro ⟨⟨y, hy, hyx⟩, _⟩
          exact ⟨⟨y, hy, (hk y (List.mem_cons_of_mem _ hy) x (List.mem_cons_self ..)).2 hyx⟩, hf⟩
      by_cases hm : f x ∈ labelsOf (a.map f)
      · simp only [hm, hiff.1 hm, if_true]
      · have hm' : g x ∉ labelsOf (a.map g) := fun h => hm (hiff.2 h)
        simp only [hm, hm', if_false]

/-! ### which labels the relabelling step identifies -/

section kernel
variable {lm : LMap} {pred ref : Flat}

theorem rf_eq_zero_iff (hg : Values.Good lm pred ref) (x : Lab) (hx : x ∈ pred) :
    Values.rf lm pred ref x = 0 ↔ x = 0 := by
  have hlm0 : ∀ e ∈ lm, e.2 ≠ 0 := fun e he => ((mem_labelsOf ref _).1 (hg.vals e he)).2
  constructor
  · intro h
    refine Classical.byContradiction fun hx0 => ?_
    exact C04.foreground_kept lm (labelsOf ref) (labelsOf pred) hlm0 x
      ((mem_labelsOf pred x).2 ⟨hx, hx0⟩) h
  · intro h
    rw [h]; exact Values.rf_zero hg

theorem rf_kernel (hg : Values.Good lm pred ref) (x y : Lab) (hx : x ∈ pred) (hy : y ∈ pred) :
    Values.rf lm pred ref x = Values.rf lm pred ref y ↔
      x = y ∨ ∃ r, (x, r) ∈ lm ∧ (y, r) ∈ lm := by
  have key0 : ∀ r, (0, r) ∉ lm := fun r h => ((mem_labelsOf pred _).1 (hg.keys _ h)).2 rfl
  by_cases hx0 : x = 0
  · subst hx0
    rw [Values.rf_zero hg]
    constructor
    · intro h
      exact .inl ((rf_eq_zero_iff hg y hy).1 h.symm).symm
    · rintro (h | ⟨r, h, _⟩)
      · rw [← h, Values.rf_zero hg]
      · exact absurd h (key0 r)
  · by_cases hy0 : y = 0
    · subst hy0
      rw [Values.rf_zero hg]
      constructor
      · intro h
        exact .inl ((rf_eq_zero_iff hg x hx).1 h)
      · rintro (h | ⟨r, _, h⟩)
        · rw [h, Values.rf_zero hg]
        · exact absurd h (key0 r)
    · have hxl : x ∈ labelsOf pred := (mem_labelsOf pred x).2 ⟨hx, hx0⟩
      have hyl : y ∈ labelsOf pred := (mem_labelsOf pred y).2 ⟨hy, hy0⟩
      rw [C04.partition_preserved lm (labelsOf ref) (labelsOf pred) (labelsOf_nodup pred)
        hg.vals x y hxl hyl]
      constructor
      · rintro (h | ⟨r, h1, h2⟩)
        · exact .inl h
        · exact .inr ⟨r, Values.lookup_some_mem lm x r h1, Values.lookup_some_mem lm y r h2⟩
      · rintro (h | ⟨r, h1, h2⟩)
        · exact .inl h
        · exact .inr ⟨r, Values.lookup_of_mem hg (x, r) h1, Values.lookup_of_mem hg (y, r) h2⟩

end kernel

theorem mem_map_relPair (σ τ : Lab → Lab) (pred : Flat) (hσ : InjOn σ pred) (lm : LMap)
    (hkeys : ∀ e ∈ lm, e.1 ∈ pred) (x : Lab) (hx : x ∈ pred) (r' : Lab) :
    (σ x, r') ∈ lm.map (relPair σ τ) ↔ ∃ r, (x, r) ∈ lm ∧ τ r = r' := by
  rw [List.mem_map]
  constructor
  · rintro ⟨e, he, heq⟩
    simp only [relPair, Prod.mk.injEq] at heq
    have : e.1 = x := hσ e.1 (hkeys e he) x hx heq.1
    refine ⟨e.2, ?_, heq.2⟩
    rw [← this]; exact he
  · rintro ⟨r, h, rfl⟩
    exact ⟨(x, r), h, rfl⟩

/-- the number of instances of the relabelled prediction is unchanged by the renaming -/
theorem nPred_rename (pred ref : Flat) (σ τ : Lab → Lab)
    (hσ0 : σ 0 = 0) (hσn : ∀ x ∈ pred, x ≠ 0 → σ x ≠ 0)
    (hσ : InjOn σ pred) (hτ : InjOn τ ref) (lm : LMap)
    (hg : Values.Good lm pred ref)
    (hg' : Values.Good (lm.map (relPair σ τ)) (pred.map σ) (ref.map τ)) :
    (labelsOf ((pred.map σ).map (Values.rf (lm.map (relPair σ τ)) (pred.map σ) (ref.map τ)))).length =
      (labelsOf (pred.map (Values.rf lm pred ref))).length := by
  rw [List.map_map]
  have hkeys : ∀ e ∈ lm, e.1 ∈ pred := fun e he => ((mem_labelsOf pred _).1 (hg.keys e he)).1
  have hvals : ∀ e ∈ lm, e.2 ∈ ref := fun e he => ((mem_labelsOf ref _).1 (hg.vals e he)).1
  apply labelsOf_length_congr
  · intro x hx
    simp only [Function.comp_apply]
    rw [rf_eq_zero_iff hg' (σ x) (List.mem_map.2 ⟨x, hx, rfl⟩), rf_eq_zero_iff hg x hx]
    constructor
    · intro h
      exact Classical.byContradiction fun hx0 => hσn x hx hx0 h
    · intro h; rw [h]; exact hσ0
  · intro x hx y hy
    simp only [Function.comp_apply]
    rw [rf_kernel hg' (σ x) (σ y) (List.mem_map.2 ⟨x, hx, rfl⟩) (List.mem_map.2 ⟨y, hy, rfl⟩),
      rf_kernel hg x y hx hy]
    constructor
    · rintro (h | ⟨r', h1, h2⟩)
      · exact .inl (hσ x hx y hy h)
      · obtain ⟨r1, m1, e1⟩ := (mem_map_relPair σ τ pred hσ lm hkeys x hx r').1 h1
        obtain ⟨r2, m2, e2⟩ := (mem_map_relPair σ τ pred hσ lm hkeys y hy r').1 h2
        have : r1 = r2 := hτ r1 (hvals _ m1) r2 (hvals _ m2) (e1.trans e2.symm)
        subst this
        exact .inr ⟨r1, m1, m2⟩
    · rintro (h | ⟨r, h1, h2⟩)
      · exact .inl (by rw [h])
      · exact .inr ⟨τ r, (mem_map_relPair σ τ pred hσ lm hkeys x hx _).2 ⟨r, h1, rfl⟩,
          (mem_map_relPair σ τ pred hσ lm hkeys y hy _).2 ⟨r, h2, rfl⟩⟩

/-! ### the per-instance lists -/

theorem passing_rename_merge (s : List Nat) (pred ref : Flat) (σ τ : Lab → Lab)
    (hσ : InjOn σ pred) (hτ : InjOn τ ref) (hτn : ∀ x ∈ ref, x ≠ 0 → τ x ≠ 0)
    (lm : LMap) (ms : List Metric) (decision : Option (Metric × Score))
    (hg : Values.Good lm pred ref) :
    ((((labelsOf (ref.map τ)).filter (fun r => LMap.containsRef (lm.map (relPair σ τ)) r)).filter (fun r =>
        passesDecision Score.le decision (ms.map (fun m =>
          (m, metricOn m ⟨s, pred.map σ⟩ ⟨s, ref.map τ⟩ r (LMap.predsOf (lm.map (relPair σ τ)) r)))))).Perm
      ((((labelsOf ref).filter (fun r => lm.containsRef r)).filter (fun r =>
        passesDecision Score.le decision (ms.map (fun m =>
          (m, metricOn m ⟨s, pred⟩ ⟨s, ref⟩ r (lm.predsOf r)))))).map τ)) ∧
    ∀ r ∈ (((labelsOf ref).filter (fun r => lm.containsRef r)).filter (fun r =>
        passesDecision Score.le decision (ms.map (fun m =>
          (m, metricOn m ⟨s, pred⟩ ⟨s, ref⟩ r (lm.predsOf r)))))), ∀ m,
      metricOn m ⟨s, pred.map σ⟩ ⟨s, ref.map τ⟩ (τ r) (LMap.predsOf (lm.map (relPair σ τ)) (τ r)) =
        metricOn m ⟨s, pred⟩ ⟨s, ref⟩ r (lm.predsOf r) := by
  have hin : ∀ p r, (p, r) ∈ lm → p ∈ pred ∧ r ∈ ref := fun p r h =>
    ⟨((mem_labelsOf pred p).1 (hg.keys (p, r) h)).1, ((mem_labelsOf ref r).1 (hg.vals (p, r) h)).1⟩
  have K : ∀ p r, (p, r) ∈ lm → ∀ m,
      metricOn m ⟨s, pred.map σ⟩ ⟨s, ref.map τ⟩ (τ r) (LMap.predsOf (lm.map (relPair σ τ)) (τ r)) =
        metricOn m ⟨s, pred⟩ ⟨s, ref⟩ r (lm.predsOf r) := by
    intro p r h m
    rw [predsOf_map σ τ lm r (fun e he heq => hτ e.2 (hin e.1 e.2 he).2 r (hin p r h).2 heq)]
    apply metricOn_rename_list m s pred ref σ τ hσ hτ r _ (hin p r h).2
    intro q hq
    exact (hin q r ((Values.mem_predsOf lm r q).1 hq)).1
  have D : ∀ p r, (p, r) ∈ lm →
      ms.map (fun m => (m, metricOn m ⟨s, pred.map σ⟩ ⟨s, ref.map τ⟩ (τ r)
        (LMap.predsOf (lm.map (relPair σ τ)) (τ r)))) =
        ms.map (fun m => (m, metricOn m ⟨s, pred⟩ ⟨s, ref⟩ r (lm.predsOf r))) := by
    intro p r h
    apply List.map_congr_left
    intro m _
    rw [K p r h m]
  refine ⟨?_, ?_⟩
  · apply (List.perm_ext_iff_of_nodup ?_ ?_).2
    · intro x
      simp only [List.mem_filter, List.mem_map, Values.containsRef_eq_true]
      constructor
      · rintro ⟨⟨_, e, ⟨⟨p, r⟩, he0, rfl⟩, rfl⟩, hpass⟩
        refine ⟨r, ⟨⟨hg.vals (p, r) he0, (p, r), he0, rfl⟩, ?_⟩, rfl⟩
        rw [← D p r he0]; exact hpass
      · rintro ⟨r, ⟨⟨hr, e, he, rfl⟩, hpass⟩, rfl⟩
        have hmem : (e.1, e.2) ∈ lm := he
        have hr' := (mem_labelsOf ref e.2).1 hr
        refine ⟨⟨(mem_labelsOf _ _).2 ⟨List.mem_map.2 ⟨e.2, hr'.1, rfl⟩, hτn e.2 hr'.1 hr'.2⟩,
          (σ e.1, τ e.2), ⟨e, he, rfl⟩, rfl⟩, ?_⟩
        rw [D e.1 e.2 hmem]; exact hpass
    · exact ((labelsOf_nodup _).filter _).filter _
    · apply nodup_map_on _ _ _ (((labelsOf_nodup ref).filter _).filter _)
      intro x hx y hy
      have mx := ((mem_labelsOf ref x).1 (List.mem_filter.1 (List.mem_filter.1 hx).1).1).1
      have my := ((mem_labelsOf ref y).1 (List.mem_filter.1 (List.mem_filter.1 hy).1).1).1
      exact hτ x mx y my
  · intro r hr m
    obtain ⟨e, he, her⟩ := (Values.containsRef_eq_true lm r).1
      (List.mem_filter.1 (List.mem_filter.1 hr).1).2
    have hmem : (e.1, r) ∈ lm := by rw [← her]; exact he
    exact K e.1 r hmem m

/-! ### end to end -/

theorem pipeline_rename_merge_core (cfg : Config) (mc : MatcherCfg)
    (hin : cfg.input = .UNMATCHED) (hmat : cfg.matcher = some mc) (hk : mc.kind = .merge)
    (hmm : mc.metric = .IOU ∨ mc.metric = .DSC)
    (bits bits' : Nat) (s : List Nat) (pred ref : Flat) (σ τ : Lab → Lab)
    (hσ0 : σ 0 = 0) (hτ0 : τ 0 = 0)
    (hσn : ∀ x ∈ pred, x ≠ 0 → σ x ≠ 0) (hτn : ∀ x ∈ ref, x ≠ 0 → τ x ≠ 0)
    (hσ : InjOn σ pred) (hτ : InjOn τ ref)
    (hlen : pred.length = ref.length)
    (hb : ∀ x ∈ pred ++ ref, x < 2 ^ 32 - 1) (hb' : ∀ x ∈ pred.map σ ++ ref.map τ, x < 2 ^ 32 - 1)
    (hp : labelsOf pred ≠ []) (hr : labelsOf ref ≠ [])
    (hdist : (scoredCands mc.metric ⟨s, pred⟩ ⟨s, ref⟩).Pairwise (fun a b => a.score ≠ b.score))
    (out out' : PipeOut) (h : pipeline cfg bits ⟨s, pred⟩ ⟨s, ref⟩ = .ok out)
    (h' : pipeline cfg bits' ⟨s, pred.map σ⟩ ⟨s, ref.map τ⟩ = .ok out') :
    out'.tp = out.tp ∧ out'.nRef = out.nRef ∧ out'.nPred = out.nPred ∧
    ∀ m ∈ cfg.evalMetrics, ∀ vals vals', (m, vals) ∈ out.lists → (m, vals') ∈ out'.lists → vals.Perm vals' := by
  have hlp := labelsOf_rename_length σ pred hσ0 hσn hσ
  have hlr := labelsOf_rename_length τ ref hτ0 hτn hτ
  have hp' : labelsOf (pred.map σ) ≠ [] := by
    intro h0
    apply hp
    apply List.eq_nil_of_length_eq_zero
    rw [← hlp, h0]; rfl
  have hr' : labelsOf (ref.map τ) ≠ [] := by
    intro h0
    apply hr
    apply List.eq_nil_of_length_eq_zero
    rw [← hlr, h0]; rfl
  have hlen' : (pred.map σ).length = (ref.map τ).length := by
    rw [List.length_map, List.length_map]; exact hlen
  obtain ⟨lm, hrun, _, _, hnr, htp, hlists⟩ :=
    Values.pipeline_values cfg bits s pred ref mc hin hmat hlen hb hp hr out h
  obtain ⟨lm', hrun', _, _, hnr', htp', hlists'⟩ :=
    Values.pipeline_values cfg bits' s (pred.map σ) (ref.map τ) mc hin hmat hlen' hb' hp' hr' out' h'
  obtain ⟨lm2, hrun2, hnp⟩ := pipeline_nPred cfg bits s pred ref mc hin hmat hlen hb hp hr out h
  obtain ⟨lm2', hrun2', hnp'⟩ :=
    pipeline_nPred cfg bits' s (pred.map σ) (ref.map τ) mc hin hmat hlen' hb' hp' hr' out' h'
  have e2 : lm2 = lm := Except.ok.inj (hrun2.symm.trans hrun)
  have e2' : lm2' = lm' := Except.ok.inj (hrun2'.symm.trans hrun')
  subst e2 e2'
  have hrel : lm2' = lm2.map (relPair σ τ) :=
    runMatcher_rename_merge_core mc hk hmm s pred ref σ τ hσ0 hτ0 hσn hτn hσ hτ hlen hb hb' hdist
      lm2 lm2' hrun hrun'
  subst hrel
  have hg : Values.Good lm2 pred ref := Values.runMatcher_good mc ⟨s, pred⟩ ⟨s, ref⟩ hlen hb lm2 hrun
  have hg' : Values.Good (lm2.map (relPair σ τ)) (pred.map σ) (ref.map τ) :=
    Values.runMatcher_good mc ⟨s, pred.map σ⟩ ⟨s, ref.map τ⟩ hlen' hb' _ hrun'
  obtain ⟨hperm, hscore⟩ := passing_rename_merge s pred ref σ τ hσ hτ hτn lm2 cfg.evalMetrics cfg.decision hg
  refine ⟨?_, ?_, ?_, ?_⟩
  · rw [htp, htp', hperm.length_eq, List.length_map]
  · rw [hnr', hnr, hlr]
  · rw [hnp', hnp]
    exact nPred_rename pred ref σ τ hσ0 hσn hσ hτ lm2 hg hg'
  · intro m _ vals vals' hv hv'
    rw [hlists] at hv
    rw [hlists'] at hv'
    obtain ⟨m1, _, heq1⟩ := List.mem_map.1 hv
    obtain ⟨m2, _, heq2⟩ := List.mem_map.1 hv'
    simp only [Prod.mk.injEq] at heq1 heq2
    obtain ⟨rfl, rfl⟩ := heq1
    obtain ⟨rfl, rfl⟩ := heq2
    refine ((hperm.map _).trans ?_).symm
    rw [List.map_map]
    apply List.Perm.of_eq
    apply List.map_congr_left
    intro r hr2
    exact hscore r hr2 _

end RelabelMerge
end Panoptica
