/- helper lemmas for Properties/C09Semantic.lean (C09 for semantic input: the component labelling commutes
   *exactly* — same order, same numbers — with a map of the vertices that is injective and keeps adjacency) -/
import Panoptica.Proofs.SemanticE2E
import Panoptica.Proofs.RelabelE2E
namespace Panoptica.RenameSemantic
open Panoptica

/-! ### Level 1: saturation and numbering under an order-preserving map of the vertex list -/

theorem find?_congr_on {γ : Type} {p q : γ → Bool} : ∀ (l : List γ), (∀ x ∈ l, p x = q x) →
    l.find? p = l.find? q
  | [], _ => rfl
  | x :: l, h => by
    rw [List.find?_cons, List.find?_cons, h x (List.mem_cons_self ..),
      find?_congr_on l (fun y hy => h y (List.mem_cons_of_mem _ hy))]

section generic
set_option linter.unusedSectionVars false
variable {α β : Type} [BEq α] [LawfulBEq α] [BEq β] [LawfulBEq β]

theorem beq_map_on (g : α → β) (V : List α)
    (hinj : ∀ a b, a ∈ V → b ∈ V → g a = g b → a = b) (a b : α) (ha : a ∈ V) (hb : b ∈ V) :
    (g a == g b) = (a == b) := by
  rw [Bool.eq_iff_iff, beq_iff_eq, beq_iff_eq]
  exact ⟨hinj a b ha hb, fun h => h ▸ rfl⟩

theorem contains_map_on (g : α → β) (V : List α)
    (hinj : ∀ a b, a ∈ V → b ∈ V → g a = g b → a = b) (S : List α) (hS : ∀ s ∈ S, s ∈ V)
    (v : α) (hv : v ∈ V) : (S.map g).contains (g v) = S.contains v := by
  rw [Bool.eq_iff_iff, List.contains_iff_mem, List.contains_iff_mem, List.mem_map]
  constructor
  · rintro ⟨s, hs, e⟩
    rw [← hinj s v (hS s hs) hv e]
    exact hs
  · intro h
    exact ⟨v, h, rfl⟩

theorem expand_sub (adj : α → α → Bool) (V S : List α) : ∀ x ∈ expand adj V S, x ∈ V :=
  fun _ hx => (List.mem_filter.1 hx).1

theorem expand_map (adj : α → α → Bool) (adj' : β → β → Bool) (g : α → β) (V : List α)
    (hinj : ∀ a b, a ∈ V → b ∈ V → g a = g b → a = b)
    (hadj : ∀ a b, a ∈ V → b ∈ V → adj' (g a) (g b) = adj a b)
    (S : List α) (hS : ∀ s ∈ S, s ∈ V) :
    expand adj' (V.map g) (S.map g) = (expand adj V S).map g := by
  unfold expand
  rw [List.filter_map]
  congr 1
  apply List.filter_congr
  intro v hv
  simp only [Function.comp_apply]
  rw [contains_map_on g V hinj S hS v hv, List.any_map]
  congr 1
  rw [Bool.eq_iff_iff, List.any_eq_true, List.any_eq_true]
  constructor
  · rintro ⟨s, hs, h⟩
    refine ⟨s, hs, ?_⟩
    rw [← hadj s v (hS s hs) hv]
    exact h
  · rintro ⟨s, hs, h⟩
    refine ⟨s, hs, ?_⟩
    simp only [Function.comp_apply]
    rw [hadj s v (hS s hs) hv]
    exact h

theorem iter_sub (adj : α → α → Bool) (V : List α) : ∀ (n : Nat) (S : List α), (∀ s ∈ S, s ∈ V) →
    ∀ x ∈ iter adj V n S, x ∈ V
  | 0, _, hS => hS
  | n + 1, S, _ => iter_sub adj V n (expand adj V S) (expand_sub adj V S)

theorem iter_map (adj : α → α → Bool) (adj' : β → β → Bool) (g : α → β) (V : List α)
    (hinj : ∀ a b, a ∈ V → b ∈ V → g a = g b → a = b)
    (hadj : ∀ a b, a ∈ V → b ∈ V → adj' (g a) (g b) = adj a b) :
    ∀ (n : Nat) (S : List α), (∀ s ∈ S, s ∈ V) →
      iter adj' (V.map g) n (S.map g) = (iter adj V n S).map g
  | 0, _, _ => rfl
  | n + 1, S, hS => by
    show iter adj' (V.map g) n (expand adj' (V.map g) (S.map g)) = _
    rw [expand_map adj adj' g V hinj hadj S hS]
    exact iter_map adj adj' g V hinj hadj n _ (expand_sub adj V S)

theorem closure_sub (adj : α → α → Bool) (V : List α) (v : α) : ∀ x ∈ closure adj V v, x ∈ V :=
  iter_sub adj V _ _ (fun _ hs => (List.mem_filter.1 hs).1)

theorem closure_map (adj : α → α → Bool) (adj' : β → β → Bool) (g : α → β) (V : List α)
    (hinj : ∀ a b, a ∈ V → b ∈ V → g a = g b → a = b)
    (hadj : ∀ a b, a ∈ V → b ∈ V → adj' (g a) (g b) = adj a b) (v : α) (hv : v ∈ V) :
    closure adj' (V.map g) (g v) = (closure adj V v).map g := by
  unfold closure
  have hseed : (V.map g).filter (· == g v) = (V.filter (· == v)).map g := by
    rw [List.filter_map]
    congr 1
    apply List.filter_congr
    intro x hx
    exact beq_map_on g V hinj x v hx hv
  rw [hseed, List.length_map]
  exact iter_map adj adj' g V hinj hadj _ _ (fun _ hs => (List.mem_filter.1 hs).1)

/-- the map on numbering tables -/
def tmap (g : α → β) (e : α × Nat) : β × Nat := (g e.1, e.2)

theorem ccGo_map (adj : α → α → Bool) (adj' : β → β → Bool) (g : α → β) (V : List α)
    (hinj : ∀ a b, a ∈ V → b ∈ V → g a = g b → a = b)
    (hadj : ∀ a b, a ∈ V → b ∈ V → adj' (g a) (g b) = adj a b) :
    ∀ (rest : List α) (acc : List (α × Nat)) (next : Nat), (∀ x ∈ rest, x ∈ V) → (∀ e ∈ acc, e.1 ∈ V) →
      ccGo adj' (V.map g) (rest.map g) (acc.map (tmap g)) next = (ccGo adj V rest acc next).map (tmap g)
  | [], _, _, _, _ => rfl
  | v :: rest, acc, next, hrest, hacc => by
    have hv : v ∈ V := hrest v (List.mem_cons_self ..)
    have hrest' : ∀ x ∈ rest, x ∈ V := fun x hx => hrest x (List.mem_cons_of_mem _ hx)
    have hany : (acc.map (tmap g)).any (fun e => e.1 == g v) = acc.any (fun e => e.1 == v) := by
      rw [List.any_map, Bool.eq_iff_iff, List.any_eq_true, List.any_eq_true]
      constructor
      · rintro ⟨e, he, h⟩
        refine ⟨e, he, ?_⟩
        rw [← beq_map_on g V hinj e.1 v (hacc e he) hv]
        exact h
      · rintro ⟨e, he, h⟩
        refine ⟨e, he, ?_⟩
        show (g e.1 == g v) = true
        rw [beq_map_on g V hinj e.1 v (hacc e he) hv]
        exact h
    rw [List.map_cons]
    unfold ccGo
    rw [hany]
    by_cases hc : acc.any (fun e => e.1 == v) = true
    · rw [if_pos hc, if_pos hc]
      exact ccGo_map adj adj' g V hinj hadj rest acc next hrest' hacc
    · rw [if_neg hc, if_neg hc]
      simp only []
      rw [closure_map adj adj' g V hinj hadj v hv]
      have hacc' : ∀ e ∈ acc ++ (closure adj V v).map (fun x => (x, next)), e.1 ∈ V := by
        intro e he
        rcases List.mem_append.1 he with he | he
        · exact hacc e he
        · obtain ⟨x, hx, rfl⟩ := List.mem_map.1 he
          exact closure_sub adj V v x hx
      have := ccGo_map adj adj' g V hinj hadj rest _ (next + 1) hrest' hacc'
      rw [← this, List.map_append, List.map_map, List.map_map]
      rfl

theorem ccLabel_map (adj : α → α → Bool) (adj' : β → β → Bool) (g : α → β) (V : List α)
    (hinj : ∀ a b, a ∈ V → b ∈ V → g a = g b → a = b)
    (hadj : ∀ a b, a ∈ V → b ∈ V → adj' (g a) (g b) = adj a b) :
    ccLabel adj' (V.map g) = (ccLabel adj V).map (tmap g) :=
  ccGo_map adj adj' g V hinj hadj V [] 1 (fun _ h => h) (fun _ h => nomatch h)

theorem ccCount_map (adj : α → α → Bool) (adj' : β → β → Bool) (g : α → β) (V : List α)
    (hinj : ∀ a b, a ∈ V → b ∈ V → g a = g b → a = b)
    (hadj : ∀ a b, a ∈ V → b ∈ V → adj' (g a) (g b) = adj a b) :
    ccCount adj' (V.map g) = ccCount adj V := by
  unfold ccCount
  rw [ccLabel_map adj adj' g V hinj hadj, List.map_map]
  rfl

theorem lab_map (g : α → β) (V : List α)
    (hinj : ∀ a b, a ∈ V → b ∈ V → g a = g b → a = b)
    (tbl : List (α × Nat)) (htbl : ∀ e ∈ tbl, e.1 ∈ V) (v : α) (hv : v ∈ V) :
    SemanticE2E.lab (tbl.map (tmap g)) (g v) = SemanticE2E.lab tbl v := by
  unfold SemanticE2E.lab
  rw [List.find?_map]
  have : List.find? ((fun e : β × Nat => e.1 == g v) ∘ tmap g) tbl = List.find? (fun e => e.1 == v) tbl := by
    apply find?_congr_on
    intro e he
    exact beq_map_on g V hinj e.1 v (htbl e he) hv
  rw [this]
  cases List.find? (fun e => e.1 == v) tbl <;> rfl

end generic

/-! ### Level 2: arrays -/

/-- the renaming on labelled voxels -/
def vmap (σ : Lab → Lab) (v : Coord × Lab) : Coord × Lab := (v.1, σ v.2)

/-- the renamed array -/
abbrev ren (σ : Lab → Lab) (a : Arr) : Arr := { a with data := a.data.map σ }

theorem voxels_ren (σ : Lab → Lab) (a : Arr) : (ren σ a).voxels = a.voxels.map (vmap σ) := by
  show (allCoords a.shape).zip (a.data.map σ) = ((allCoords a.shape).zip a.data).map (vmap σ)
  rw [List.zip_map_right]
  rfl

theorem snd_mem_data (a : Arr) (v : Coord × Lab) (h : v ∈ a.voxels) : v.2 ∈ a.data :=
  (List.of_mem_zip (a := v.1) (b := v.2) h).2

theorem fg_ren (σ : Lab → Lab) (a : Arr) (h : C09.Renaming σ a.data) :
    (ren σ a).fg = a.fg.map (vmap σ) := by
  unfold Arr.fg
  rw [voxels_ren, List.filter_map]
  congr 1
  apply List.filter_congr
  intro v hv
  simp only [Function.comp_apply]
  rw [Bool.eq_iff_iff, bne_iff_ne, bne_iff_ne]
  show σ v.2 ≠ 0 ↔ v.2 ≠ 0
  constructor
  · intro h1 h2
    rw [h2, h.zero] at h1
    exact h1 rfl
  · exact h.nonzero v.2 (snd_mem_data a v hv)

theorem vmap_inj (σ : Lab → Lab) (a : Arr) (h : C09.Renaming σ a.data) :
    ∀ x y, x ∈ a.fg → y ∈ a.fg → vmap σ x = vmap σ y → x = y := by
  intro x y hx hy e
  have e' := Prod.mk.inj e
  exact Prod.ext e'.1 (h.inj x.2 (snd_mem_data a x (SemanticE2E.fg_sub_voxels a x hx))
    y.2 (snd_mem_data a y (SemanticE2E.fg_sub_voxels a y hy)) e'.2)

theorem vmap_adj (b : Backend) (σ : Lab → Lab) (a : Arr) (h : C09.Renaming σ a.data) :
    ∀ x y, x ∈ a.fg → y ∈ a.fg → backendAdj b (vmap σ x) (vmap σ y) = backendAdj b x y := by
  intro x y hx hy
  cases b
  · show (fullAdj x.1 y.1 && σ x.2 == σ y.2) = (fullAdj x.1 y.1 && x.2 == y.2)
    congr 1
    rw [Bool.eq_iff_iff, beq_iff_eq, beq_iff_eq]
    exact ⟨h.inj x.2 (snd_mem_data a x (SemanticE2E.fg_sub_voxels a x hx))
      y.2 (snd_mem_data a y (SemanticE2E.fg_sub_voxels a y hy)), fun e => e ▸ rfl⟩
  · rfl

theorem components_rename_core (b : Backend) (a : Arr) (σ : Lab → Lab) (h : C09.Renaming σ a.data) :
    connectedComponents b (ren σ a) = connectedComponents b a := by
  have hinj := vmap_inj σ a h
  have hadj := vmap_adj b σ a h
  obtain ⟨_, _, hsub⟩ := C05.cc_total (backendAdj b) (C05.backendAdj_symm b) a.fg (SemanticE2E.fg_nodup a)
  unfold connectedComponents
  simp only []
  rw [fg_ren σ a h, ccCount_map (backendAdj b) (backendAdj b) (vmap σ) a.fg hinj hadj,
    ccLabel_map (backendAdj b) (backendAdj b) (vmap σ) a.fg hinj hadj, voxels_ren, List.map_map]
  congr 2
  apply List.map_congr_left
  intro v hv
  simp only [Function.comp_apply]
  by_cases h0 : v.2 = 0
  · have : (vmap σ v).2 = 0 := by show σ v.2 = 0; rw [h0, h.zero]
    rw [this, h0]
    rfl
  · have hvf : v ∈ a.fg := (SemanticE2E.mem_fg a v).2 ⟨hv, h0⟩
    have h0' : (vmap σ v).2 ≠ 0 := h.nonzero v.2 (snd_mem_data a v hv) h0
    simp only [beq_iff_eq, h0, h0', if_false]
    rw [SemanticE2E.lookupLabel_eq_lab, SemanticE2E.lookupLabel_eq_lab]
    exact lab_map (vmap σ) a.fg hinj _ hsub v hvf

/-! ### Level 3: the SEMANTIC branch -/

theorem labelsOf_nil_iff (d : Flat) : labelsOf d = [] ↔ ∀ x ∈ d, x = 0 := by
  constructor
  · intro hnil x hx
    refine Classical.byContradiction fun hne => ?_
    have := (mem_labelsOf d x).2 ⟨hx, hne⟩
    rw [hnil] at this
    cases this
  · intro hall
    rw [List.eq_nil_iff_forall_not_mem]
    intro x hx
    obtain ⟨h1, h2⟩ := (mem_labelsOf d x).1 hx
    exact h2 (hall x h1)

theorem labelsOf_ren_nil_iff (σ : Lab → Lab) (d : Flat) (h : C09.Renaming σ d) :
    labelsOf (d.map σ) = [] ↔ labelsOf d = [] := by
  rw [labelsOf_nil_iff, labelsOf_nil_iff]
  constructor
  · intro hall x hx
    refine Classical.byContradiction fun hne => ?_
    exact h.nonzero x hx hne (hall _ (List.mem_map_of_mem hx))
  · intro hall y hy
    obtain ⟨x, hx, rfl⟩ := List.mem_map.1 hy
    rw [hall x hx, h.zero]

theorem semPart_ren (b : Backend) (a : Arr) (σ : Lab → Lab) (h : C09.Renaming σ a.data) :
    SemanticE2E.semPart b (ren σ a) = SemanticE2E.semPart b a := by
  unfold SemanticE2E.semPart
  by_cases he : (labelsOf a.data).isEmpty = true
  · have he' : (labelsOf (ren σ a).data).isEmpty = true := by
      rw [List.isEmpty_iff] at he ⊢
      exact (labelsOf_ren_nil_iff σ a.data h).2 he
    rw [if_pos he, if_pos he']
    have hall := (labelsOf_nil_iff a.data).1 (List.isEmpty_iff.1 he)
    have : a.data.map σ = a.data := by
      conv => rhs; rw [← List.map_id a.data]
      apply List.map_congr_left
      intro x hx
      rw [hall x hx, h.zero]
      rfl
    show (({ a with data := a.data.map σ } : Arr), 0) = (a, 0)
    rw [this]
  · have he' : ¬ (labelsOf (ren σ a).data).isEmpty = true := by
      intro h1
      apply he
      rw [List.isEmpty_iff] at h1 ⊢
      exact (labelsOf_ren_nil_iff σ a.data h).1 h1
    rw [if_neg he, if_neg he']
    exact components_rename_core b a σ h

theorem pipeline_rename_semantic_core (cfg : Config) (hin : cfg.input = .SEMANTIC) (bits bits' : Nat)
    (pred ref : Arr) (σ τ : Lab → Lab) (hσ : C09.Renaming σ pred.data) (hτ : C09.Renaming τ ref.data) :
    pipeline cfg bits' (ren σ pred) (ren τ ref) = pipeline cfg bits pred ref := by
  rw [SemanticE2E.pipeline_semantic cfg bits' _ _ hin, SemanticE2E.pipeline_semantic cfg bits pred ref hin]
  show matchPhase cfg _ (SemanticE2E.semPart (cfg.backend.getD (defaultBackend pred.shape.length)) (ren σ pred)).1
    (SemanticE2E.semPart (cfg.backend.getD (defaultBackend pred.shape.length)) (ren τ ref)).1 _ _ = _
  rw [semPart_ren _ pred σ hσ, semPart_ren _ ref τ hτ]

end Panoptica.RenameSemantic
