/- helper lemmas for C02 / C08 / C13 (result bookkeeping, edge-case handler) -/
import Panoptica.Proofs.Basic
import Panoptica.Model.Result
import Panoptica.Model.Evaluate
import Mathlib.Tactic.Ring
import Mathlib.Tactic.Linarith
import Mathlib.Tactic.FieldSimp
import Mathlib.Tactic.Positivity
import Mathlib.Tactic.NormNum
import Mathlib.Algebra.Order.Field.Basic
import Mathlib.Data.Rat.Cast.Order
namespace Panoptica

/-! ### `sumR` -/

theorem foldl_add_acc (l : List Rat) (a : Rat) : l.foldl (· + ·) a = a + l.foldl (· + ·) 0 := by
  induction l generalizing a with
  | nil => simp
  | cons x xs ih =>
    simp only [List.foldl_cons]
    rw [ih (a + x), ih (0 + x)]
    ring

@[simp] theorem sumR_nil : sumR [] = 0 := rfl

theorem sumR_cons (x : Rat) (xs : List Rat) : sumR (x :: xs) = x + sumR xs := by
  unfold sumR
  rw [List.foldl_cons, foldl_add_acc]
  ring

theorem sumR_nonneg (l : List Rat) (h : ∀ x ∈ l, 0 ≤ x) : 0 ≤ sumR l := by
  induction l with
  | nil => simp
  | cons x xs ih =>
    rw [sumR_cons]
    have h1 := h x (List.mem_cons_self ..)
    have h2 := ih (fun y hy => h y (List.mem_cons_of_mem _ hy))
    linarith

theorem sumR_le_length (l : List Rat) (h : ∀ x ∈ l, x ≤ 1) : sumR l ≤ (l.length : Rat) := by
  induction l with
  | nil => simp
  | cons x xs ih =>
    rw [sumR_cons, List.length_cons]
    have h1 := h x (List.mem_cons_self ..)
    have h2 := ih (fun y hy => h y (List.mem_cons_of_mem _ hy))
    push_cast
    linarith

theorem sumR_le_sumR (xs ys : List Rat) (hlen : xs.length = ys.length)
    (h : ∀ p ∈ xs.zip ys, p.1 ≤ p.2) : sumR xs ≤ sumR ys := by
  induction xs generalizing ys with
  | nil =>
    cases ys with
    | nil => exact le_refl _
    | cons y ys => simp at hlen
  | cons x xs ih =>
    cases ys with
    | nil => simp at hlen
    | cons y ys =>
      rw [sumR_cons, sumR_cons]
      have h1 : x ≤ y := h (x, y) (by simp)
      have h2 := ih ys (by simpa using hlen)
        (fun p hp => h p (by rw [List.zip_cons_cons]; exact List.mem_cons_of_mem _ hp))
      linarith

theorem length_cast_pos (l : List Rat) (hne : l ≠ []) : (0 : Rat) < (l.length : Rat) := by
  have : 0 < l.length := List.length_pos_iff.2 hne
  exact_mod_cast this

/-! ### evaluator -/

theorem length_filterMap_of_isSome {α β : Type} (f : α → Option β) (l : List α)
    (h : ∀ a ∈ l, (f a).isSome = true) : (l.filterMap f).length = l.length := by
  induction l with
  | nil => rfl
  | cons a as ih =>
    have ha := h a (List.mem_cons_self ..)
    obtain ⟨b, hb⟩ := Option.isSome_iff_exists.1 ha
    rw [List.filterMap_cons_some hb, List.length_cons, List.length_cons,
      ih (fun x hx => h x (List.mem_cons_of_mem _ hx))]

theorem passesDecision_none {V : Type} (le : V → V → Bool) (d : List (Metric × V)) :
    passesDecision le none d = true := rfl

/-! ### handler -/

theorem handleZeroTP_nonzero (h : Handler) (m : Metric) (tp nPred nRef : Nat) (htp : tp ≠ 0) :
    h.handleZeroTP m tp nPred nRef = some (false, .NONE) := by
  simp [Handler.handleZeroTP, htp]

theorem handleZeroTP_zero (h : Handler) (m : Metric) (z : ZeroTP) (nPred nRef : Nat)
    (hh : h.lookup m = some z) :
    h.handleZeroTP m 0 nPred nRef = some (true, z.get (scenarioOf nPred nRef)) := by
  simp [Handler.handleZeroTP, hh, ZeroTP.call]

theorem listMetric_nonzero (r : ResultIn) (m : Metric) (vals : List Rat) (htp : r.tp ≠ 0)
    (hl : r.lists.find? (fun e => e.1 == m) = some (m, vals)) :
    r.listMetric m = .ok (some (mkListMetric r.handler.emptyListStd vals false .NONE)) := by
  simp only [ResultIn.listMetric, hl, handleZeroTP_nonzero _ _ _ _ _ htp]

theorem listMetric_zero (r : ResultIn) (m : Metric) (z : ZeroTP) (vals : List Rat) (htp : r.tp = 0)
    (hh : r.handler.lookup m = some z)
    (hl : r.lists.find? (fun e => e.1 == m) = some (m, vals)) :
    r.listMetric m = .ok (some (mkListMetric r.handler.emptyListStd vals true
      (z.get (scenarioOf r.nPred r.nRef)))) := by
  simp only [ResultIn.listMetric, hl, htp, handleZeroTP_zero _ _ _ _ _ hh]

/-! ### rq -/

theorem rq_eq (r : ResultIn) (htp : r.tp ≠ 0) (h1 : r.tp ≤ r.nPred) (h2 : r.tp ≤ r.nRef) :
    r.rq = .num ((r.tp : Rat) / ((r.tp : Rat) + (r.fp : Rat) / 2 + (r.fn : Rat) / 2)) := by
  have hpos : (0 : Rat) < (r.tp : Rat) := by
    have : 0 < r.tp := Nat.pos_of_ne_zero htp
    exact_mod_cast this
  have hfp : (0 : Rat) ≤ (r.fp : Rat) := by
    have : (0 : Int) ≤ r.fp := by unfold ResultIn.fp; omega
    exact_mod_cast this
  have hfn : (0 : Rat) ≤ (r.fn : Rat) := by
    have : (0 : Int) ≤ r.fn := by unfold ResultIn.fn; omega
    exact_mod_cast this
  have hd : ((2 * (r.tp : Int) + r.fp + r.fn : Int) : Rat) ≠ 0 := by
    push_cast
    have : (0 : Rat) < 2 * (r.tp : Rat) + (r.fp : Rat) + (r.fn : Rat) := by linarith
    exact ne_of_gt this
  have hd' : (r.tp : Rat) + (r.fp : Rat) / 2 + (r.fn : Rat) / 2 ≠ 0 := by
    have : (0 : Rat) < (r.tp : Rat) + (r.fp : Rat) / 2 + (r.fn : Rat) / 2 := by linarith
    exact ne_of_gt this
  unfold ResultIn.rq
  have htp' : (r.tp == 0) = false := by simpa using htp
  simp only [htp', Bool.false_eq_true, if_false, beq_iff_eq, hd]
  congr 1
  push_cast
  push_cast at hd
  rw [div_eq_div_iff hd hd']
  ring

/-! ### foreground -/

theorem all_zero_binarise (a : Flat) :
    (a.map (fun x => if x != 0 then 1 else 0)).all (· == 0) = a.all (· == 0) := by
  induction a with
  | nil => rfl
  | cons x xs ih =>
    simp only [List.map_cons, List.all_cons, ih]
    congr 1
    by_cases hx : x = 0 <;> simp [hx]

end Panoptica
