/- helper lemmas for Properties/C10Semantic.lean (C10 for semantic input: the component labelling is
   equivariant under adjacency-preserving injective maps, and the pipeline composes with it) -/
import Panoptica.Properties.C05
import Panoptica.Properties.C10Pipeline
import Panoptica.Properties.C09Pipeline
import Panoptica.Proofs.Geometry
namespace Panoptica
namespace SemanticE2E
open Panoptica.Spec Panoptica.Mirror

/-! ### Level 1: reachability and the component numbering under a map of the vertex set -/

section generic
set_option linter.unusedSectionVars false
variable {α β : Type} [BEq α] [LawfulBEq α] [BEq β] [LawfulBEq β]

/-- `Reach` depends on `V` only through membership -/
theorem reach_of_subset {adj : α → α → Bool} {V V' : List α} (hsub : ∀ x ∈ V, x ∈ V') {a b : α}
    (h : Reach adj V a b) : Reach adj V' a b := by
  induction h with
  | refl ha => exact Reach.refl _ (hsub _ ha)
  | step _ hc hadj ih => exact Reach.step ih (hsub _ hc) hadj

theorem reach_perm {adj : α → α → Bool} {V V' : List α} (hp : V'.Perm V) (a b : α) :
    Reach adj V' a b ↔ Reach adj V a b :=
  ⟨reach_of_subset (fun _ h => hp.mem_iff.1 h), reach_of_subset (fun _ h => hp.mem_iff.2 h)⟩

/-- reachability in a rearranged image of `V` is reachability in `V` -/
theorem reach_transport (adj : α → α → Bool) (adj' : β → β → Bool) (g : α → β) (V : List α) (V' : List β)
    (hinj : ∀ a b, a ∈ V → b ∈ V → g a = g b → a = b)
    (hadj : ∀ a b, a ∈ V → b ∈ V → adj' (g a) (g b) = adj a b)
    (hperm : V'.Perm (V.map g)) (a b : α) (ha : a ∈ V) (hb : b ∈ V) :
    Reach adj' V' (g a) (g b) ↔ Reach adj V a b :=
  (reach_perm hperm _ _).trans (C10.reach_map_iff adj adj' g V hinj hadj a b ha hb)

theorem nodup_image (g : α → β) (V : List α) (V' : List β) (hnd : V.Nodup)
    (hinj : ∀ a b, a ∈ V → b ∈ V → g a = g b → a = b) (hperm : V'.Perm (V.map g)) : V'.Nodup :=
  hperm.nodup_iff.2 (nodup_map_on g V (fun x hx y hy h => hinj x y hx hy h) hnd)

/-- the two labellings induce the same partition -/
theorem cc_partition_core (adj : α → α → Bool) (adj' : β → β → Bool) (g : α → β) (V : List α) (V' : List β)
    (hsymm : ∀ a b, adj a b = adj b a) (hsymm' : ∀ a b, adj' a b = adj' b a) (hnd : V.Nodup)
    (hinj : ∀ a b, a ∈ V → b ∈ V → g a = g b → a = b)
    (hadj : ∀ a b, a ∈ V → b ∈ V → adj' (g a) (g b) = adj a b)
    (hperm : V'.Perm (V.map g)) (a b : α) (n m n' m' : Nat)
    (ha : (a, n) ∈ ccLabel adj V) (hb : (b, m) ∈ ccLabel adj V)
    (ha' : (g a, n') ∈ ccLabel adj' V') (hb' : (g b, m') ∈ ccLabel adj' V') :
    n = m ↔ n' = m' := by
  have hnd' := nodup_image g V V' hnd hinj hperm
  have haV : a ∈ V := (C05.cc_total adj hsymm V hnd).2.2 _ ha
  have hbV : b ∈ V := (C05.cc_total adj hsymm V hnd).2.2 _ hb
  rw [C05.cc_same_iff adj hsymm V hnd a b n m ha hb,
    C05.cc_same_iff adj' hsymm' V' hnd' (g a) (g b) n' m' ha' hb']
  exact (reach_transport adj adj' g V V' hinj hadj hperm a b haV hbV).symm

/-- label of `v` in a numbering table (0 when absent) -/
def lab (tbl : List (α × Nat)) (v : α) : Nat :=
  match tbl.find? (fun e => e.1 == v) with
  | some e => e.2
  | none => 0

theorem lab_eq {tbl : List (α × Nat)} (hnd : (tbl.map (·.1)).Nodup) {v : α} {n : Nat}
    (h : (v, n) ∈ tbl) : lab tbl v = n := by
  unfold lab
  cases hf : tbl.find? (fun e => e.1 == v) with
  | none =>
    have := List.find?_eq_none.1 hf (v, n) h
    simp at this
  | some e =>
    have h1 : e.1 = v := eq_of_beq (List.find?_some (p := fun e : α × Nat => e.1 == v) hf)
    have h2 : e ∈ tbl := List.mem_of_find?_eq_some hf
    have h3 : (v, e.2) ∈ tbl := by rw [← h1]; exact h2
    exact nodup_keys_unique hnd h3 h

/-- the renaming of component numbers induced by `g`: the number that the image of a representative
    of component `k` receives (identity outside the numbers in use) -/
def renum (tbl : List (α × Nat)) (tbl' : List (β × Nat)) (g : α → β) (k : Nat) : Nat :=
  match tbl.find? (fun e => e.2 == k) with
  | some e => lab tbl' (g e.1)
  | none => k

structure RenumSpec (adj : α → α → Bool) (adj' : β → β → Bool) (g : α → β) (V : List α) (V' : List β)
    (ρ : Nat → Nat) : Prop where
  maps : ∀ v k, (v, k) ∈ ccLabel adj V → (g v, ρ k) ∈ ccLabel adj' V'
  zero : ∀ k, ρ k = 0 ↔ k = 0
  range : ∀ k, 1 ≤ k → k ≤ ccCount adj V → 1 ≤ ρ k ∧ ρ k ≤ ccCount adj V
  inj : ∀ k l, 1 ≤ k → k ≤ ccCount adj V → 1 ≤ l → l ≤ ccCount adj V → ρ k = ρ l → k = l
  surj : ∀ k', 1 ≤ k' → k' ≤ ccCount adj V → ∃ k, 1 ≤ k ∧ k ≤ ccCount adj V ∧ ρ k = k'
  count : ccCount adj' V' = ccCount adj V

theorem renum_spec (adj : α → α → Bool) (adj' : β → β → Bool) (g : α → β) (V : List α) (V' : List β)
    (hsymm : ∀ a b, adj a b = adj b a) (hsymm' : ∀ a b, adj' a b = adj' b a) (hnd : V.Nodup)
    (hinj : ∀ a b, a ∈ V → b ∈ V → g a = g b → a = b)
    (hadj : ∀ a b, a ∈ V → b ∈ V → adj' (g a) (g b) = adj a b)
    (hperm : V'.Perm (V.map g)) :
    RenumSpec adj adj' g V V' (renum (ccLabel adj V) (ccLabel adj' V') g) := by
  have hnd' := nodup_image g V V' hnd hinj hperm
  obtain ⟨htot, hkeys, hsub⟩ := C05.cc_total adj hsymm V hnd
  obtain ⟨htot', hkeys', hsub'⟩ := C05.cc_total adj' hsymm' V' hnd'
  have hpart := cc_partition_core adj adj' g V V' hsymm hsymm' hnd hinj hadj hperm
  have himg : ∀ v ∈ V, g v ∈ V' := fun v hv => hperm.mem_iff.2 (List.mem_map_of_mem hv)
  -- the main fact
  have maps : ∀ v k, (v, k) ∈ ccLabel adj V →
      (g v, renum (ccLabel adj V) (ccLabel adj' V') g k) ∈ ccLabel adj' V' := by
    intro v k hv
    unfold renum
    cases hf : (ccLabel adj V).find? (fun e => e.2 == k) with
    | none =>
      have := List.find?_eq_none.1 hf (v, k) hv
      simp at this
    | some e =>
      have h1 : e.2 = k := eq_of_beq (List.find?_some (p := fun e : α × Nat => e.2 == k) hf)
      have h2 : (e.1, k) ∈ ccLabel adj V := by rw [← h1]; exact List.mem_of_find?_eq_some hf
      obtain ⟨n', hn'⟩ := htot' (g e.1) (himg _ (hsub (e.1, k) h2))
      obtain ⟨m', hm'⟩ := htot' (g v) (himg _ (hsub (v, k) hv))
      have : n' = m' := (hpart e.1 v k k n' m' h2 hv hn' hm').1 rfl
      show (g v, lab (ccLabel adj' V') (g e.1)) ∈ _
      rw [lab_eq hkeys' hn', this]
      exact hm'
  have hrange' : ∀ k, 1 ≤ k → k ≤ ccCount adj V →
      1 ≤ renum (ccLabel adj V) (ccLabel adj' V') g k ∧
        renum (ccLabel adj V) (ccLabel adj' V') g k ≤ ccCount adj' V' := by
    intro k h1 h2
    obtain ⟨v, hv⟩ := (C05.cc_range adj hsymm V hnd k).2 ⟨h1, h2⟩
    exact (C05.cc_range adj' hsymm' V' hnd' _).1 ⟨_, maps v k hv⟩
  have hinj' : ∀ k l, 1 ≤ k → k ≤ ccCount adj V → 1 ≤ l → l ≤ ccCount adj V →
      renum (ccLabel adj V) (ccLabel adj' V') g k = renum (ccLabel adj V) (ccLabel adj' V') g l →
        k = l := by
    intro k l hk1 hk2 hl1 hl2 h
    obtain ⟨v, hv⟩ := (C05.cc_range adj hsymm V hnd k).2 ⟨hk1, hk2⟩
    obtain ⟨w, hw⟩ := (C05.cc_range adj hsymm V hnd l).2 ⟨hl1, hl2⟩
    exact (hpart v w k l _ _ hv hw (maps v k hv) (maps w l hw)).2 h
  have hsurj' : ∀ k', 1 ≤ k' → k' ≤ ccCount adj' V' →
      ∃ k, 1 ≤ k ∧ k ≤ ccCount adj V ∧ renum (ccLabel adj V) (ccLabel adj' V') g k = k' := by
    intro k' h1 h2
    obtain ⟨v', hv'⟩ := (C05.cc_range adj' hsymm' V' hnd' k').2 ⟨h1, h2⟩
    obtain ⟨v, hv, rfl⟩ := List.mem_map.1 (hperm.mem_iff.1 (hsub' _ hv'))
    obtain ⟨k, hk⟩ := htot v hv
    obtain ⟨hk1, hk2⟩ := (C05.cc_range adj hsymm V hnd k).1 ⟨v, hk⟩
    exact ⟨k, hk1, hk2, nodup_keys_unique hkeys' (maps v k hk) hv'⟩
  have hcount : ccCount adj' V' = ccCount adj V := by
    have hp : ((List.range' 1 (ccCount adj V)).map (renum (ccLabel adj V) (ccLabel adj' V') g)).Perm
        (List.range' 1 (ccCount adj' V')) := by
      apply (List.perm_ext_iff_of_nodup ?_ List.nodup_range').2
      · intro x
        rw [List.mem_map, List.mem_range'_1]
        constructor
        · rintro ⟨k, hk, rfl⟩
          rw [List.mem_range'_1] at hk
          have := hrange' k hk.1 (by omega)
          omega
        · intro hx
          obtain ⟨k, hk1, hk2, hk3⟩ := hsurj' x hx.1 (by omega)
          exact ⟨k, List.mem_range'_1.2 ⟨hk1, by omega⟩, hk3⟩
      · apply nodup_map_on _ _ _ List.nodup_range'
        intro x hx y hy h
        rw [List.mem_range'_1] at hx hy
        exact hinj' x y hx.1 (by omega) hy.1 (by omega) h
    have := hp.length_eq
    rw [List.length_map, List.length_range', List.length_range'] at this
    exact this.symm
  refine ⟨maps, ?_, ?_, hinj', ?_, hcount⟩
  · intro k
    unfold renum
    cases hf : (ccLabel adj V).find? (fun e => e.2 == k) with
    | none => exact Iff.rfl
    | some e =>
      have h1 : e.2 = k := eq_of_beq (List.find?_some (p := fun e : α × Nat => e.2 == k) hf)
      have h2 : (e.1, k) ∈ ccLabel adj V := by rw [← h1]; exact List.mem_of_find?_eq_some hf
      obtain ⟨hk1, hk2⟩ := (C05.cc_range adj hsymm V hnd k).1 ⟨_, h2⟩
      have := (hrange' k hk1 hk2).1
      unfold renum at this
      rw [hf] at this
      show lab (ccLabel adj' V') (g e.1) = 0 ↔ k = 0
      simp only at this
      omega
  · intro k h1 h2
    rw [← hcount]
    exact hrange' k h1 h2
  · intro k' h1 h2
    exact hsurj' k' h1 (by rw [hcount]; exact h2)

end generic

/-! ### Level 2: arrays -/

theorem allCoords_nodup : ∀ s : List Nat, (allCoords s).Nodup
  | [] => by simp [allCoords]
  | n :: rest => by
    have ih := allCoords_nodup rest
    unfold allCoords
    unfold List.Nodup
    rw [List.pairwise_flatMap]
    constructor
    · intro i _
      exact nodup_map_on _ _ (fun x _ y _ h => (List.cons.inj h).2) ih
    · refine List.Pairwise.imp ?_ (List.nodup_range (n := n))
      intro i j hij x hx y hy hxy
      obtain ⟨c, _, rfl⟩ := List.mem_map.1 hx
      obtain ⟨d, _, rfl⟩ := List.mem_map.1 hy
      have := (List.cons.inj hxy).1
      exact hij (Int.ofNat.inj this)

theorem allCoords_len : ∀ (s : List Nat) (c : Coord), c ∈ allCoords s → c.length = s.length
  | [], c, h => by
    simp only [allCoords, List.mem_singleton] at h
    subst h
    rfl
  | n :: rest, c, h => by
    unfold allCoords at h
    obtain ⟨i, _, hc⟩ := List.mem_flatMap.1 h
    obtain ⟨d, hd, rfl⟩ := List.mem_map.1 hc
    rw [List.length_cons, List.length_cons, allCoords_len rest d hd]

theorem keys_zip_nodup {κ ν : Type} : ∀ (l : List κ) (d : List ν), l.Nodup → ((l.zip d).map (·.1)).Nodup
  | [], _, _ => by simp
  | _ :: _, [], _ => by simp
  | k :: l, x :: d, h => by
    rw [List.nodup_cons] at h
    rw [List.zip_cons_cons, List.map_cons, List.nodup_cons]
    refine ⟨?_, keys_zip_nodup l d h.2⟩
    intro hk
    obtain ⟨e, he, rfl⟩ := List.mem_map.1 hk
    exact h.1 (List.of_mem_zip (a := e.1) (b := e.2) he).1

theorem voxels_keys_nodup (a : Arr) : (a.voxels.map (·.1)).Nodup :=
  keys_zip_nodup _ _ (allCoords_nodup a.shape)

theorem fg_keys_nodup (a : Arr) : (a.fg.map (·.1)).Nodup :=
  (voxels_keys_nodup a).sublist (List.filter_sublist.map _)

theorem nodup_of_keys {κ ν : Type} : ∀ (l : List (κ × ν)), (l.map (·.1)).Nodup → l.Nodup
  | [], _ => List.nodup_nil
  | e :: l, h => by
    rw [List.map_cons, List.nodup_cons] at h
    rw [List.nodup_cons]
    exact ⟨fun he => h.1 (List.mem_map.2 ⟨e, he, rfl⟩), nodup_of_keys l h.2⟩

theorem fg_nodup (a : Arr) : a.fg.Nodup := nodup_of_keys _ (fg_keys_nodup a)

theorem mem_fg (a : Arr) (v : Coord × Lab) : v ∈ a.fg ↔ v ∈ a.voxels ∧ v.2 ≠ 0 := by
  unfold Arr.fg
  rw [List.mem_filter, bne_iff_ne]

/-- two entries of an association list with distinct keys that share the key are equal -/
theorem keys_unique {κ ν : Type} {l : List (κ × ν)} (h : (l.map (·.1)).Nodup) {k : κ} {x y : ν}
    (h1 : (k, x) ∈ l) (h2 : (k, y) ∈ l) : x = y := by
  induction l with
  | nil => cases h1
  | cons e es ih =>
    rw [List.map_cons, List.nodup_cons] at h
    rcases List.mem_cons.1 h1 with h1 | h1 <;> rcases List.mem_cons.1 h2 with h2 | h2
    · rw [← h1] at h2; exact (Prod.mk.inj h2).2.symm ▸ rfl
    · exfalso; apply h.1; rw [← h1]; exact List.mem_map.2 ⟨_, h2, rfl⟩
    · exfalso; apply h.1; rw [← h2]; exact List.mem_map.2 ⟨_, h1, rfl⟩
    · exact ih h.2 h1 h2

theorem zip_map_zip {κ ν μ : Type} (h : κ × ν → μ) : ∀ (l : List κ) (d : List ν),
    l.zip ((l.zip d).map h) = (l.zip d).map (fun p => (p.1, h p))
  | [], _ => by simp
  | _ :: _, [] => by simp
  | k :: l, x :: d => by
    rw [List.zip_cons_cons, List.map_cons, List.zip_cons_cons, List.map_cons, zip_map_zip h l d]

theorem lookupLabel_eq_lab (tbl : List ((Coord × Lab) × Nat)) (v : Coord × Lab) :
    lookupLabel tbl v = lab tbl v := by
  unfold lookupLabel lab
  cases List.find? (fun e => e.1 == v) tbl <;> rfl

/-- the labelled array's foreground is the input's foreground with the component numbers -/
theorem cc_fg (b : Backend) (a : Arr) :
    (connectedComponents b a).1.fg =
      a.fg.map (fun v => (v.1, lab (ccLabel (backendAdj b) a.fg) v)) := by
  obtain ⟨htot, hkeys, _⟩ := C05.cc_total (backendAdj b) (C05.backendAdj_symm b) a.fg (fg_nodup a)
  have hpos : ∀ v ∈ a.fg, lab (ccLabel (backendAdj b) a.fg) v ≠ 0 := by
    intro v hv
    obtain ⟨n, hn⟩ := htot v hv
    rw [lab_eq hkeys hn]
    have := (C05.cc_range (backendAdj b) (C05.backendAdj_symm b) a.fg (fg_nodup a) n).1 ⟨v, hn⟩
    omega
  show (List.filter (fun v => v.2 != 0) ((allCoords a.shape).zip (a.voxels.map _))) = _
  unfold Arr.voxels
  rw [zip_map_zip, List.filter_map]
  show _ = List.map _ (List.filter (fun v => v.2 != 0) ((allCoords a.shape).zip a.data))
  have hfilt : List.filter ((fun v : Coord × Lab => v.2 != 0) ∘ fun p : Coord × Lab =>
        (p.1, if (p.2 == 0) = true then 0 else lookupLabel (ccLabel (backendAdj b) a.fg) p))
        ((allCoords a.shape).zip a.data) =
      List.filter (fun v => v.2 != 0) ((allCoords a.shape).zip a.data) := by
    apply List.filter_congr
    intro p hp
    simp only [Function.comp_apply]
    by_cases h0 : p.2 = 0
    · simp [h0]
    · have hpf : p ∈ a.fg := (mem_fg a p).2 ⟨hp, h0⟩
      have := hpos p hpf
      simp only [beq_iff_eq, h0, if_false, lookupLabel_eq_lab]
      rw [Bool.eq_iff_iff, bne_iff_ne, bne_iff_ne]
      exact ⟨fun _ => h0, fun _ => this⟩
  rw [hfilt]
  apply List.map_congr_left
  intro p hp
  have h0 : p.2 ≠ 0 := by
    have := (List.mem_filter.1 hp).2
    rwa [bne_iff_ne] at this
  simp only [beq_iff_eq, h0, if_false, lookupLabel_eq_lab]

theorem cc_count (b : Backend) (a : Arr) : (connectedComponents b a).2 = ccCount (backendAdj b) a.fg := rfl

/-- Level 2: the labelled array of the transported array is the transported labelled array with the
    component numbers renamed -/
theorem cc_transport (b : Backend) (f : Coord → Coord) (a a' : Arr)
    (hinj : ∀ x y, x ∈ a.fg → y ∈ a.fg → f x.1 = f y.1 → x.1 = y.1)
    (hadj : ∀ x y, x ∈ a.fg → y ∈ a.fg → backendAdj b (f x.1, x.2) (f y.1, y.2) = backendAdj b x y)
    (hperm : a'.fg.Perm (a.fg.map (fun v => (f v.1, v.2)))) :
    ∃ ρ : Nat → Nat,
      RenumSpec (backendAdj b) (backendAdj b) (fun v : Coord × Lab => (f v.1, v.2)) a.fg a'.fg ρ ∧
      ((connectedComponents b a').1.fg).Perm
        (((connectedComponents b a).1.fg).map (fun v => (f v.1, ρ v.2))) := by
  have hinj' : ∀ x y, x ∈ a.fg → y ∈ a.fg →
      (fun v : Coord × Lab => (f v.1, v.2)) x = (fun v : Coord × Lab => (f v.1, v.2)) y → x = y := by
    intro x y hx hy h
    simp only [Prod.mk.injEq] at h
    exact Prod.ext (hinj x y hx hy h.1) h.2
  have spec := renum_spec (backendAdj b) (backendAdj b) (fun v : Coord × Lab => (f v.1, v.2)) a.fg a'.fg
    (C05.backendAdj_symm b) (C05.backendAdj_symm b) (fg_nodup a) hinj' hadj hperm
  refine ⟨_, spec, ?_⟩
  obtain ⟨htot, hkeys, _⟩ := C05.cc_total (backendAdj b) (C05.backendAdj_symm b) a.fg (fg_nodup a)
  obtain ⟨_, hkeys', _⟩ := C05.cc_total (backendAdj b) (C05.backendAdj_symm b) a'.fg (fg_nodup a')
  rw [cc_fg b a', cc_fg b a]
  refine (hperm.map _).trans (List.Perm.of_eq ?_)
  rw [List.map_map, List.map_map]
  apply List.map_congr_left
  intro v hv
  obtain ⟨n, hn⟩ := htot v hv
  simp only [Function.comp_apply]
  rw [lab_eq hkeys hn, lab_eq hkeys' (spec.maps v n hn)]

/-! ### Level 3a: arrays as functions of the coordinate; foreground pairs of transported arrays -/

/-- the value of the array at coordinate `c` (0 outside the array) -/
def valAt (a : Arr) (c : Coord) : Lab := lab a.voxels c

theorem fg_sub_voxels (a : Arr) (v : Coord × Lab) (h : v ∈ a.fg) : v ∈ a.voxels :=
  ((mem_fg a v).1 h).1

theorem valAt_of_mem_fg (a : Arr) (v : Coord × Lab) (h : v ∈ a.fg) : valAt a v.1 = v.2 :=
  lab_eq (voxels_keys_nodup a) (fg_sub_voxels a v h)

theorem mem_fg_of_valAt_ne (a : Arr) (c : Coord) (h : valAt a c ≠ 0) : (c, valAt a c) ∈ a.fg := by
  unfold valAt lab at h ⊢
  cases hf : a.voxels.find? (fun e => e.1 == c) with
  | none => rw [hf] at h; exact absurd rfl h
  | some e =>
    rw [hf] at h
    have h1 : e.1 = c := eq_of_beq (List.find?_some (p := fun e : Coord × Nat => e.1 == c) hf)
    have h2 : e ∈ a.voxels := List.mem_of_find?_eq_some hf
    rw [mem_fg]
    refine ⟨?_, h⟩
    show (c, e.2) ∈ a.voxels
    rw [← h1]; exact h2

theorem coord_of_mem_fg (a : Arr) (v : Coord × Lab) (h : v ∈ a.fg) : v.1 ∈ allCoords a.shape :=
  (List.of_mem_zip (a := v.1) (b := v.2) (fg_sub_voxels a v h)).1

theorem map_lab_zip {κ : Type} [BEq κ] [LawfulBEq κ] (ks : List κ) (d : List Nat) (hnd : ks.Nodup)
    (hlen : d.length = ks.length) : d = ks.map (lab (ks.zip d)) := by
  apply List.ext_getElem
  · rw [List.length_map, hlen]
  · intro i h1 h2
    rw [List.getElem_map]
    symm
    rw [List.length_map] at h2
    apply lab_eq (keys_zip_nodup ks d hnd)
    rw [List.mem_iff_getElem]
    refine ⟨i, ?_, ?_⟩
    · rw [List.length_zip]; omega
    · rw [List.getElem_zip]

theorem data_eq_map_valAt (a : Arr) (hwf : a.data.length = shapeSize a.shape) :
    a.data = (allCoords a.shape).map (valAt a) :=
  map_lab_zip _ _ (allCoords_nodup a.shape) (by rw [hwf, allCoords_length])

open Panoptica.C10 in
theorem fgPairs_map_coords (l : List Coord) (u v : Coord → Lab) :
    fgPairs (l.map u) (l.map v) = (l.filter (fun c => u c != 0 || v c != 0)).map (fun c => (u c, v c)) := by
  unfold fgPairs
  rw [List.zip_map', List.filter_map]
  rfl

/-- the coordinates where at least one of the two arrays is foreground -/
def support2 (A B : Arr) : List Coord :=
  (allCoords A.shape).filter (fun c => valAt A c != 0 || valAt B c != 0)

theorem mem_support2 (A B : Arr) (hs : B.shape = A.shape) (c : Coord) :
    c ∈ support2 A B ↔ ∃ y ∈ A.fg ++ B.fg, y.1 = c := by
  unfold support2
  rw [List.mem_filter, Bool.or_eq_true, bne_iff_ne, bne_iff_ne]
  constructor
  · rintro ⟨_, h | h⟩
    · exact ⟨_, List.mem_append_left _ (mem_fg_of_valAt_ne A c h), rfl⟩
    · exact ⟨_, List.mem_append_right _ (mem_fg_of_valAt_ne B c h), rfl⟩
  · rintro ⟨y, hy, rfl⟩
    rcases List.mem_append.1 hy with hy | hy
    · refine ⟨coord_of_mem_fg A y hy, Or.inl ?_⟩
      rw [valAt_of_mem_fg A y hy]
      exact ((mem_fg A y).1 hy).2
    · refine ⟨hs ▸ coord_of_mem_fg B y hy, Or.inr ?_⟩
      rw [valAt_of_mem_fg B y hy]
      exact ((mem_fg B y).1 hy).2

/-- values of the transported array at the images of the coordinates of `K ⊇ A.fg` -/
theorem valAt_image (A A' : Arr) (F : Coord → Coord) (φ : Nat → Nat) (hφ0 : ∀ k, φ k = 0 ↔ k = 0)
    (K : List (Coord × Lab)) (hsub : ∀ v ∈ A.fg, v ∈ K)
    (hinj : ∀ x y, x ∈ K → y ∈ K → F x.1 = F y.1 → x.1 = y.1)
    (hA : A'.fg.Perm (A.fg.map (fun v => (F v.1, φ v.2)))) :
    ∀ y ∈ K, valAt A' (F y.1) = φ (valAt A y.1) := by
  intro y hy
  by_cases h : valAt A y.1 = 0
  · rw [h, (hφ0 0).2 rfl]
    refine Classical.byContradiction fun h' => ?_
    have hm := mem_fg_of_valAt_ne A' _ h'
    obtain ⟨v, hv, hveq⟩ := List.mem_map.1 (hA.mem_iff.1 hm)
    simp only [Prod.mk.injEq] at hveq
    have hvy : v.1 = y.1 := hinj v y (hsub v hv) hy hveq.1
    have := valAt_of_mem_fg A v hv
    rw [hvy, h] at this
    exact ((mem_fg A v).1 hv).2 this.symm
  · have hm := mem_fg_of_valAt_ne A _ h
    have hm' : (F y.1, φ (valAt A y.1)) ∈ A'.fg :=
      hA.mem_iff.2 (List.mem_map.2 ⟨_, hm, rfl⟩)
    exact valAt_of_mem_fg A' _ hm'

open Panoptica.C10 in
/-- the foreground label pairs of the transported pair are a rearrangement of the (renamed)
    foreground label pairs of the original pair -/
theorem fgPairs_transport (A B A' B' : Arr)
    (hwA : A.data.length = shapeSize A.shape) (hwB : B.data.length = shapeSize B.shape)
    (hwA' : A'.data.length = shapeSize A'.shape) (hwB' : B'.data.length = shapeSize B'.shape)
    (hs : B.shape = A.shape) (hs' : B'.shape = A'.shape)
    (F : Coord → Coord) (φ ψ : Nat → Nat) (hφ0 : ∀ k, φ k = 0 ↔ k = 0) (hψ0 : ∀ k, ψ k = 0 ↔ k = 0)
    (hinj : ∀ x y, x ∈ A.fg ++ B.fg → y ∈ A.fg ++ B.fg → F x.1 = F y.1 → x.1 = y.1)
    (hA : A'.fg.Perm (A.fg.map (fun v => (F v.1, φ v.2))))
    (hB : B'.fg.Perm (B.fg.map (fun v => (F v.1, ψ v.2)))) :
    (fgPairs (A.data.map φ) (B.data.map ψ)).Perm (fgPairs A'.data B'.data) := by
  have hvA := valAt_image A A' F φ hφ0 (A.fg ++ B.fg) (fun v hv => List.mem_append_left _ hv) hinj hA
  have hvB := valAt_image B B' F ψ hψ0 (A.fg ++ B.fg) (fun v hv => List.mem_append_right _ hv) hinj hB
  -- left-hand side
  have hL : fgPairs (A.data.map φ) (B.data.map ψ) =
      (support2 A B).map (fun c => (φ (valAt A c), ψ (valAt B c))) := by
    conv => lhs; rw [data_eq_map_valAt A hwA, data_eq_map_valAt B hwB, hs, List.map_map, List.map_map]
    rw [fgPairs_map_coords]
    unfold support2
    congr 1
    apply List.filter_congr
    intro c _
    simp only [Function.comp_apply]
    rw [Bool.eq_iff_iff, Bool.or_eq_true, Bool.or_eq_true, bne_iff_ne, bne_iff_ne, bne_iff_ne,
      bne_iff_ne, ne_eq, ne_eq, ne_eq, ne_eq, hφ0, hψ0]
  have hR : fgPairs A'.data B'.data = (support2 A' B').map (fun c => (valAt A' c, valAt B' c)) := by
    conv => lhs; rw [data_eq_map_valAt A' hwA', data_eq_map_valAt B' hwB', hs']
    rw [fgPairs_map_coords]
    rfl
  have hFinj : ∀ c ∈ support2 A B, ∀ d ∈ support2 A B, F c = F d → c = d := by
    intro c hc d hd h
    obtain ⟨x, hx, rfl⟩ := (mem_support2 A B hs c).1 hc
    obtain ⟨y, hy, rfl⟩ := (mem_support2 A B hs d).1 hd
    exact hinj x y hx hy h
  have hU : (support2 A' B').Perm ((support2 A B).map F) := by
    apply (List.perm_ext_iff_of_nodup ?_ ?_).2
    · intro c'
      rw [mem_support2 A' B' hs', List.mem_map]
      constructor
      · rintro ⟨y', hy', rfl⟩
        rcases List.mem_append.1 hy' with h | h
        · obtain ⟨v, hv, rfl⟩ := List.mem_map.1 (hA.mem_iff.1 h)
          exact ⟨v.1, (mem_support2 A B hs _).2 ⟨v, List.mem_append_left _ hv, rfl⟩, rfl⟩
        · obtain ⟨v, hv, rfl⟩ := List.mem_map.1 (hB.mem_iff.1 h)
          exact ⟨v.1, (mem_support2 A B hs _).2 ⟨v, List.mem_append_right _ hv, rfl⟩, rfl⟩
      · rintro ⟨c, hc, rfl⟩
        obtain ⟨y, hy, rfl⟩ := (mem_support2 A B hs c).1 hc
        rcases List.mem_append.1 hy with h | h
        · exact ⟨_, List.mem_append_left _ (hA.mem_iff.2 (List.mem_map.2 ⟨y, h, rfl⟩)), rfl⟩
        · exact ⟨_, List.mem_append_right _ (hB.mem_iff.2 (List.mem_map.2 ⟨y, h, rfl⟩)), rfl⟩
    · exact (allCoords_nodup _).sublist List.filter_sublist
    · exact nodup_map_on F _ hFinj ((allCoords_nodup _).sublist List.filter_sublist)
  rw [hL, hR]
  refine ((hU.map _).trans (List.Perm.of_eq ?_)).symm
  rw [List.map_map]
  apply List.map_congr_left
  intro c hc
  obtain ⟨y, hy, rfl⟩ := (mem_support2 A B hs c).1 hc
  simp only [Function.comp_apply]
  rw [hvA y hy, hvB y hy]

/-! ### Level 3b: the labelled arrays handed to the matching phase -/

/-- the non-zero values of the labelled array are exactly the component numbers `1..n` -/
theorem mem_cc_data (b : Backend) (a : Arr) (x : Nat) :
    (x ∈ (connectedComponents b a).1.data ∧ x ≠ 0) ↔ (1 ≤ x ∧ x ≤ ccCount (backendAdj b) a.fg) := by
  obtain ⟨htot, hkeys, hsub⟩ := C05.cc_total (backendAdj b) (C05.backendAdj_symm b) a.fg (fg_nodup a)
  have hrange := C05.cc_range (backendAdj b) (C05.backendAdj_symm b) a.fg (fg_nodup a)
  show (x ∈ a.voxels.map _ ∧ x ≠ 0) ↔ _
  rw [List.mem_map]
  constructor
  · rintro ⟨⟨p, hp, hpx⟩, hx0⟩
    by_cases h0 : p.2 = 0
    · simp only [h0, beq_self_eq_true, if_true] at hpx
      exact absurd hpx.symm hx0
    · simp only [beq_iff_eq, h0, if_false, lookupLabel_eq_lab] at hpx
      obtain ⟨n, hn⟩ := htot p ((mem_fg a p).2 ⟨hp, h0⟩)
      rw [lab_eq hkeys hn] at hpx
      subst hpx
      exact (hrange n).1 ⟨p, hn⟩
  · intro hx
    obtain ⟨v, hv⟩ := (hrange x).2 hx
    have hvf : v ∈ a.fg := hsub (v, x) hv
    have h0 : v.2 ≠ 0 := ((mem_fg a v).1 hvf).2
    refine ⟨⟨v, fg_sub_voxels a v hvf, ?_⟩, by omega⟩
    simp only [beq_iff_eq, h0, if_false, lookupLabel_eq_lab]
    exact lab_eq hkeys hv

theorem cc_data_le (b : Backend) (a : Arr) (x : Nat) (hx : x ∈ (connectedComponents b a).1.data) :
    x ≤ ccCount (backendAdj b) a.fg := by
  by_cases h0 : x = 0
  · omega
  · exact ((mem_cc_data b a x).1 ⟨hx, h0⟩).2

/-- the count reported by the labelling is the number of distinct labels of the labelled array -/
theorem labelsOf_cc_length (b : Backend) (a : Arr) :
    (labelsOf (connectedComponents b a).1.data).length = ccCount (backendAdj b) a.fg := by
  have hp : (labelsOf (connectedComponents b a).1.data).Perm (List.range' 1 (ccCount (backendAdj b) a.fg)) := by
    apply (List.perm_ext_iff_of_nodup (labelsOf_nodup _) List.nodup_range').2
    intro x
    rw [mem_labelsOf, mem_cc_data, List.mem_range'_1]
    omega
  rw [hp.length_eq, List.length_range']

theorem cc_data_length (b : Backend) (a : Arr) (hwf : a.data.length = shapeSize a.shape) :
    (connectedComponents b a).1.data.length = shapeSize a.shape := by
  show (a.voxels.map _).length = _
  rw [List.length_map]
  unfold Arr.voxels
  rw [List.length_zip, allCoords_length, hwf, Nat.min_self]

theorem fg_nil_of_labelsOf_nil (a : Arr) (h : labelsOf a.data = []) : a.fg = [] := by
  unfold Arr.fg
  rw [List.filter_eq_nil_iff]
  intro v hv hne
  rw [bne_iff_ne] at hne
  have : v.2 ∈ labelsOf a.data :=
    (mem_labelsOf a.data v.2).2 ⟨(List.of_mem_zip (a := v.1) (b := v.2) hv).2, hne⟩
  rw [h] at this
  cases this

theorem ccCount_nil {α : Type} [BEq α] (adj : α → α → Bool) : ccCount adj [] = 0 := rfl

/-- what the SEMANTIC branch hands to the matching phase for one of the two maps -/
def semPart (b : Backend) (a : Arr) : Arr × Nat :=
  if (labelsOf a.data).isEmpty then (a, 0) else connectedComponents b a

theorem semPart_count (b : Backend) (a : Arr) : (semPart b a).2 = ccCount (backendAdj b) a.fg := by
  unfold semPart
  by_cases h : (labelsOf a.data).isEmpty = true
  · rw [if_pos h, fg_nil_of_labelsOf_nil a (List.isEmpty_iff.1 h)]
    rfl
  · rw [if_neg h]
    rfl

theorem semPart_arr (b : Backend) (a : Arr) (h : ccCount (backendAdj b) a.fg ≠ 0) :
    (semPart b a).1 = (connectedComponents b a).1 := by
  unfold semPart
  by_cases he : (labelsOf a.data).isEmpty = true
  · exfalso
    apply h
    rw [fg_nil_of_labelsOf_nil a (List.isEmpty_iff.1 he)]
    rfl
  · rw [if_neg he]

theorem pipeline_semantic (cfg : Config) (bits : Nat) (pred ref : Arr) (hin : cfg.input = .SEMANTIC) :
    pipeline cfg bits pred ref =
      matchPhase cfg
        (smallestUintBits (max
          (maxOf (semPart (cfg.backend.getD (defaultBackend pred.shape.length)) pred).1.data)
          (maxOf (semPart (cfg.backend.getD (defaultBackend pred.shape.length)) ref).1.data)))
        (semPart (cfg.backend.getD (defaultBackend pred.shape.length)) pred).1
        (semPart (cfg.backend.getD (defaultBackend pred.shape.length)) ref).1
        (semPart (cfg.backend.getD (defaultBackend pred.shape.length)) pred).2
        (semPart (cfg.backend.getD (defaultBackend pred.shape.length)) ref).2 := by
  unfold pipeline
  rw [hin]
  rfl

theorem matchPhase_zero (cfg : Config) (bits : Nat) (p r : Arr) (np nr : Nat) (h0 : np = 0 ∨ nr = 0) :
    matchPhase cfg bits p r np nr =
      .ok { nRef := nr, nPred := np, tp := 0, lists := cfg.evalMetrics.map (fun m => (m, [])),
            matchedPred := none, lmap := none } := by
  unfold matchPhase
  have : (np == 0 || nr == 0) = true := by
    rcases h0 with h | h <;> simp [h]
  simp only [this, if_true]

/-- with the true instance counts, the matching phase is the pipeline for unmatched instance input -/
theorem matchPhase_eq_unmatched (cfg : Config) (bits : Nat) (p r : Arr) :
    matchPhase cfg bits p r (labelsOf p.data).length (labelsOf r.data).length =
      pipeline { cfg with input := .UNMATCHED } bits p r := by
  unfold pipeline
  rfl

/-! ### Level 3c: end to end -/

theorem key_of_cc_fg (b : Backend) (a : Arr) (x : Coord × Lab) (hx : x ∈ (connectedComponents b a).1.fg) :
    ∃ v ∈ a.fg, v.1 = x.1 := by
  rw [cc_fg] at hx
  obtain ⟨v, hv, rfl⟩ := List.mem_map.1 hx
  exact ⟨v, hv, rfl⟩

section spec
variable {b : Backend} {a : Arr} {adj' : Coord × Lab → Coord × Lab → Bool} {g : Coord × Lab → Coord × Lab}
  {V' : List (Coord × Lab)} {ρ : Nat → Nat}

theorem spec_inj_on_data (spec : RenumSpec (backendAdj b) adj' g a.fg V' ρ) :
    ∀ x ∈ (connectedComponents b a).1.data, ∀ y ∈ (connectedComponents b a).1.data, ρ x = ρ y → x = y := by
  intro x hx y hy h
  by_cases hx0 : x = 0
  · have : ρ y = 0 := by rw [← h]; exact (spec.zero x).2 hx0
    rw [hx0, (spec.zero y).1 this]
  · have hy0 : y ≠ 0 := by
      intro hy0
      have : ρ x = 0 := by rw [h]; exact (spec.zero y).2 hy0
      exact hx0 ((spec.zero x).1 this)
    obtain ⟨hx1, hx2⟩ := (mem_cc_data b a x).1 ⟨hx, hx0⟩
    obtain ⟨hy1, hy2⟩ := (mem_cc_data b a y).1 ⟨hy, hy0⟩
    exact spec.inj x y hx1 hx2 hy1 hy2 h

theorem spec_bound (spec : RenumSpec (backendAdj b) adj' g a.fg V' ρ) :
    ∀ x ∈ (connectedComponents b a).1.data, ρ x ≤ ccCount (backendAdj b) a.fg := by
  intro x hx
  by_cases hx0 : x = 0
  · rw [(spec.zero x).2 hx0]; omega
  · obtain ⟨hx1, hx2⟩ := (mem_cc_data b a x).1 ⟨hx, hx0⟩
    exact (spec.range x hx1 hx2).2

end spec

theorem pipeline_semantic_core (cfg : Config) (mc : MatcherCfg) (hin : cfg.input = .SEMANTIC)
    (hcU : C09.RelabelCfg { cfg with input := .UNMATCHED } mc)
    (hcb : C10.CountBased { cfg with input := .UNMATCHED })
    (bits bits₂ : Nat) (pred ref pred' ref' : Arr) (f : Coord → Coord) (b : Backend)
    (hb : cfg.backend.getD (defaultBackend pred.shape.length) = b)
    (hb' : cfg.backend.getD (defaultBackend pred'.shape.length) = b)
    (hwp : pred.data.length = shapeSize pred.shape) (hwr : ref.data.length = shapeSize ref.shape)
    (hwp' : pred'.data.length = shapeSize pred'.shape) (hwr' : ref'.data.length = shapeSize ref'.shape)
    (hs : ref.shape = pred.shape) (hs' : ref'.shape = pred'.shape)
    (hinj : ∀ x y, x ∈ pred.fg ++ ref.fg → y ∈ pred.fg ++ ref.fg → f x.1 = f y.1 → x.1 = y.1)
    (hadjP : ∀ x y, x ∈ pred.fg → y ∈ pred.fg → backendAdj b (f x.1, x.2) (f y.1, y.2) = backendAdj b x y)
    (hadjR : ∀ x y, x ∈ ref.fg → y ∈ ref.fg → backendAdj b (f x.1, x.2) (f y.1, y.2) = backendAdj b x y)
    (hpermP : pred'.fg.Perm (pred.fg.map (fun v => (f v.1, v.2))))
    (hpermR : ref'.fg.Perm (ref.fg.map (fun v => (f v.1, v.2))))
    (hbndP : ccCount (backendAdj b) pred.fg < 2 ^ 32 - 1)
    (hbndR : ccCount (backendAdj b) ref.fg < 2 ^ 32 - 1)
    (hdet : C03.Determined Score.le mc.metric.decreasing mc.thr
      (scoredCands mc.metric (connectedComponents b pred).1 (connectedComponents b ref).1))
    (out out' : PipeOut) (h : pipeline cfg bits pred ref = .ok out)
    (h' : pipeline cfg bits₂ pred' ref' = .ok out') :
    out'.tp = out.tp ∧ out'.nRef = out.nRef ∧ out'.nPred = out.nPred ∧
    ∀ m ∈ cfg.evalMetrics, ∀ vals vals', (m, vals) ∈ out.lists → (m, vals') ∈ out'.lists →
      vals.Perm vals' := by
  rw [pipeline_semantic cfg bits pred ref hin, hb] at h
  rw [pipeline_semantic cfg bits₂ pred' ref' hin, hb'] at h'
  obtain ⟨ρp, specP, permP⟩ := cc_transport b f pred pred'
    (fun x y hx hy => hinj x y (List.mem_append_left _ hx) (List.mem_append_left _ hy)) hadjP hpermP
  obtain ⟨ρr, specR, permR⟩ := cc_transport b f ref ref'
    (fun x y hx hy => hinj x y (List.mem_append_right _ hx) (List.mem_append_right _ hy)) hadjR hpermR
  have hnp' : (semPart b pred').2 = (semPart b pred).2 := by
    rw [semPart_count, semPart_count]; exact specP.count
  have hnr' : (semPart b ref').2 = (semPart b ref).2 := by
    rw [semPart_count, semPart_count]; exact specR.count
  by_cases h0 : (semPart b pred).2 = 0 ∨ (semPart b ref).2 = 0
  · rw [matchPhase_zero _ _ _ _ _ _ h0] at h
    rw [matchPhase_zero _ _ _ _ _ _ (by rw [hnp', hnr']; exact h0)] at h'
    cases h
    cases h'
    refine ⟨rfl, hnr', hnp', ?_⟩
    intro m _ vals vals' hv hv'
    obtain ⟨_, _, e1⟩ := List.mem_map.1 hv
    obtain ⟨_, _, e2⟩ := List.mem_map.1 hv'
    rw [← (Prod.mk.inj e1).2, ← (Prod.mk.inj e2).2]
  · have hp0 : ccCount (backendAdj b) pred.fg ≠ 0 := by
      intro hz; apply h0; left; rw [semPart_count]; exact hz
    have hr0 : ccCount (backendAdj b) ref.fg ≠ 0 := by
      intro hz; apply h0; right; rw [semPart_count]; exact hz
    have hp0' : ccCount (backendAdj b) pred'.fg ≠ 0 := by rw [specP.count]; exact hp0
    have hr0' : ccCount (backendAdj b) ref'.fg ≠ 0 := by rw [specR.count]; exact hr0
    rw [semPart_arr b pred hp0, semPart_arr b ref hr0, semPart_count, semPart_count,
      ← labelsOf_cc_length b pred, ← labelsOf_cc_length b ref, matchPhase_eq_unmatched] at h
    rw [semPart_arr b pred' hp0', semPart_arr b ref' hr0', semPart_count, semPart_count,
      ← labelsOf_cc_length b pred', ← labelsOf_cc_length b ref', matchPhase_eq_unmatched] at h'
    generalize smallestUintBits _ = bitsA at h
    generalize smallestUintBits _ = bitsB at h'
    -- the labelled arrays in the form ⟨shape, data⟩ with a shared shape
    have eP : (connectedComponents b pred).1 = ⟨pred.shape, (connectedComponents b pred).1.data⟩ := rfl
    have eR : (connectedComponents b ref).1 = ⟨pred.shape, (connectedComponents b ref).1.data⟩ := by
      rw [← hs]; rfl
    have eP' : (connectedComponents b pred').1 = ⟨pred'.shape, (connectedComponents b pred').1.data⟩ := rfl
    have eR' : (connectedComponents b ref').1 = ⟨pred'.shape, (connectedComponents b ref').1.data⟩ := by
      rw [← hs']; rfl
    rw [eR] at hdet
    rw [eP] at hdet
    rw [eR] at h
    rw [eP] at h
    rw [eR'] at h'
    rw [eP'] at h'
    have hlen : (connectedComponents b pred).1.data.length = (connectedComponents b ref).1.data.length := by
      rw [cc_data_length b pred hwp, cc_data_length b ref hwr, hs]
    have hlen' : (connectedComponents b pred').1.data.length = (connectedComponents b ref').1.data.length := by
      rw [cc_data_length b pred' hwp', cc_data_length b ref' hwr', hs']
    -- foreground pairs
    have hfp := fgPairs_transport (connectedComponents b pred).1 (connectedComponents b ref).1
      (connectedComponents b pred').1 (connectedComponents b ref').1
      (cc_data_length b pred hwp) (cc_data_length b ref hwr) (cc_data_length b pred' hwp')
      (cc_data_length b ref' hwr') hs hs' f ρp ρr specP.zero specR.zero
      (by
        intro x y hx hy hxy
        have key : ∀ z, z ∈ (connectedComponents b pred).1.fg ++ (connectedComponents b ref).1.fg →
            ∃ v ∈ pred.fg ++ ref.fg, v.1 = z.1 := by
          intro z hz
          rcases List.mem_append.1 hz with hz | hz
          · obtain ⟨v, hv, e⟩ := key_of_cc_fg b pred z hz
            exact ⟨v, List.mem_append_left _ hv, e⟩
          · obtain ⟨v, hv, e⟩ := key_of_cc_fg b ref z hz
            exact ⟨v, List.mem_append_right _ hv, e⟩
        obtain ⟨v, hv, e1⟩ := key x hx
        obtain ⟨w, hw, e2⟩ := key y hy
        rw [← e1, ← e2] at hxy ⊢
        exact hinj v w hv hw hxy)
      permP permR
    -- bounds
    have hbP : ∀ x ∈ (connectedComponents b pred).1.data, x < 2 ^ 32 - 1 := fun x hx =>
      Nat.lt_of_le_of_lt (cc_data_le b pred x hx) hbndP
    have hbR : ∀ x ∈ (connectedComponents b ref).1.data, x < 2 ^ 32 - 1 := fun x hx =>
      Nat.lt_of_le_of_lt (cc_data_le b ref x hx) hbndR
    have hbP' : ∀ x ∈ (connectedComponents b pred').1.data, x < 2 ^ 32 - 1 := fun x hx =>
      Nat.lt_of_le_of_lt (cc_data_le b pred' x hx) (by rw [specP.count]; exact hbndP)
    have hbR' : ∀ x ∈ (connectedComponents b ref').1.data, x < 2 ^ 32 - 1 := fun x hx =>
      Nat.lt_of_le_of_lt (cc_data_le b ref' x hx) (by rw [specR.count]; exact hbndR)
    have hbPρ : ∀ x ∈ (connectedComponents b pred).1.data.map ρp, x < 2 ^ 32 - 1 := by
      intro x hx
      obtain ⟨y, hy, rfl⟩ := List.mem_map.1 hx
      exact Nat.lt_of_le_of_lt (spec_bound specP y hy) hbndP
    have hbRρ : ∀ x ∈ (connectedComponents b ref).1.data.map ρr, x < 2 ^ 32 - 1 := by
      intro x hx
      obtain ⟨y, hy, rfl⟩ := List.mem_map.1 hx
      exact Nat.lt_of_le_of_lt (spec_bound specR y hy) hbndR
    have hci := C10.pipeline_counts_invariant { cfg with input := .UNMATCHED } hcb bitsB pred.shape pred'.shape
      ((connectedComponents b pred).1.data.map ρp) ((connectedComponents b ref).1.data.map ρr)
      (connectedComponents b pred').1.data (connectedComponents b ref').1.data
      (by rw [List.length_map, List.length_map]; exact hlen) hlen'
      (by
        intro x hx
        rcases List.mem_append.1 hx with hx | hx
        · rcases List.mem_append.1 hx with hx | hx
          · rcases List.mem_append.1 hx with hx | hx
            · exact hbPρ x hx
            · exact hbRρ x hx
          · exact hbP' x hx
        · exact hbR' x hx)
      hfp
    rw [h'] at hci
    cases hY : pipeline { cfg with input := .UNMATCHED } bitsB
        ⟨pred.shape, (connectedComponents b pred).1.data.map ρp⟩
        ⟨pred.shape, (connectedComponents b ref).1.data.map ρr⟩ with
    | error e =>
      rw [hY] at hci
      cases hci
    | ok out'' =>
      rw [hY] at hci
      have hrep : C10.report out'' = C10.report out' := Except.ok.inj hci
      simp only [C10.report, Prod.mk.injEq] at hrep
      obtain ⟨e1, e2, e3, e4, _⟩ := hrep
      have hren := C09.pipeline_rename { cfg with input := .UNMATCHED } mc hcU bitsA bitsB pred.shape
        (connectedComponents b pred).1.data (connectedComponents b ref).1.data ρp ρr
        ⟨(specP.zero 0).2 rfl, fun x _ hx0 hρ => hx0 ((specP.zero x).1 hρ), spec_inj_on_data specP⟩
        ⟨(specR.zero 0).2 rfl, fun x _ hx0 hρ => hx0 ((specR.zero x).1 hρ), spec_inj_on_data specR⟩
        hlen
        (by
          intro x hx
          rcases List.mem_append.1 hx with hx | hx
          · exact hbP x hx
          · exact hbR x hx)
        (by
          intro x hx
          rcases List.mem_append.1 hx with hx | hx
          · exact hbPρ x hx
          · exact hbRρ x hx)
        (by
          intro hnil
          apply hp0
          rw [← labelsOf_cc_length b pred, hnil]; rfl)
        (by
          intro hnil
          apply hr0
          rw [← labelsOf_cc_length b ref, hnil]; rfl)
        hdet out out'' h hY
      rw [← e1, ← e2, ← e3, ← e4]
      exact hren

/-! ### sufficient conditions: grid isometries -/

theorem fg_coord_length (a : Arr) (v : Coord × Lab) (h : v ∈ a.fg) : v.1.length = a.shape.length :=
  allCoords_len a.shape v.1 (coord_of_mem_fg a v h)

/-- a grid isometry is injective on the coordinates of arrays of its dimension -/
theorem isometry_inj_on (n : Nat) (f : Coord → Coord) (hf : GridIsometry f n) (K : List (Coord × Lab))
    (hK : ∀ v ∈ K, v.1.length = n) : ∀ x ∈ K, ∀ y ∈ K, f x.1 = f y.1 → x.1 = y.1 :=
  fun x hx y hy h => hf.inj x.1 y.1 (hK x hx) (hK y hy) h

theorem scipy_adj_isometry (n : Nat) (f : Coord → Coord) (hf : GridIsometry f n) (K : List (Coord × Lab))
    (hK : ∀ v ∈ K, v.1.length = n) :
    ∀ x ∈ K, ∀ y ∈ K, backendAdj .scipy (f x.1, x.2) (f y.1, y.2) = backendAdj .scipy x y :=
  fun x hx y hy => C10.isometry_faceAdj n f hf x.1 y.1 (hK x hx) (hK y hy)

theorem cc3d_adj_of_full (n : Nat) (f : Coord → Coord)
    (hfull : ∀ a b : Coord, a.length = n → b.length = n → fullAdj (f a) (f b) = fullAdj a b)
    (K : List (Coord × Lab)) (hK : ∀ v ∈ K, v.1.length = n) :
    ∀ x ∈ K, ∀ y ∈ K, backendAdj .cc3d (f x.1, x.2) (f y.1, y.2) = backendAdj .cc3d x y := by
  intro x hx y hy
  show (fullAdj (f x.1) (f y.1) && x.2 == y.2) = (fullAdj x.1 y.1 && x.2 == y.2)
  rw [hfull x.1 y.1 (hK x hx) (hK y hy)]

/-! ### totality: the covered configurations always produce a result -/

theorem evalPhase_total (cfg : Config) (pred ref : Arr) (lm : Option LMap) (mp : Option Flat) :
    ∃ out, evalPhase cfg pred ref lm mp = .ok out := by
  by_cases h0 : labelsOf pred.data = [] ∨ labelsOf ref.data = []
  · exact ⟨_, evalPhase_of_zero cfg pred ref lm mp h0⟩
  · exact ⟨_, evalPhase_of_nonzero cfg pred ref lm mp (fun h => h0 (Or.inl h)) (fun h => h0 (Or.inr h))⟩

theorem matchPhase_total (cfg : Config) (bits : Nat) (p r : Arr) (np nr : Nat) (mc : MatcherCfg)
    (hm : cfg.matcher = some mc) : ∃ out, matchPhase cfg bits p r np nr = .ok out := by
  by_cases h0 : np = 0 ∨ nr = 0
  · exact ⟨_, matchPhase_zero cfg bits p r np nr h0⟩
  · obtain ⟨lm, hlm⟩ := Values.runMatcher_total mc p r
    have hn : (np == 0 || nr == 0) = false := by
      rw [Bool.or_eq_false_iff, beq_eq_false_iff_ne, beq_eq_false_iff_ne]
      exact ⟨fun h => h0 (Or.inl h), fun h => h0 (Or.inr h)⟩
    rw [matchPhase_of_nonzero cfg bits p r np nr mc lm hn hm hlm]
    exact evalPhase_total _ _ _ _ _

theorem pipeline_semantic_total (cfg : Config) (mc : MatcherCfg) (hin : cfg.input = .SEMANTIC)
    (hm : cfg.matcher = some mc) (bits : Nat) (pred ref : Arr) :
    ∃ out, pipeline cfg bits pred ref = .ok out := by
  rw [pipeline_semantic cfg bits pred ref hin]
  exact matchPhase_total _ _ _ _ _ _ mc hm

end SemanticE2E
end Panoptica
