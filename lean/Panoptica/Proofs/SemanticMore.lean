import Panoptica.Proofs.SemanticE2E
import Panoptica.Proofs.RelabelM2O
import Panoptica.Proofs.RelabelMerge
import Panoptica.Proofs.InvarianceMerge
import Panoptica.Properties.C09PipelineM2O
import Panoptica.Properties.C09Merge
import Panoptica.Properties.C10PipelineMerge
namespace Panoptica.SemanticMore
open Panoptica Panoptica.Spec Panoptica.SemanticE2E Panoptica.C10

/-- `SemanticE2E.pipeline_semantic_core` with the two matcher-specific ingredients as hypotheses:
    `hcounts` (same foreground pairs up to order ⇒ same report, for the UNMATCHED configuration) and
    `hrename` (renaming both arrays by injective maps preserves tp / counts / lists up to order, under the side
    condition `D` on the scored candidates of the *original* pair). -/
theorem pipeline_semantic_generic (cfg : Config) (mc : MatcherCfg) (hin : cfg.input = .SEMANTIC)
    (D : List (Cand Score) → Prop)
    (hcounts : ∀ (bits : Nat) (s s' : List Nat) (pred ref pred' ref' : Flat),
      pred.length = ref.length → pred'.length = ref'.length →
      (∀ x ∈ pred ++ ref ++ pred' ++ ref', x < 2 ^ 32 - 1) →
      (fgPairs pred ref).Perm (fgPairs pred' ref') →
      (pipeline { cfg with input := .UNMATCHED } bits ⟨s, pred⟩ ⟨s, ref⟩).map C10.report =
        (pipeline { cfg with input := .UNMATCHED } bits ⟨s', pred'⟩ ⟨s', ref'⟩).map C10.report)
    (hrename : ∀ (bits bits' : Nat) (s : List Nat) (pred ref : Flat) (σ τ : Lab → Lab),
      C09.Renaming σ pred → C09.Renaming τ ref → pred.length = ref.length →
      (∀ x ∈ pred ++ ref, x < 2 ^ 32 - 1) → (∀ x ∈ pred.map σ ++ ref.map τ, x < 2 ^ 32 - 1) →
      labelsOf pred ≠ [] → labelsOf ref ≠ [] →
      D (scoredCands mc.metric ⟨s, pred⟩ ⟨s, ref⟩) →
      ∀ (out out' : PipeOut), pipeline { cfg with input := .UNMATCHED } bits ⟨s, pred⟩ ⟨s, ref⟩ = .ok out →
      pipeline { cfg with input := .UNMATCHED } bits' ⟨s, pred.map σ⟩ ⟨s, ref.map τ⟩ = .ok out' →
      out'.tp = out.tp ∧ out'.nRef = out.nRef ∧ out'.nPred = out.nPred ∧
      ∀ m ∈ cfg.evalMetrics, ∀ vals vals', (m, vals) ∈ out.lists → (m, vals') ∈ out'.lists → vals.Perm vals')
    (bits bits₂ : Nat) (pred ref pred' ref' : Arr) (f : Coord → Coord) (b : Backend)
    (hb : cfg.backend.getD (defaultBackend pred.shape.length) = b)
    (hb' : cfg.backend.getD (defaultBackend pred'.shape.length) = b)
    (hwp : pred.data.length = shapeSize pred.shape) (hwr : ref.data.length = shapeSize ref.shape)
    (hwp' : pred'.data.length = shapeSize pred'.shape) (hwr' : ref'.data.length = shapeSize ref'.shape)
    (hs : ref.shape = pred.shape) (hs' : ref'.shape = pred'.shape)
    (hinj : ∀ x y, x ∈ pred.fg ++ ref.fg → y ∈ pred.fg ++ ref.fg → f x.1 = f y.1 → x.1 = y.1)
    (hadjP : ∀ x y, x ∈ pred.fg → y ∈ pred.fg → backendAdj b (f x.1, x.2) (f y.1, y.2) = backendAdj b x y)
    (hadjR : ∀ x y, x ∈ ref.fg → y ∈ ref.fg → backendAdj b (f x.1, x.2) (f y.1, y.2) = backendAdj b x y)
    (hpermP : pred'.fg.Perm (pred.fg.map (fun v => (f v.1, v.2))))
    (hpermR : ref'.fg.Perm (ref.fg.map (fun v => (f v.1, v.2))))
    (hbndP : ccCount (backendAdj b) pred.fg < 2 ^ 32 - 1)
    (hbndR : ccCount (backendAdj b) ref.fg < 2 ^ 32 - 1)
    (hdet : D (scoredCands mc.metric (connectedComponents b pred).1 (connectedComponents b ref).1))
    (out out' : PipeOut) (h : pipeline cfg bits pred ref = .ok out)
    (h' : pipeline cfg bits₂ pred' ref' = .ok out') :
    out'.tp = out.tp ∧ out'.nRef = out.nRef ∧ out'.nPred = out.nPred ∧
    ∀ m ∈ cfg.evalMetrics, ∀ vals vals', (m, vals) ∈ out.lists → (m, vals') ∈ out'.lists →
      vals.Perm vals' := by
  rw [pipeline_semantic cfg bits pred ref hin, hb] at h
  rw [pipeline_semantic cfg bits₂ pred' ref' hin, hb'] at h'
  obtain ⟨ρp, specP, permP⟩ := cc_transport b f pred pred'
    (fun x y hx hy => hinj x y (List.mem_append_left _ hx) (List.mem_append_left _ hy)) hadjP hpermP
  obtain ⟨ρr, specR, permR⟩ := cc_transport b f ref ref'
    (fun x y hx hy => hinj x y (List.mem_append_right _ hx) (List.mem_append_right _ hy)) hadjR hpermR
  have hnp' : (semPart b pred').2 = (semPart b pred).2 := by
    rw [semPart_count, semPart_count]; exact specP.count
  have hnr' : (semPart b ref').2 = (semPart b ref).2 := by
    rw [semPart_count, semPart_count]; exact specR.count
  by_cases h0 : (semPart b pred).2 = 0 ∨ (semPart b ref).2 = 0
  · rw [matchPhase_zero _ _ _ _ _ _ h0] at h
    rw [matchPhase_zero _ _ _ _ _ _ (by rw [hnp', hnr']; exact h0)] at h'
    cases h
    cases h'
    refine ⟨rfl, hnr', hnp', ?_⟩
    intro m _ vals vals' hv hv'
    obtain ⟨_, _, e1⟩ := List.mem_map.1 hv
    obtain ⟨_, _, e2⟩ := List.mem_map.1 hv'
    rw [← (Prod.mk.inj e1).2, ← (Prod.mk.inj e2).2]
  · have hp0 : ccCount (backendAdj b) pred.fg ≠ 0 := by
      intro hz; apply h0; left; rw [semPart_count]; exact hz
    have hr0 : ccCount (backendAdj b) ref.fg ≠ 0 := by
      intro hz; apply h0; right; rw [semPart_count]; exact hz
    have hp0' : ccCount (backendAdj b) pred'.fg ≠ 0 := by rw [specP.count]; exact hp0
    have hr0' : ccCount (backendAdj b) ref'.fg ≠ 0 := by rw [specR.count]; exact hr0
    rw [semPart_arr b pred hp0, semPart_arr b ref hr0, semPart_count, semPart_count,
      ← labelsOf_cc_length b pred, ← labelsOf_cc_length b ref, matchPhase_eq_unmatched] at h
    rw [semPart_arr b pred' hp0', semPart_arr b ref' hr0', semPart_count, semPart_count,
      ← labelsOf_cc_length b pred', ← labelsOf_cc_length b ref', matchPhase_eq_unmatched] at h'
    generalize smallestUintBits _ = bitsA at h
    generalize smallestUintBits _ = bitsB at h'
    -- the labelled arrays in the form ⟨shape, data⟩ with a shared shape
    have eP : (connectedComponents b pred).1 = ⟨pred.shape, (connectedComponents b pred).1.data⟩ := rfl
    have eR : (connectedComponents b ref).1 = ⟨pred.shape, (connectedComponents b ref).1.data⟩ := by
      rw [← hs]; rfl
    have eP' : (connectedComponents b pred').1 = ⟨pred'.shape, (connectedComponents b pred').1.data⟩ := rfl
    have eR' : (connectedComponents b ref').1 = ⟨pred'.shape, (connectedComponents b ref').1.data⟩ := by
      rw [← hs']; rfl
    rw [eR] at hdet
    rw [eP] at hdet
    rw [eR] at h
    rw [eP] at h
    rw [eR'] at h'
    rw [eP'] at h'
    have hlen : (connectedComponents b pred).1.data.length = (connectedComponents b ref).1.data.length := by
      rw [cc_data_length b pred hwp, cc_data_length b ref hwr, hs]
    have hlen' : (connectedComponents b pred').1.data.length = (connectedComponents b ref').1.data.length := by
      rw [cc_data_length b pred' hwp', cc_data_length b ref' hwr', hs']
    -- foreground pairs
    have hfp := fgPairs_transport (connectedComponents b pred).1 (connectedComponents b ref).1
      (connectedComponents b pred').1 (connectedComponents b ref').1
      (cc_data_length b pred hwp) (cc_data_length b ref hwr) (cc_data_length b pred' hwp')
      (cc_data_length b ref' hwr') hs hs' f ρp ρr specP.zero specR.zero
      (by
        intro x y hx hy hxy
        have key : ∀ z, z ∈ (connectedComponents b pred).1.fg ++ (connectedComponents b ref).1.fg →
            ∃ v ∈ pred.fg ++ ref.fg, v.1 = z.1 := by
          intro z hz
          rcases List.mem_append.1 hz with hz | hz
          · obtain ⟨v, hv, e⟩ := key_of_cc_fg b pred z hz
            exact ⟨v, List.mem_append_left _ hv, e⟩
          · obtain ⟨v, hv, e⟩ := key_of_cc_fg b ref z hz
            exact ⟨v, List.mem_append_right _ hv, e⟩
        obtain ⟨v, hv, e1⟩ := key x hx
        obtain ⟨w, hw, e2⟩ := key y hy
        rw [← e1, ← e2] at hxy ⊢
        exact hinj v w hv hw hxy)
      permP permR
    -- bounds
    have hbP : ∀ x ∈ (connectedComponents b pred).1.data, x < 2 ^ 32 - 1 := fun x hx =>
      Nat.lt_of_le_of_lt (cc_data_le b pred x hx) hbndP
    have hbR : ∀ x ∈ (connectedComponents b ref).1.data, x < 2 ^ 32 - 1 := fun x hx =>
      Nat.lt_of_le_of_lt (cc_data_le b ref x hx) hbndR
    have hbP' : ∀ x ∈ (connectedComponents b pred').1.data, x < 2 ^ 32 - 1 := fun x hx =>
      Nat.lt_of_le_of_lt (cc_data_le b pred' x hx) (by rw [specP.count]; exact hbndP)
    have hbR' : ∀ x ∈ (connectedComponents b ref').1.data, x < 2 ^ 32 - 1 := fun x hx =>
      Nat.lt_of_le_of_lt (cc_data_le b ref' x hx) (by rw [specR.count]; exact hbndR)
    have hbPρ : ∀ x ∈ (connectedComponents b pred).1.data.map ρp, x < 2 ^ 32 - 1 := by
      intro x hx
      obtain ⟨y, hy, rfl⟩ := List.mem_map.1 hx
      exact Nat.lt_of_le_of_lt (spec_bound specP y hy) hbndP
    have hbRρ : ∀ x ∈ (connectedComponents b ref).1.data.map ρr, x < 2 ^ 32 - 1 := by
      intro x hx
      obtain ⟨y, hy, rfl⟩ := List.mem_map.1 hx
      exact Nat.lt_of_le_of_lt (spec_bound specR y hy) hbndR
    have hci := hcounts bitsB pred.shape pred'.shape
      ((connectedComponents b pred).1.data.map ρp) ((connectedComponents b ref).1.data.map ρr)
      (connectedComponents b pred').1.data (connectedComponents b ref').1.data
      (by rw [List.length_map, List.length_map]; exact hlen) hlen'
      (by
        intro x hx
        rcases List.mem_append.1 hx with hx | hx
        · rcases List.mem_append.1 hx with hx | hx
          · rcases List.mem_append.1 hx with hx | hx
            · exact hbPρ x hx
            · exact hbRρ x hx
          · exact hbP' x hx
        · exact hbR' x hx)
      hfp
    rw [h'] at hci
    cases hY : pipeline { cfg with input := .UNMATCHED } bitsB
        ⟨pred.shape, (connectedComponents b pred).1.data.map ρp⟩
        ⟨pred.shape, (connectedComponents b ref).1.data.map ρr⟩ with
    | error e =>
      rw [hY] at hci
      cases hci
    | ok out'' =>
      rw [hY] at hci
      have hrep : C10.report out'' = C10.report out' := Except.ok.inj hci
      simp only [C10.report, Prod.mk.injEq] at hrep
      obtain ⟨e1, e2, e3, e4, _⟩ := hrep
      have hren := hrename bitsA bitsB pred.shape
        (connectedComponents b pred).1.data (connectedComponents b ref).1.data ρp ρr
        ⟨(specP.zero 0).2 rfl, fun x _ hx0 hρ => hx0 ((specP.zero x).1 hρ), spec_inj_on_data specP⟩
        ⟨(specR.zero 0).2 rfl, fun x _ hx0 hρ => hx0 ((specR.zero x).1 hρ), spec_inj_on_data specR⟩
        hlen
        (by
          intro x hx
          rcases List.mem_append.1 hx with hx | hx
          · exact hbP x hx
          · exact hbR x hx)
        (by
          intro x hx
          rcases List.mem_append.1 hx with hx | hx
          · exact hbPρ x hx
          · exact hbRρ x hx)
        (by
          intro hnil
          apply hp0
          rw [← labelsOf_cc_length b pred, hnil]; rfl)
        (by
          intro hnil
          apply hr0
          rw [← labelsOf_cc_length b ref, hnil]; rfl)
        hdet out out'' h hY
      rw [← e1, ← e2, ← e3, ← e4]
      exact hren

end Panoptica.SemanticMore
