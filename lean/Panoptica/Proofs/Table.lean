/- helper lemmas for C18 / C20 (header round trip, alignment, summaries) -/
import Panoptica.Model.Table
import Mathlib.Algebra.Order.Ring.Rat
namespace Panoptica.Tbl

/-! ### header round trip -/

theorem rsplitDash_headerCell (g m : Str) (hm : '-' ∉ m) : rsplitDash (headerCell g m) = (g, m) := by
  induction g with
  | nil =>
    simp [headerCell, rsplitDash, hm]
  | cons c g ih =>
    have hc : (g ++ '-' :: m).contains '-' = true := by simp
    simp only [headerCell, List.cons_append] at ih ⊢
    simp only [rsplitDash, ih, hc, if_true]

theorem keys_mkHeader {F : Type} (groups keys : List Str) (hk : ∀ m ∈ keys, '-' ∉ m)
    (rows : List (Str × List (Option (WVal F)))) :
    (load (mkHeader groups keys) rows).keys = groups.flatMap (fun g => keys.map (fun m => (g, m))) := by
  simp only [load, mkHeader, List.tail_cons, List.map_flatMap, List.map_map]
  congr 1
  funext g
  apply List.map_congr_left
  intro m hm
  exact rsplitDash_headerCell g m (hk m hm)

/-! ### index lookups -/

theorem getElem?_of_idxOf? {α : Type} [BEq α] [LawfulBEq α] {l : List α} {a : α} {i : Nat}
    (h : l.idxOf? a = some i) : l[i]? = some a := by
  obtain ⟨hi, ha, _⟩ := List.idxOf?_eq_some_iff.1 h
  rw [List.getElem?_eq_getElem hi, ha]

theorem exists_idxOf?_of_mem {α : Type} [BEq α] [LawfulBEq α] {l : List α} {a : α}
    (h : a ∈ l) : ∃ i, l.idxOf? a = some i := by
  cases hx : l.idxOf? a with
  | none => exact absurd h (List.idxOf?_eq_none_iff.1 hx)
  | some i => exact ⟨i, rfl⟩

theorem getElem?_map_of_idxOf? {α β : Type} [BEq α] [LawfulBEq α] {l : List α} {a : α} {i : Nat}
    (f : α → β) (h : l.idxOf? a = some i) : (l.map f)[i]? = some (f a) := by
  rw [List.getElem?_map, getElem?_of_idxOf? h]; rfl

theorem row_eq_map {β : Type} (groups keys : List Str) (f : Str → Str → β) :
    groups.flatMap (fun g => keys.map (fun m => f g m))
      = (groups.flatMap (fun g => keys.map (fun m => (g, m)))).map (fun p => f p.1 p.2) := by
  simp only [List.map_flatMap, List.map_map]
  rfl

theorem get_aligned {F : Type} (groups keys subjects : List Str) (res : Str → Str → Str → Option (WVal F))
    (hk : ∀ m ∈ keys, '-' ∉ m)
    (s g m : Str) (hsm : s ∈ subjects) (hgm : g ∈ groups) (hmm : m ∈ keys) :
    (load (mkHeader groups keys) (subjects.map (fun s => mkRow groups keys s (res s)))).get s g m
      = some (classify (res s g m)) := by
  have hkeys := keys_mkHeader groups keys hk (subjects.map (fun s => mkRow groups keys s (res s)))
  have hsub : (load (mkHeader groups keys) (subjects.map (fun s => mkRow groups keys s (res s)))).subjects
      = subjects := by
    simp only [load, List.map_map]
    conv => rhs; rw [← List.map_id subjects]
    rfl
  have hcols : (load (mkHeader groups keys) (subjects.map (fun s => mkRow groups keys s (res s)))).cols
      = subjects.map (fun s => (groups.flatMap (fun g => keys.map (fun m => (g, m)))).map
          (fun p => classify (res s p.1 p.2))) := by
    simp only [load, List.map_map]
    apply List.map_congr_left
    intro s _
    simp only [Function.comp, mkRow]
    rw [row_eq_map groups keys (res s), List.map_map]
    rfl
  obtain ⟨i, hi⟩ := exists_idxOf?_of_mem hsm
  have hmem : (g, m) ∈ groups.flatMap (fun g => keys.map (fun m => (g, m))) := by
    simp only [List.mem_flatMap, List.mem_map]
    exact ⟨g, hgm, m, hmm, rfl⟩
  obtain ⟨j, hj⟩ := exists_idxOf?_of_mem hmem
  unfold Loaded.get
  rw [hsub, hkeys, hcols, hi, hj]
  simp only
  rw [getElem?_map_of_idxOf? _ hi]
  simp only [Option.bind_some]
  rw [getElem?_map_of_idxOf? _ hj]

theorem length_row {β γ : Type} (groups keys : List Str) (f : Str → Str → β) (h : Str → Str → γ) :
    (groups.flatMap (fun g => keys.map (fun m => f g m))).length
      = (groups.flatMap (fun g => keys.map (fun m => h g m))).length := by
  induction groups with
  | nil => rfl
  | cons g gs ih => simp only [List.flatMap_cons, List.length_append, List.length_map, ih]

theorem get_column {F : Type} (t : Loaded F) (s g m : Str) (i j : Nat)
    (hi : t.subjects.idxOf? s = some i) (hj : t.keys.idxOf? (g, m) = some j)
    (row : List (Option F)) (hr : t.cols[i]? = some row) :
    t.get s g m = row[j]? ∧ (t.column g m)[i]? = some ((row[j]?).getD none) := by
  unfold Loaded.get Loaded.column
  rw [hi, hj]
  simp only
  rw [List.getElem?_map, hr]
  exact ⟨rfl, rfl⟩

/-! ### summaries -/

theorem finite_append_none (l₁ l₂ : List (Option Rat)) :
    finite (l₁ ++ none :: l₂) = finite (l₁ ++ l₂) := by
  simp only [finite, List.filterMap_append, List.filterMap_cons, id]

theorem mem_finite_iff (l : List (Option Rat)) (x : Rat) : x ∈ finite l ↔ some x ∈ l := by
  simp only [finite, List.mem_filterMap, id]
  constructor
  · rintro ⟨a, ha, rfl⟩; exact ha
  · intro h; exact ⟨some x, h, rfl⟩

theorem finite_perm {l₁ l₂ : List (Option Rat)} (h : l₁.Perm l₂) : (finite l₁).Perm (finite l₂) :=
  h.filterMap _

/-- sum with accumulator -/
theorem foldl_add_acc (l : List Rat) (a : Rat) : l.foldl (· + ·) a = a + l.foldl (· + ·) 0 := by
  induction l generalizing a with
  | nil => simp
  | cons x xs ih =>
    simp only [List.foldl_cons]
    rw [ih (a + x), ih (0 + x), zero_add, add_assoc]

theorem sumQ_cons (x : Rat) (l : List Rat) : sumQ (x :: l) = x + sumQ l := by
  simp only [sumQ, List.foldl_cons]
  rw [foldl_add_acc, zero_add]

theorem sumQ_perm {l₁ l₂ : List Rat} (h : l₁.Perm l₂) : sumQ l₁ = sumQ l₂ := by
  induction h with
  | nil => rfl
  | cons x _ ih => rw [sumQ_cons, sumQ_cons, ih]
  | swap x y l => rw [sumQ_cons, sumQ_cons, sumQ_cons, sumQ_cons, add_left_comm]
  | trans _ _ ih₁ ih₂ => exact ih₁.trans ih₂

/-- min loop invariant -/
theorem foldl_min_spec (l : List Rat) (a : Rat) :
    (l.foldl (fun a b => if b < a then b else a) a = a ∨
      l.foldl (fun a b => if b < a then b else a) a ∈ l) ∧
    l.foldl (fun a b => if b < a then b else a) a ≤ a ∧
    ∀ x ∈ l, l.foldl (fun a b => if b < a then b else a) a ≤ x := by
  induction l generalizing a with
  | nil => simp
  | cons y ys ih =>
    simp only [List.foldl_cons]
    by_cases hya : y < a
    · simp only [if_pos hya]
      obtain ⟨h1, h2, h3⟩ := ih y
      refine ⟨Or.inr ?_, le_trans h2 (le_of_lt hya), ?_⟩
      · rcases h1 with h1 | h1
        · rw [h1]; exact List.mem_cons_self
        · exact List.mem_cons_of_mem _ h1
      · intro x hx
        rcases List.mem_cons.1 hx with rfl | hx
        · exact h2
        · exact h3 x hx
    · simp only [if_neg hya]
      obtain ⟨h1, h2, h3⟩ := ih a
      refine ⟨?_, h2, ?_⟩
      · rcases h1 with h1 | h1
        · exact Or.inl h1
        · exact Or.inr (List.mem_cons_of_mem _ h1)
      · intro x hx
        rcases List.mem_cons.1 hx with rfl | hx
        · exact le_trans h2 (not_lt.1 hya)
        · exact h3 x hx

theorem foldl_max_spec (l : List Rat) (a : Rat) :
    (l.foldl (fun a b => if a < b then b else a) a = a ∨
      l.foldl (fun a b => if a < b then b else a) a ∈ l) ∧
    a ≤ l.foldl (fun a b => if a < b then b else a) a ∧
    ∀ x ∈ l, x ≤ l.foldl (fun a b => if a < b then b else a) a := by
  induction l generalizing a with
  | nil => simp
  | cons y ys ih =>
    simp only [List.foldl_cons]
    by_cases hya : a < y
    · simp only [if_pos hya]
      obtain ⟨h1, h2, h3⟩ := ih y
      refine ⟨Or.inr ?_, le_trans (le_of_lt hya) h2, ?_⟩
      · rcases h1 with h1 | h1
        · rw [h1]; exact List.mem_cons_self
        · exact List.mem_cons_of_mem _ h1
      · intro x hx
        rcases List.mem_cons.1 hx with rfl | hx
        · exact h2
        · exact h3 x hx
    · simp only [if_neg hya]
      obtain ⟨h1, h2, h3⟩ := ih a
      refine ⟨?_, h2, ?_⟩
      · rcases h1 with h1 | h1
        · exact Or.inl h1
        · exact Or.inr (List.mem_cons_of_mem _ h1)
      · intro x hx
        rcases List.mem_cons.1 hx with rfl | hx
        · exact le_trans (not_lt.1 hya) h2
        · exact h3 x hx

theorem minQ_spec (l : List Rat) (hne : l ≠ []) : minQ l ∈ l ∧ ∀ x ∈ l, minQ l ≤ x := by
  cases l with
  | nil => exact absurd rfl hne
  | cons a l =>
    obtain ⟨h1, h2, h3⟩ := foldl_min_spec l a
    refine ⟨?_, ?_⟩
    · rcases h1 with h1 | h1
      · exact List.mem_cons.2 (Or.inl h1)
      · exact List.mem_cons_of_mem _ h1
    · intro x hx
      rcases List.mem_cons.1 hx with rfl | hx
      · exact h2
      · exact h3 x hx

theorem maxQ_spec (l : List Rat) (hne : l ≠ []) : maxQ l ∈ l ∧ ∀ x ∈ l, x ≤ maxQ l := by
  cases l with
  | nil => exact absurd rfl hne
  | cons a l =>
    obtain ⟨h1, h2, h3⟩ := foldl_max_spec l a
    refine ⟨?_, ?_⟩
    · rcases h1 with h1 | h1
      · exact List.mem_cons.2 (Or.inl h1)
      · exact List.mem_cons_of_mem _ h1
    · intro x hx
      rcases List.mem_cons.1 hx with rfl | hx
      · exact h2
      · exact h3 x hx

theorem minQ_perm {l₁ l₂ : List Rat} (h : l₁.Perm l₂) : minQ l₁ = minQ l₂ := by
  by_cases hne : l₁ = []
  · subst hne; rw [h.nil_eq]
  · have hne2 : l₂ ≠ [] := fun e => hne (by subst e; exact h.eq_nil)
    obtain ⟨m1, b1⟩ := minQ_spec l₁ hne
    obtain ⟨m2, b2⟩ := minQ_spec l₂ hne2
    exact le_antisymm (b1 _ (h.mem_iff.2 m2)) (b2 _ (h.mem_iff.1 m1))

theorem maxQ_perm {l₁ l₂ : List Rat} (h : l₁.Perm l₂) : maxQ l₁ = maxQ l₂ := by
  by_cases hne : l₁ = []
  · subst hne; rw [h.nil_eq]
  · have hne2 : l₂ ≠ [] := fun e => hne (by subst e; exact h.eq_nil)
    obtain ⟨m1, b1⟩ := maxQ_spec l₁ hne
    obtain ⟨m2, b2⟩ := maxQ_spec l₂ hne2
    exact le_antisymm (b2 _ (h.mem_iff.1 m1)) (b1 _ (h.mem_iff.2 m2))

theorem summarize_perm {l₁ l₂ : List Rat} (h : l₁.Perm l₂) : summarize l₁ = summarize l₂ := by
  have hlen : l₁.length = l₂.length := h.length_eq
  have hsum : sumQ l₁ = sumQ l₂ := sumQ_perm h
  unfold summarize
  simp only [hlen, hsum, minQ_perm h, maxQ_perm h]
  congr 2
  exact sumQ_perm (h.map _)

end Panoptica.Tbl
