/- helper lemmas for Properties/C01Threshold.lean -/
import Panoptica.Proofs.Mirror
import Panoptica.Properties.C01Values
import Panoptica.Properties.C14
import Panoptica.Properties.C05
namespace Panoptica
namespace Threshold
open Mirror

/-! ### the merge loop's threshold invariant when `le` is transitive only on a class `E` of scores
    (here: the exact scores) that contains the threshold, every candidate score and every combined score -/

section mergeE
variable {S : Type} (le : S → S → Bool) (dec : Bool) (thr : S) (comb : Lab → List Lab → S)
variable (E : S → Prop)

theorem beats_of_strictlyBetterE
    (htrans : ∀ a b c, E a → E b → E c → le a b = true → le b c = true → le a c = true)
    (new old : S) (hn : E new) (ho : E old) (ht : E thr)
    (hs : strictlyBetter le dec new old = true) (hb : beats le dec old thr = true) :
    beats le dec new thr = true := by
  unfold strictlyBetter at hs
  unfold beats at hb ⊢
  cases dec
  · simp only [Bool.false_eq_true, if_false, Bool.and_eq_true] at hs hb ⊢
    exact htrans _ _ _ ht ho hn hb hs.1
  · simp only [if_true, Bool.and_eq_true] at hs hb ⊢
    exact htrans _ _ _ hn ho ht hs.1 hb

/-- every recorded score is in the class and meets the threshold -/
def InvThrE (st : MergeState S) : Prop :=
  ∀ r s, st.scores.get? r = some s → E s ∧ beats le dec s thr = true

theorem InvThrE_step
    (htrans : ∀ a b c, E a → E b → E c → le a b = true → le b c = true → le a c = true)
    (ht : E thr) (hcomb : ∀ r ps, E (comb r ps))
    (st : MergeState S) (c : Cand S) (hc : E c.score) (h : InvThrE le dec thr E st) :
    InvThrE le dec thr E (mergeStep le dec thr comb st c) := by
  rcases mergeStep_cases le dec thr comb st c with e | ⟨_, _, hb, e⟩ | ⟨_, _, old, ho, hsb, e⟩
  · rw [e]; exact h
  · rw [e]
    intro r s hs
    by_cases hrr : r = c.ref
    · subst hrr
      simp only [ScoreRef.get?_set_self, Option.some.injEq] at hs
      rw [← hs]; exact ⟨hc, hb⟩
    · simp only [ScoreRef.get?_set_ne _ _ _ _ hrr] at hs
      exact h r s hs
  · rw [e]
    intro r s hs
    by_cases hrr : r = c.ref
    · subst hrr
      simp only [ScoreRef.get?_set_self, Option.some.injEq] at hs
      rw [← hs]
      obtain ⟨hoE, hob⟩ := h _ _ ho
      exact ⟨hcomb _ _, beats_of_strictlyBetterE le dec thr E htrans _ _ (hcomb _ _) hoE ht hsb hob⟩
    · simp only [ScoreRef.get?_set_ne _ _ _ _ hrr] at hs
      exact h r s hs

/-- `C14.final_meets_threshold` with transitivity restricted to the class `E` -/
theorem final_meets_thresholdE
    (htrans : ∀ a b c, E a → E b → E c → le a b = true → le b c = true → le a c = true)
    (ht : E thr) (hcomb : ∀ r ps, E (comb r ps))
    (cs : List (Cand S)) (hcs : ∀ c ∈ cs, E c.score) (r : Lab) (s : S)
    (h : (mergeLoop le dec thr comb cs).scores.get? r = some s) :
    beats le dec s thr = true := by
  have key : InvThrE le dec thr E (mergeLoop le dec thr comb cs) := by
    unfold mergeLoop
    exact foldl_inv (mergeStep le dec thr comb) (InvThrE le dec thr E) (fun c => E c.score)
      (fun st c hq h => InvThrE_step le dec thr comb E htrans ht hcomb st c hq h) cs _ hcs
      (by intro r s hs; simp [ScoreRef.get?] at hs)
  exact (key r s h).2

end mergeE

/-- `Score.le` is transitive on exact scores -/
theorem scoreLe_trans_exact (a b c : Score) (ha : IsExact a) (hb : IsExact b) (hc : IsExact c)
    (hab : Score.le a b = true) (hbc : Score.le b c = true) : Score.le a c = true := by
  rw [leT_exact ha hb] at hab
  rw [leT_exact hb hc] at hbc
  rw [leT_exact ha hc]
  exact leT_trans a b c hab hbc

theorem mem_sortBest {S : Type} (le : S → S → Bool) (dec : Bool) (cs : List (Cand S)) (c : Cand S)
    (h : c ∈ sortBest le dec cs) : c ∈ cs := by
  unfold sortBest at h
  exact List.mem_mergeSort.1 h

/-! ### a matched reference's final score meets the matching threshold -/

theorem matched_beats_naive (mc : MatcherCfg) (hk : mc.kind = .naive false) (pred ref : Arr)
    (lm : LMap) (hrun : runMatcher mc pred ref = .ok lm) (r : Lab) (hr : lm.containsRef r = true) :
    beats Score.le mc.metric.decreasing (metricOn mc.metric pred ref r (lm.predsOf r)) mc.thr = true := by
  rw [runMatcher_naive mc false hk] at hrun
  cases hrun
  obtain ⟨e, he, her⟩ := (Values.containsRef_eq_true _ r).1 hr
  have hrefs := C03.injective Score.le mc.metric.decreasing mc.thr
    (sortBest Score.le mc.metric.decreasing (scoredCands mc.metric pred ref))
  have hmem : (e.1, r) ∈ naiveLoop Score.le mc.metric.decreasing mc.thr false
      (sortBest Score.le mc.metric.decreasing (scoredCands mc.metric pred ref)) := by
    rw [← her]; exact he
  rw [predsOf_single _ hrefs e.1 r hmem]
  obtain ⟨c, hc, h1, h2, hb⟩ := C03.sound Score.le mc.metric.decreasing mc.thr false _ _ hmem
  have hc' := mem_sortBest _ _ _ _ hc
  have hsc := C01.scoredCands_score mc.metric pred ref c hc'
  simp only at h1 h2
  rw [h1, h2] at hsc
  rw [← hsc]
  exact hb

theorem matched_beats_merge (mc : MatcherCfg) (hk : mc.kind = .merge)
    (hmm : mc.metric = .IOU ∨ mc.metric = .DSC) (ht : ∃ q, mc.thr = .exact q) (pred ref : Arr)
    (lm : LMap) (hrun : runMatcher mc pred ref = .ok lm) (r : Lab) (hr : lm.containsRef r = true) :
    beats Score.le mc.metric.decreasing (metricOn mc.metric pred ref r (lm.predsOf r)) mc.thr = true := by
  unfold runMatcher at hrun
  rw [hk] at hrun
  simp only at hrun
  cases hrun
  unfold mergeMatch at hr ⊢
  have hdef := C14.scores_defined Score.le mc.metric.decreasing mc.thr
    (fun r ps => metricOn mc.metric pred ref r ps)
    (sortBest Score.le mc.metric.decreasing (scoredCands mc.metric pred ref)) r
  rw [hr] at hdef
  obtain ⟨sc, hsc⟩ := Option.isSome_iff_exists.1 hdef
  have hscore : ∀ c ∈ sortBest Score.le mc.metric.decreasing (scoredCands mc.metric pred ref),
      c.score = metricOn mc.metric pred ref c.ref [c.pred] :=
    fun c hc => C01.scoredCands_score mc.metric pred ref c (mem_sortBest _ _ _ _ hc)
  have hinv := C14.score_invariant Score.le mc.metric.decreasing mc.thr
    (fun r ps => metricOn mc.metric pred ref r ps) _ hscore r sc hsc
  rw [← hinv]
  refine final_meets_thresholdE Score.le mc.metric.decreasing mc.thr
    (fun r ps => metricOn mc.metric pred ref r ps) IsExact scoreLe_trans_exact ht
    (fun r ps => metricOn_exact mc.metric hmm pred ref r ps) _ ?_ r sc hsc
  intro c hc
  rw [hscore c hc]
  exact metricOn_exact mc.metric hmm pred ref _ _

theorem matched_beats (mc : MatcherCfg) (hk : mc.kind = .naive false ∨ mc.kind = .merge)
    (hmm : mc.metric = .IOU ∨ mc.metric = .DSC) (ht : ∃ q, mc.thr = .exact q) (pred ref : Arr)
    (lm : LMap) (hrun : runMatcher mc pred ref = .ok lm) (r : Lab) (hr : lm.containsRef r = true) :
    beats Score.le mc.metric.decreasing (metricOn mc.metric pred ref r (lm.predsOf r)) mc.thr = true := by
  rcases hk with hk | hk
  · exact matched_beats_naive mc hk pred ref lm hrun r hr
  · exact matched_beats_merge mc hk hmm ht pred ref lm hrun r hr

/-! ### the matching phase with arbitrary non-zero counts -/

open Values in
/-- `Values.pipeline_values` factored through `matchPhase` (the counts passed in only have to be non-zero) -/
theorem matchPhase_values (cfg : Config) (bits : Nat) (s : List Nat) (pred ref : Flat) (mc : MatcherCfg)
    (np nr : Nat) (hn : (np == 0 || nr == 0) = false) (hm : cfg.matcher = some mc)
    (hlen : pred.length = ref.length) (hb : ∀ x ∈ pred ++ ref, x < 2 ^ 32 - 1)
    (hp : labelsOf pred ≠ []) (hr : labelsOf ref ≠ [])
    (out : PipeOut) (h : matchPhase cfg bits ⟨s, pred⟩ ⟨s, ref⟩ np nr = .ok out) :
    ∃ lm, runMatcher mc ⟨s, pred⟩ ⟨s, ref⟩ = .ok lm ∧ out.lmap = some lm ∧
      out.matchedPred = some (pred.map (rf lm pred ref)) ∧
      out.tp = (((labelsOf ref).filter (fun r => lm.containsRef r)).filter (fun r =>
         passesDecision Score.le cfg.decision (cfg.evalMetrics.map (fun m =>
           (m, metricOn m ⟨s, pred⟩ ⟨s, ref⟩ r (lm.predsOf r)))))).length ∧
      out.lists = cfg.evalMetrics.map (fun m => (m,
        (((labelsOf ref).filter (fun r => lm.containsRef r)).filter (fun r =>
         passesDecision Score.le cfg.decision (cfg.evalMetrics.map (fun m =>
           (m, metricOn m ⟨s, pred⟩ ⟨s, ref⟩ r (lm.predsOf r)))))).map
          (fun r => metricOn m ⟨s, pred⟩ ⟨s, ref⟩ r (lm.predsOf r)))) := by
  obtain ⟨lm, hrun⟩ := runMatcher_total mc ⟨s, pred⟩ ⟨s, ref⟩
  have hg : Good lm pred ref := runMatcher_good mc ⟨s, pred⟩ ⟨s, ref⟩ hlen hb lm hrun
  refine ⟨lm, hrun, ?_⟩
  rw [matchPhase_of_nonzero cfg bits ⟨s, pred⟩ ⟨s, ref⟩ _ _ mc lm hn hm hrun] at h
  change evalPhase cfg ⟨s, mapInstanceLabels bits pred (labelsOf ref) (labelsOf pred) lm⟩ ⟨s, ref⟩ _ _ = _ at h
  rw [C04.relabel_pointwise bits pred lm _ _ (bounded_of_good hg hb)] at h
  change evalPhase cfg ⟨s, pred.map (rf lm pred ref)⟩ ⟨s, ref⟩ (some lm)
    (some (pred.map (rf lm pred ref))) = _ at h
  rw [evalPhase_of_nonzero cfg ⟨s, pred.map (rf lm pred ref)⟩ ⟨s, ref⟩ _ _
    (labelsOf_map_rf_ne_nil hg hp) hr] at h
  have hd : (matchedInstances (pred.map (rf lm pred ref)) ref).map
      (evaluateInstance cfg.evalMetrics ⟨s, pred.map (rf lm pred ref)⟩ ⟨s, ref⟩) =
      ((labelsOf ref).filter (fun r => lm.containsRef r)).map (fun r => cfg.evalMetrics.map
        (fun m => (m, metricOn m ⟨s, pred⟩ ⟨s, ref⟩ r (lm.predsOf r)))) := by
    rw [matchedInstances_map_rf hg]
    apply List.map_congr_left
    intro r hrm
    have hrl : r ∈ labelsOf ref := (List.mem_filter.1 hrm).1
    unfold evaluateInstance
    apply List.map_congr_left
    intro m _
    rw [metricOn_map_rf m s hg r hrl]
  simp only at h
  rw [hd, evalMatched_score] at h
  cases h
  exact ⟨rfl, rfl, rfl, rfl⟩

theorem cc_shape (b : Backend) (a : Arr) : (connectedComponents b a).1.shape = a.shape := rfl

theorem cc_eta (b : Backend) (s : List Nat) (a : Flat) :
    (connectedComponents b ⟨s, a⟩).1 = ⟨s, (connectedComponents b ⟨s, a⟩).1.data⟩ := rfl

end Threshold
end Panoptica
