/- helper lemmas for the uniqueness theorem of the greedy matching (C03 / C01) -/
import Panoptica.Proofs.Matching
namespace Panoptica

/-! ### small list facts -/

theorem nodup_of_nodup_map {α β : Type} (f : α → β) :
    ∀ (l : List α), (l.map f).Nodup → l.Nodup := by
  intro l
  induction l with
  | nil => intro _; exact List.nodup_nil
  | cons a l ih =>
    intro h
    rw [List.map_cons, List.nodup_cons] at h
    rw [List.nodup_cons]
    refine ⟨?_, ih h.2⟩
    intro ha
    exact h.1 (List.mem_map.2 ⟨a, ha, rfl⟩)

theorem inj_of_nodup_map {α β : Type} (f : α → β) :
    ∀ (l : List α), (l.map f).Nodup → ∀ a ∈ l, ∀ b ∈ l, f a = f b → a = b := by
  intro l
  induction l with
  | nil => intro _ a ha; cases ha
  | cons x l ih =>
    intro h a ha b hb hab
    rw [List.map_cons, List.nodup_cons] at h
    rcases List.mem_cons.1 ha with rfl | ha' <;> rcases List.mem_cons.1 hb with rfl | hb'
    · rfl
    · exact absurd (List.mem_map.2 ⟨b, hb', hab.symm⟩) h.1
    · exact absurd (List.mem_map.2 ⟨a, ha', hab⟩) h.1
    · exact ih h.2 a ha' b hb' hab

theorem length_eq_of_nodup_of_mem_iff {α : Type} {l₁ l₂ : List α} (h₁ : l₁.Nodup) (h₂ : l₂.Nodup)
    (h : ∀ a, a ∈ l₁ ↔ a ∈ l₂) : l₁.length = l₂.length :=
  ((List.perm_ext_iff_of_nodup h₁ h₂).2 h).length_eq

/-! ### abstract uniqueness of a stable one-to-one assignment on a best-first sorted list -/

/-- `X` is a sound, one-to-one assignment over the candidates `L` in which an eligible candidate is
    left out only in favour of a competing assigned candidate that it is not at least as good as -/
structure GoodMatch {α : Type} (key : α → Lab × Lab) (elig : α → Prop) (R : α → α → Prop)
    (L : List α) (X : List (Lab × Lab)) : Prop where
  sound : ∀ e ∈ X, ∃ c ∈ L, key c = e ∧ elig c
  preds : (X.map (·.1)).Nodup
  refs : (X.map (·.2)).Nodup
  stable : ∀ c ∈ L, elig c → key c ∉ X →
    ∃ c' ∈ L, key c' ∈ X ∧ ((key c').1 = (key c).1 ∨ (key c').2 = (key c).2) ∧ ¬ R c c'

section
variable {α : Type} {key : α → Lab × Lab} {elig : α → Prop} {R : α → α → Prop}

/-- one direction of the induction step -/
theorem goodMatch_step {s t : List α} {c : α} {X Y : List (Lab × Lab)}
    (hkeys : ((s ++ c :: t).map key).Nodup)
    (hct : ∀ x ∈ t, R c x)
    (hX : GoodMatch key elig R (s ++ c :: t) X) (hY : GoodMatch key elig R (s ++ c :: t) Y)
    (ih : ∀ x ∈ s, key x ∈ X ↔ key x ∈ Y) :
    key c ∈ X → key c ∈ Y := by
  intro hcX
  refine Classical.byContradiction fun hcY => ?_
  have hcL : c ∈ s ++ c :: t := List.mem_append_right _ (List.mem_cons_self ..)
  -- `c` is eligible
  obtain ⟨c0, hc0, hk0, he0⟩ := hX.sound _ hcX
  have hc0c : c0 = c := inj_of_nodup_map key _ hkeys c0 hc0 c hcL hk0
  rw [hc0c] at he0
  -- `Y` leaves `c` out in favour of some `c'`
  obtain ⟨c', hc', hc'Y, hcomp, hnR⟩ := hY.stable c hcL he0 hcY
  -- `c'` lies strictly before `c`
  have hc's : c' ∈ s := by
    rcases List.mem_append.1 hc' with h | h
    · exact h
    · rcases List.mem_cons.1 h with h | h
      · rw [h] at hc'Y; exact absurd hc'Y hcY
      · exact absurd (hct c' h) hnR
  have hc'X : key c' ∈ X := (ih c' hc's).2 hc'Y
  -- both keys are in `X` and they share a component
  have hne : key c' ≠ key c := fun h => hcY (h ▸ hc'Y)
  rcases hcomp with h1 | h2
  · exact hne (inj_of_nodup_map (·.1) X hX.preds _ hc'X _ hcX h1)
  · exact hne (inj_of_nodup_map (·.2) X hX.refs _ hc'X _ hcX h2)

theorem goodMatch_agree_aux {L : List α} {X Y : List (Lab × Lab)}
    (hsorted : L.Pairwise R) (hkeys : (L.map key).Nodup)
    (hX : GoodMatch key elig R L X) (hY : GoodMatch key elig R L Y) :
    ∀ (t s : List α), s ++ t = L → (∀ x ∈ s, key x ∈ X ↔ key x ∈ Y) →
      ∀ x ∈ L, key x ∈ X ↔ key x ∈ Y := by
  intro t
  induction t with
  | nil =>
    intro s hs ih
    rw [List.append_nil] at hs
    rw [← hs]; exact ih
  | cons c t iht =>
    intro s hs ih
    subst hs
    have hct : ∀ x ∈ t, R c x := by
      have := (List.pairwise_append.1 hsorted).2.1
      exact (List.pairwise_cons.1 this).1
    apply iht (s ++ [c]) (by simp)
    intro x hx
    rcases List.mem_append.1 hx with h | h
    · exact ih x h
    · rw [List.mem_singleton] at h
      subst h
      exact ⟨goodMatch_step hkeys hct hX hY ih,
        goodMatch_step hkeys hct hY hX (fun y hy => (ih y hy).symm)⟩

/-- two such assignments over the same sorted candidate list have the same pairs -/
theorem goodMatch_unique {L : List α} {X Y : List (Lab × Lab)}
    (hsorted : L.Pairwise R) (hkeys : (L.map key).Nodup)
    (hX : GoodMatch key elig R L X) (hY : GoodMatch key elig R L Y) :
    ∀ e, e ∈ X ↔ e ∈ Y := by
  have hagree := goodMatch_agree_aux hsorted hkeys hX hY L [] (List.nil_append _)
    (fun x hx => by cases hx)
  intro e
  constructor
  · intro he
    obtain ⟨c, hc, hk, _⟩ := hX.sound e he
    rw [← hk]; rw [← hk] at he
    exact (hagree c hc).1 he
  · intro he
    obtain ⟨c, hc, hk, _⟩ := hY.sound e he
    rw [← hk]; rw [← hk] at he
    exact (hagree c hc).2 he

end

end Panoptica
