/- helper lemmas for the uniqueness theorem of the many-to-one greedy matching (C03 / C01) -/
import Panoptica.Proofs.Unique
import Panoptica.Properties.C03
namespace Panoptica

/-- `X` is a sound assignment over the candidates `L` that uses each prediction at most once and in
    which an eligible candidate is left out only in favour of an assigned candidate of the same
    prediction that is strictly better (`SB`) -/
structure GoodMatchM2O {α : Type} (key : α → Lab × Lab) (elig : α → Prop) (SB : α → α → Prop)
    (L : List α) (X : List (Lab × Lab)) : Prop where
  sound : ∀ e ∈ X, ∃ c ∈ L, key c = e ∧ elig c
  preds : (X.map (·.1)).Nodup
  stable : ∀ c ∈ L, elig c → key c ∉ X →
    ∃ c' ∈ L, key c' ∈ X ∧ (key c').1 = (key c).1 ∧ SB c' c

section
variable {α : Type} {key : α → Lab × Lab} {elig : α → Prop} {SB : α → α → Prop}

/-- with an asymmetric "strictly better" relation, one such assignment is contained in any other -/
theorem goodMatchM2O_sub {L : List α} {X Y : List (Lab × Lab)}
    (hkeys : (L.map key).Nodup) (hasym : ∀ a b, SB a b → SB b a → False)
    (hX : GoodMatchM2O key elig SB L X) (hY : GoodMatchM2O key elig SB L Y) :
    ∀ e, e ∈ X → e ∈ Y := by
  intro e heX
  refine Classical.byContradiction fun heY => ?_
  obtain ⟨c, hc, hk, he⟩ := hX.sound e heX
  subst hk
  -- `Y` leaves `c` out in favour of `c'` (same prediction, strictly better)
  obtain ⟨c', hc', hc'Y, hp', hsb'⟩ := hY.stable c hc he heY
  -- `c'` is not in `X`: its prediction is already used by `c`
  have hc'X : key c' ∉ X := by
    intro h
    have : key c' = key c := inj_of_nodup_map (·.1) X hX.preds _ h _ heX hp'
    exact heY (this ▸ hc'Y)
  obtain ⟨c0, hc0, hk0, he0⟩ := hY.sound _ hc'Y
  have hc0c' : c0 = c' := inj_of_nodup_map key _ hkeys c0 hc0 c' hc' hk0
  rw [hc0c'] at he0
  -- `X` leaves `c'` out in favour of `c''`, which must be `c`
  obtain ⟨c'', hc'', hc''X, hp'', hsb''⟩ := hX.stable c' hc' he0 hc'X
  have hkk : key c'' = key c := inj_of_nodup_map (·.1) X hX.preds _ hc''X _ heX (hp''.trans hp')
  have hcc : c'' = c := inj_of_nodup_map key _ hkeys c'' hc'' c hc hkk
  rw [hcc] at hsb''
  exact hasym _ _ hsb' hsb''

/-- two such assignments have the same pairs -/
theorem goodMatchM2O_unique {L : List α} {X Y : List (Lab × Lab)}
    (hkeys : (L.map key).Nodup) (hasym : ∀ a b, SB a b → SB b a → False)
    (hX : GoodMatchM2O key elig SB L X) (hY : GoodMatchM2O key elig SB L Y) :
    ∀ e, e ∈ X ↔ e ∈ Y :=
  fun e => ⟨goodMatchM2O_sub hkeys hasym hX hY e, goodMatchM2O_sub hkeys hasym hY hX e⟩

end

end Panoptica
