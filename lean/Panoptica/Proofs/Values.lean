/- helper lemmas for Properties/C01Values.lean -/
import Panoptica.Properties.C04
import Panoptica.Properties.C03
import Panoptica.Properties.C14
import Panoptica.Properties.C09
namespace Panoptica
end Panoptica
