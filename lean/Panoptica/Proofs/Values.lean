/- helper lemmas for Properties/C01Values.lean -/
import Panoptica.Properties.C04
import Panoptica.Properties.C03
import Panoptica.Properties.C14
import Panoptica.Properties.C09
import Panoptica.Properties.C01
import Panoptica.Proofs.Invariance
namespace Panoptica
namespace Values

/-- the `GoodMap` hypotheses (unbundled copy usable by the helper lemmas) -/
structure Good (lm : LMap) (pred ref : Flat) : Prop where
  keys : ∀ e ∈ lm, e.1 ∈ labelsOf pred
  vals : ∀ e ∈ lm, e.2 ∈ labelsOf ref
  functional : ∀ e ∈ lm, ∀ e' ∈ lm, e.1 = e'.1 → e.2 = e'.2

/-- the label renaming of the relabelling step -/
abbrev rf (lm : LMap) (pred ref : Flat) : Lab → Lab :=
  C04.relabelFn lm (labelsOf ref) (labelsOf pred)

/-! ### label map facts -/

theorem lookup_some_mem (lm : LMap) (p r : Lab) (h : lm.lookup p = some r) : (p, r) ∈ lm := by
  unfold LMap.lookup at h
  cases hf : lm.find? (fun e => e.1 == p) with
  | none => rw [hf] at h; simp at h
  | some e =>
    rw [hf] at h
    have hr : e.2 = r := by simpa using h
    have hm := List.mem_of_find?_eq_some hf
    have hk : e.1 = p := by simpa using List.find?_some hf
    rw [← hk, ← hr]; exact hm

theorem mem_predsOf (lm : LMap) (r x : Lab) : x ∈ lm.predsOf r ↔ (x, r) ∈ lm := by
  unfold LMap.predsOf
  rw [List.mem_map]
  constructor
  · rintro ⟨e, he, rfl⟩
    obtain ⟨h1, h2⟩ := List.mem_filter.1 he
    have : e.2 = r := by simpa using h2
    rw [← this]; exact h1
  · intro h
    exact ⟨(x, r), List.mem_filter.2 ⟨h, by simp⟩, rfl⟩

theorem containsRef_eq_true (lm : LMap) (r : Lab) :
    lm.containsRef r = true ↔ ∃ e ∈ lm, e.2 = r := by
  simp [LMap.containsRef]

variable {lm : LMap} {pred ref : Flat}

theorem lookup_of_mem (hg : Good lm pred ref) (e : Lab × Lab) (he : e ∈ lm) :
    lm.lookup e.1 = some e.2 := by
  obtain ⟨r, hr⟩ := lookup_of_key lm e.1 ⟨e, he, rfl⟩
  have hm := lookup_some_mem lm e.1 r hr
  have := hg.functional (e.1, r) hm e he rfl
  rw [hr]; exact congrArg some this

theorem rf_zero (hg : Good lm pred ref) : rf lm pred ref 0 = 0 :=
  C04.background_kept lm _ _ (fun e he => ((mem_labelsOf pred _).1 (hg.keys e he)).2)
    (fun p hp => ((mem_labelsOf pred p).1 hp).2)

theorem rf_mem (hg : Good lm pred ref) (e : Lab × Lab) (he : e ∈ lm) :
    rf lm pred ref e.1 = e.2 :=
  C04.matched_label lm _ _ e.1 e.2 (lookup_of_mem hg e he)

theorem rf_unmatched (x : Lab) (hx : x ∈ labelsOf pred) (hun : ∀ e ∈ lm, e.1 ≠ x) :
    rf lm pred ref x ∉ labelsOf ref :=
  (C04.fresh_outside_ref lm (labelsOf ref) (labelsOf pred) x hx
    ((containsPred_eq_false lm x).2 hun)).2

/-- pointwise characterisation of the renaming on the values of the prediction array -/
theorem rf_eq_iff (hg : Good lm pred ref) (r : Lab) (hr : r ∈ labelsOf ref) (x : Lab) (hx : x ∈ pred) :
    rf lm pred ref x = r ↔ (x, r) ∈ lm := by
  have hr0 : r ≠ 0 := ((mem_labelsOf ref r).1 hr).2
  by_cases hx0 : x = 0
  · subst hx0
    rw [rf_zero hg]
    constructor
    · intro h; exact absurd h.symm hr0
    · intro h
      exact absurd rfl ((mem_labelsOf pred _).1 (hg.keys _ h)).2
  · have hxl : x ∈ labelsOf pred := (mem_labelsOf pred x).2 ⟨hx, hx0⟩
    by_cases hk : ∃ e ∈ lm, e.1 = x
    · obtain ⟨e, he, rfl⟩ := hk
      rw [rf_mem hg e he]
      constructor
      · intro h; rw [← h]; exact he
      · intro h; exact (hg.functional (e.1, r) h e he rfl).symm
    · have hun : ∀ e ∈ lm, e.1 ≠ x := fun e he h => hk ⟨e, he, h⟩
      have hout := rf_unmatched (lm := lm) (ref := ref) x hxl hun
      constructor
      · intro h; rw [h] at hout; exact absurd hr hout
      · intro h; exact absurd rfl (hun _ h)

theorem contains_rf (hg : Good lm pred ref) (r : Lab) (hr : r ∈ labelsOf ref) (x : Lab) (hx : x ∈ pred) :
    [r].contains (rf lm pred ref x) = (lm.predsOf r).contains x := by
  rw [Bool.eq_iff_iff, List.contains_iff_mem, List.contains_iff_mem, List.mem_singleton,
    mem_predsOf]
  exact rf_eq_iff hg r hr x hx

theorem selPred_map_rf (hg : Good lm pred ref) (r : Lab) (hr : r ∈ labelsOf ref) :
    selPred (pred.map (rf lm pred ref)) [r] = selPred pred (lm.predsOf r) := by
  simp only [selPred, List.map_map]
  apply List.map_congr_left
  intro x hx
  exact contains_rf hg r hr x hx

/-! ### voxels of a mapped array -/

theorem voxels_map (s : List Nat) (a : Flat) (f : Lab → Lab) :
    (Arr.voxels ⟨s, a.map f⟩) = (Arr.voxels ⟨s, a⟩).map (fun v => (v.1, f v.2)) := by
  simp only [Arr.voxels]
  rw [List.zip_map_right]
  rfl

theorem coordsWhere_map (s : List Nat) (a : Flat) (f : Lab → Lab) (p q : Lab → Bool)
    (h : ∀ x ∈ a, p (f x) = q x) :
    coordsWhere ⟨s, a.map f⟩ p = coordsWhere ⟨s, a⟩ q := by
  unfold coordsWhere
  rw [voxels_map, List.filter_map, List.map_map]
  have hmem : ∀ v ∈ Arr.voxels ⟨s, a⟩, v.2 ∈ a := by
    intro v hv
    simp only [Arr.voxels] at hv
    exact (List.of_mem_zip (a := v.1) (b := v.2) hv).2
  have hf : List.filter ((fun v : Coord × Lab => p v.2) ∘ fun v => (v.1, f v.2)) (Arr.voxels ⟨s, a⟩)
      = List.filter (fun v => q v.2) (Arr.voxels ⟨s, a⟩) := by
    apply List.filter_congr
    intro v hv
    exact h v.2 (hmem v hv)
  rw [hf]
  apply List.map_congr_left
  intro v _
  rfl

theorem metricOn_map_rf (m : Metric) (s : List Nat) (hg : Good lm pred ref) (r : Lab)
    (hr : r ∈ labelsOf ref) :
    metricOn m ⟨s, pred.map (rf lm pred ref)⟩ ⟨s, ref⟩ r [r] =
      metricOn m ⟨s, pred⟩ ⟨s, ref⟩ r (lm.predsOf r) := by
  have hsel := selPred_map_rf hg r hr
  cases m with
  | IOU => simp only [metricOn, iouSel, selectPair, hsel]
  | DSC => simp only [metricOn, diceSel, selectPair, hsel]
  | RVD => simp only [metricOn, rvdSel, selectPair, hsel]
  | clDSC => rfl
  | ASSD =>
    simp only [metricOn]
    rw [coordsWhere_map s pred (rf lm pred ref) (fun l => [r].contains l)
      (fun l => (lm.predsOf r).contains l) (fun x hx => contains_rf hg r hr x hx)]

/-! ### matched instances -/

theorem sorted_filter (p : Nat → Bool) (l : List Nat) (h : l.Pairwise (· < ·)) :
    (l.filter p).Pairwise (· < ·) := h.filter p

theorem labelsOf_sorted (a : Flat) : (labelsOf a).Pairwise (· < ·) := uniqueSorted_sorted _

theorem matchedInstances_map_rf (hg : Good lm pred ref) :
    matchedInstances (pred.map (rf lm pred ref)) ref =
      (labelsOf ref).filter (fun r => lm.containsRef r) := by
  unfold matchedInstances
  apply sorted_ext _ _ (sorted_filter _ _ (labelsOf_sorted _)) (sorted_filter _ _ (labelsOf_sorted _))
  intro x
  rw [List.mem_filter, List.mem_filter, List.contains_iff_mem, containsRef_eq_true, mem_labelsOf,
    List.mem_map]
  constructor
  · rintro ⟨⟨⟨y, hy, hyx⟩, _⟩, hxr⟩
    refine ⟨hxr, (y, x), ?_, rfl⟩
    exact (rf_eq_iff hg x hxr y hy).1 hyx
  · rintro ⟨hxr, e, he, rfl⟩
    have hk := (mem_labelsOf pred _).1 (hg.keys e he)
    refine ⟨⟨⟨e.1, hk.1, rf_mem hg e he⟩, ((mem_labelsOf ref _).1 hxr).2⟩, hxr⟩

/-! ### both matchers produce a good map -/

theorem nodup_fst_functional (lm : LMap) (h : (lm.map (·.1)).Nodup) :
    ∀ e ∈ lm, ∀ e' ∈ lm, e.1 = e'.1 → e.2 = e'.2 := by
  induction lm with
  | nil => intro e he; cases he
  | cons a l ih =>
    rw [List.map_cons, List.nodup_cons] at h
    intro e he e' he' hk
    rcases List.mem_cons.1 he with rfl | he1 <;> rcases List.mem_cons.1 he' with rfl | he2
    · rfl
    · exact absurd (List.mem_map.2 ⟨e', he2, hk.symm⟩) h.1
    · exact absurd (List.mem_map.2 ⟨e, he1, hk⟩) h.1
    · exact ih h.2 e he1 e' he2 hk

/-- every entry of the merge matcher's label map comes from a candidate -/
theorem merge_entries {S : Type} (le : S → S → Bool) (dec : Bool) (thr : S)
    (comb : Lab → List Lab → S) (cs : List (Cand S)) :
    ∀ e ∈ (mergeLoop le dec thr comb cs).lmap, ∃ c ∈ cs, c.pred = e.1 ∧ c.ref = e.2 := by
  unfold mergeLoop
  apply foldl_inv (mergeStep le dec thr comb)
    (fun st => ∀ e ∈ st.lmap, ∃ c ∈ cs, c.pred = e.1 ∧ c.ref = e.2) (· ∈ cs) ?_ cs _ (fun _ h => h)
  · intro e he; cases he
  · intro st c hc h
    rcases C14.step_cases le dec thr comb st c with e | ⟨_, _, _, e⟩ | ⟨_, _, e⟩
    · rw [e]; exact h
    all_goals
      rw [e]
      intro x hx
      rcases List.mem_append.1 hx with hx | hx
      · exact h x hx
      · rw [List.mem_singleton] at hx
        subst hx
        exact ⟨c, hc, rfl, rfl⟩

/-- a candidate pair consists of non-zero labels present in the arrays -/
theorem cand_labels (metric : Metric) (pred ref : Arr) (hlen : pred.data.length = ref.data.length)
    (hbp : ∀ x ∈ pred.data, x < 2 ^ 32) (hbr : ∀ x ∈ ref.data, x < 2 ^ 32 - 1)
    (c : Cand Score) (hc : c ∈ sortBest Score.le metric.decreasing (scoredCands metric pred ref)) :
    c.pred ∈ labelsOf pred.data ∧ c.ref ∈ labelsOf ref.data := by
  have hc' : c ∈ scoredCands metric pred ref := by
    unfold sortBest at hc
    exact List.mem_mergeSort.1 hc
  obtain ⟨hr0, hp0, hov⟩ := (C01.scoredCands_spec metric pred ref hlen hbp hbr c.ref c.pred).1
    ⟨c, hc', rfl, rfl⟩
  have hz := List.of_mem_zip ((overlaps_iff pred.data ref.data c.ref c.pred).1 hov)
  exact ⟨(mem_labelsOf _ _).2 ⟨hz.1, hp0⟩, (mem_labelsOf _ _).2 ⟨hz.2, hr0⟩⟩

theorem runMatcher_good (mc : MatcherCfg) (pred ref : Arr) (hlen : pred.data.length = ref.data.length)
    (hb : ∀ x ∈ pred.data ++ ref.data, x < 2 ^ 32 - 1)
    (lm : LMap) (h : runMatcher mc pred ref = .ok lm) : Good lm pred.data ref.data := by
  have hbp : ∀ x ∈ pred.data, x < 2 ^ 32 := fun x hx =>
    lt32_of_lt x (hb x (List.mem_append_left _ hx))
  have hbr : ∀ x ∈ ref.data, x < 2 ^ 32 - 1 := fun x hx => hb x (List.mem_append_right _ hx)
  obtain ⟨kind, metric, thr⟩ := mc
  unfold runMatcher at h
  cases kind with
  | naive m2o =>
    simp only at h
    rw [C03.naive_total] at h
    cases h
    have hs := C03.sound Score.le metric.decreasing thr m2o
      (sortBest Score.le metric.decreasing (scoredCands metric pred ref))
    refine ⟨?_, ?_, nodup_fst_functional _ (C03.functional Score.le metric.decreasing thr m2o _)⟩
    · intro e he
      obtain ⟨c, hc, h1, _, _⟩ := hs e he
      rw [← h1]; exact (cand_labels metric pred ref hlen hbp hbr c hc).1
    · intro e he
      obtain ⟨c, hc, _, h2, _⟩ := hs e he
      rw [← h2]; exact (cand_labels metric pred ref hlen hbp hbr c hc).2
  | merge =>
    simp only at h
    cases h
    unfold mergeMatch
    have hs := merge_entries Score.le metric.decreasing thr
      (fun r ps => metricOn metric pred ref r ps)
      (sortBest Score.le metric.decreasing (scoredCands metric pred ref))
    refine ⟨?_, ?_, nodup_fst_functional _ (C14.merge_functional Score.le metric.decreasing thr _ _)⟩
    · intro e he
      obtain ⟨c, hc, h1, _⟩ := hs e he
      rw [← h1]; exact (cand_labels metric pred ref hlen hbp hbr c hc).1
    · intro e he
      obtain ⟨c, hc, _, h2⟩ := hs e he
      rw [← h2]; exact (cand_labels metric pred ref hlen hbp hbr c hc).2

theorem runMatcher_total (mc : MatcherCfg) (pred ref : Arr) : ∃ lm, runMatcher mc pred ref = .ok lm := by
  obtain ⟨kind, metric, thr⟩ := mc
  unfold runMatcher
  cases kind with
  | naive m2o => exact ⟨_, C03.naive_total Score.le metric.decreasing thr m2o _⟩
  | merge => exact ⟨_, rfl⟩

/-! ### evaluation -/

theorem find?_map_key {V : Type} (f : Metric → V) (ms : List Metric) (m : Metric) (hm : m ∈ ms) :
    (ms.map (fun m => (m, f m))).find? (fun e => e.1 == m) = some (m, f m) := by
  induction ms with
  | nil => cases hm
  | cons a l ih =>
    rw [List.map_cons, List.find?_cons]
    by_cases ha : a = m
    · subst ha; simp
    · have : ((a, f a).1 == m) = false := by simpa using ha
      rw [this]
      rcases List.mem_cons.1 hm with h | h
      · exact absurd h.symm ha
      · exact ih h

/-- `evalMatched` on dictionaries built from a score function -/
theorem evalMatched_score {V : Type} (le : V → V → Bool) (ms : List Metric)
    (decision : Option (Metric × V)) (labels : List Lab) (score : Metric → Lab → V) :
    evalMatched le ms decision (labels.map (fun r => ms.map (fun m => (m, score m r)))) =
      ((labels.filter (fun r => passesDecision le decision (ms.map (fun m => (m, score m r))))).length,
       ms.map (fun m => (m, (labels.filter (fun r =>
          passesDecision le decision (ms.map (fun m => (m, score m r))))).map (score m)))) := by
  unfold evalMatched
  simp only [List.filter_map, List.length_map]
  congr 1
  apply List.map_congr_left
  intro m hm
  congr 1
  rw [List.filterMap_map]
  rw [← List.filterMap_eq_map]
  apply List.filterMap_congr
  intro r _
  simp only [Function.comp_apply]
  rw [find?_map_key (fun m => score m r) ms m hm]
  rfl

/-- the bound needed by the relabelling step -/
theorem bounded_of_good (hg : Good lm pred ref) (hb : ∀ x ∈ pred ++ ref, x < 2 ^ 32 - 1) :
    C04.Bounded pred lm (labelsOf ref) (labelsOf pred) := by
  have hbp : ∀ x ∈ pred, x < 2 ^ 32 - 1 := fun x hx => hb x (List.mem_append_left _ hx)
  have hbr : ∀ x ∈ ref, x < 2 ^ 32 - 1 := fun x hx => hb x (List.mem_append_right _ hx)
  have hmax := maxRef_bound ref hbr
  have hlenL := labelsOf_length_le pred (2 ^ 32) (fun x hx => lt32_of_lt x (hbp x hx))
  refine ⟨?_, ?_, ?_, ?_⟩
  · intro x hx
    exact lt64_of_lt x (hbp x hx)
  · intro e he
    exact ⟨lt64_of_lt _ (hbp _ ((mem_labelsOf pred _).1 (hg.keys e he)).1),
      lt64_of_lt _ (hbr _ ((mem_labelsOf ref _).1 (hg.vals e he)).1)⟩
  · intro q hq
    exact lt64_of_lt q (hbp q ((mem_labelsOf pred q).1 hq).1)
  · omega

theorem labelsOf_map_rf_ne_nil (hg : Good lm pred ref) (hp : labelsOf pred ≠ []) :
    labelsOf (pred.map (rf lm pred ref)) ≠ [] := by
  cases hl : labelsOf pred with
  | nil => exact absurd hl hp
  | cons p ps =>
    have hpm : p ∈ labelsOf pred := by rw [hl]; exact List.mem_cons_self ..
    have hne := C04.foreground_kept lm (labelsOf ref) (labelsOf pred)
      (fun e he => ((mem_labelsOf ref _).1 (hg.vals e he)).2) p hpm
    have : rf lm pred ref p ∈ labelsOf (pred.map (rf lm pred ref)) :=
      (mem_labelsOf _ _).2 ⟨List.mem_map.2 ⟨p, ((mem_labelsOf pred p).1 hpm).1, rfl⟩, hne⟩
    intro h
    rw [h] at this
    cases this

/-- end to end (unbundled form of `C01.pipeline_unmatched_values`) -/
theorem pipeline_values (cfg : Config) (bits : Nat) (s : List Nat) (pred ref : Flat) (mc : MatcherCfg)
    (hin : cfg.input = .UNMATCHED) (hm : cfg.matcher = some mc)
    (hlen : pred.length = ref.length) (hb : ∀ x ∈ pred ++ ref, x < 2 ^ 32 - 1)
    (hp : labelsOf pred ≠ []) (hr : labelsOf ref ≠ [])
    (out : PipeOut) (h : pipeline cfg bits ⟨s, pred⟩ ⟨s, ref⟩ = .ok out) :
    ∃ lm, runMatcher mc ⟨s, pred⟩ ⟨s, ref⟩ = .ok lm ∧ out.lmap = some lm ∧
      out.matchedPred = some (pred.map (rf lm pred ref)) ∧
      out.nRef = (labelsOf ref).length ∧
      out.tp = (((labelsOf ref).filter (fun r => lm.containsRef r)).filter (fun r =>
         passesDecision Score.le cfg.decision (cfg.evalMetrics.map (fun m =>
           (m, metricOn m ⟨s, pred⟩ ⟨s, ref⟩ r (lm.predsOf r)))))).length ∧
      out.lists = cfg.evalMetrics.map (fun m => (m,
        (((labelsOf ref).filter (fun r => lm.containsRef r)).filter (fun r =>
         passesDecision Score.le cfg.decision (cfg.evalMetrics.map (fun m =>
           (m, metricOn m ⟨s, pred⟩ ⟨s, ref⟩ r (lm.predsOf r)))))).map
          (fun r => metricOn m ⟨s, pred⟩ ⟨s, ref⟩ r (lm.predsOf r)))) := by
  obtain ⟨lm, hrun⟩ := runMatcher_total mc ⟨s, pred⟩ ⟨s, ref⟩
  have hg : Good lm pred ref := runMatcher_good mc ⟨s, pred⟩ ⟨s, ref⟩ hlen hb lm hrun
  refine ⟨lm, hrun, ?_⟩
  have hn : ((labelsOf pred).length == 0 || (labelsOf ref).length == 0) = false := by
    cases h1 : labelsOf pred with
    | nil => exact absurd h1 hp
    | cons _ _ =>
      cases h2 : labelsOf ref with
      | nil => exact absurd h2 hr
      | cons _ _ => simp
  unfold pipeline at h
  rw [hin] at h
  change matchPhase cfg bits ⟨s, pred⟩ ⟨s, ref⟩ (labelsOf pred).length (labelsOf ref).length = _ at h
  rw [matchPhase_of_nonzero cfg bits ⟨s, pred⟩ ⟨s, ref⟩ _ _ mc lm hn hm hrun] at h
  change evalPhase cfg ⟨s, mapInstanceLabels bits pred (labelsOf ref) (labelsOf pred) lm⟩ ⟨s, ref⟩ _ _ = _ at h
  rw [C04.relabel_pointwise bits pred lm _ _ (bounded_of_good hg hb)] at h
  change evalPhase cfg ⟨s, pred.map (rf lm pred ref)⟩ ⟨s, ref⟩ (some lm)
    (some (pred.map (rf lm pred ref))) = _ at h
  rw [evalPhase_of_nonzero cfg ⟨s, pred.map (rf lm pred ref)⟩ ⟨s, ref⟩ _ _
    (labelsOf_map_rf_ne_nil hg hp) hr] at h
  have hd : (matchedInstances (pred.map (rf lm pred ref)) ref).map
      (evaluateInstance cfg.evalMetrics ⟨s, pred.map (rf lm pred ref)⟩ ⟨s, ref⟩) =
      ((labelsOf ref).filter (fun r => lm.containsRef r)).map (fun r => cfg.evalMetrics.map
        (fun m => (m, metricOn m ⟨s, pred⟩ ⟨s, ref⟩ r (lm.predsOf r)))) := by
    rw [matchedInstances_map_rf hg]
    apply List.map_congr_left
    intro r hrm
    have hrl : r ∈ labelsOf ref := (List.mem_filter.1 hrm).1
    unfold evaluateInstance
    apply List.map_congr_left
    intro m _
    rw [metricOn_map_rf m s hg r hrl]
  simp only at h
  rw [hd, evalMatched_score] at h
  cases h
  exact ⟨rfl, rfl, rfl, rfl, rfl⟩

end Values
end Panoptica
