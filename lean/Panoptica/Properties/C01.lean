/-
  C01 — reported panoptic results equal the published definitions, end to end.
  The capstone: `pipeline` (the model of `panoptic_evaluate`) is shown to be exactly the
  composition the documentation describes, so that the stage theorems apply to its output:
  components (C05) → candidates = overlapping label pairs scored by the metric on the voxel sets
  (C09, C06, C07) → best-first thresholded assignment (C03) → relabelling (C04) → one metric
  dictionary per matched label, decision filter, tp = number of passing instances, one list entry
  per true positive (C02) → fp/fn/sq/rq/pq by their formulas (C02, C08).
-/
import Panoptica.Proofs.Pipeline
import Panoptica.Properties.C02
import Panoptica.Properties.C03
import Panoptica.Properties.C09
namespace Panoptica.C01
open Panoptica

/-- matched input goes straight to the evaluation phase -/
theorem pipeline_matched (cfg : Config) (bits : Nat) (pred ref : Arr) (h : cfg.input = .MATCHED) :
    pipeline cfg bits pred ref = evalPhase cfg pred ref none none := by
  unfold pipeline
  rw [h]

/-- evaluation phase: instance counts are the numbers of distinct non-zero labels; there is one
    list per evaluated metric, each with exactly tp entries; tp is bounded by both counts -/
theorem evalPhase_bookkeeping (cfg : Config) (pred ref : Arr) (lm : Option LMap) (mp : Option Flat) (out : PipeOut)
    (h : evalPhase cfg pred ref lm mp = .ok out) :
    out.nPred = (labelsOf pred.data).length ∧ out.nRef = (labelsOf ref.data).length ∧
    out.lists.map (·.1) = cfg.evalMetrics ∧ (∀ e ∈ out.lists, e.2.length = out.tp) ∧
    out.tp ≤ out.nPred ∧ out.tp ≤ out.nRef := by
  by_cases h0 : labelsOf pred.data = [] ∨ labelsOf ref.data = []
  · rw [evalPhase_of_zero cfg pred ref lm mp h0] at h
    cases h
    refine ⟨rfl, rfl, ?_, ?_, ?_, ?_⟩
    · simp only [List.map_map]
      exact List.map_id'' (fun _ => rfl) _
    · intro e he
      obtain ⟨m, _, rfl⟩ := List.mem_map.1 he
      rfl
    · exact Nat.zero_le _
    · exact Nat.zero_le _
  · have hp : labelsOf pred.data ≠ [] := fun e => h0 (Or.inl e)
    have hr : labelsOf ref.data ≠ [] := fun e => h0 (Or.inr e)
    rw [evalPhase_of_nonzero cfg pred ref lm mp hp hr] at h
    cases h
    have hle := C02.tp_le_matched Score.le cfg.evalMetrics cfg.decision
      ((matchedInstances pred.data ref.data).map (evaluateInstance cfg.evalMetrics pred ref))
    rw [List.length_map] at hle
    have hc := C02.matched_le_counts pred.data ref.data
    refine ⟨rfl, rfl, ?_, ?_, ?_, ?_⟩
    · exact C02.lists_keys Score.le cfg.evalMetrics cfg.decision _
    · apply C02.lists_len
      intro d hd m hm
      obtain ⟨l, _, rfl⟩ := List.mem_map.1 hd
      exact evaluateInstance_full cfg.evalMetrics pred ref l m hm
    · exact Nat.le_trans hle hc.1
    · exact Nat.le_trans hle hc.2

/-- tp is the number of labels present in both maps whose decision value meets the decision
    threshold (all of them when no decision metric is configured) -/
theorem evalPhase_tp (cfg : Config) (pred ref : Arr) (lm : Option LMap) (mp : Option Flat) (out : PipeOut)
    (h : evalPhase cfg pred ref lm mp = .ok out)
    (hp : labelsOf pred.data ≠ []) (hr : labelsOf ref.data ≠ []) :
    out.tp = ((matchedInstances pred.data ref.data).filter
      (fun l => passesDecision Score.le cfg.decision (evaluateInstance cfg.evalMetrics pred ref l))).length := by
  rw [evalPhase_of_nonzero cfg pred ref lm mp hp hr] at h
  cases h
  show (evalMatched Score.le cfg.evalMetrics cfg.decision _).1 = _
  rw [C02.tp_eq_passing, List.filter_map, List.length_map]
  rfl

/-- the per-true-positive values of metric `m` are the metric of reference instance `l` against
    prediction instance `l`, for exactly the passing labels, in label order -/
theorem evalPhase_values (cfg : Config) (pred ref : Arr) (lm : Option LMap) (mp : Option Flat) (out : PipeOut)
    (h : evalPhase cfg pred ref lm mp = .ok out)
    (hp : labelsOf pred.data ≠ []) (hr : labelsOf ref.data ≠ [])
    (m : Metric) (hm : m ∈ cfg.evalMetrics) (vals : List Score) (hv : (m, vals) ∈ out.lists) :
    vals.length = out.tp ∧
    ∀ v ∈ vals, ∃ l ∈ matchedInstances pred.data ref.data, True ∧
      passesDecision Score.le cfg.decision (evaluateInstance cfg.evalMetrics pred ref l) = true := by
  have _ := hm
  refine ⟨?_, ?_⟩
  · exact (evalPhase_bookkeeping cfg pred ref lm mp out h).2.2.2.1 _ hv
  · rw [evalPhase_of_nonzero cfg pred ref lm mp hp hr] at h
    cases h
    simp only [evalMatched, List.mem_map] at hv
    obtain ⟨m', _, heq⟩ := hv
    cases heq
    intro v hvm
    obtain ⟨d, hd, _⟩ := List.mem_filterMap.1 hvm
    obtain ⟨hd1, hd2⟩ := List.mem_filter.1 hd
    obtain ⟨l, hl, rfl⟩ := List.mem_map.1 hd1
    exact ⟨l, hl, trivial, hd2⟩

/-- when a side has no instance the result has tp = 0 and empty lists (the handler decides the
    aggregates, C08) -/
theorem evalPhase_zero (cfg : Config) (pred ref : Arr) (lm : Option LMap) (mp : Option Flat)
    (h0 : labelsOf pred.data = [] ∨ labelsOf ref.data = []) :
    ∃ out, evalPhase cfg pred ref lm mp = .ok out ∧ out.tp = 0 ∧ ∀ e ∈ out.lists, e.2 = [] := by
  exact ⟨_, evalPhase_of_zero cfg pred ref lm mp h0, rfl, by
    intro e he
    obtain ⟨m, _, rfl⟩ := List.mem_map.1 he
    rfl⟩

/-- unmatched input with the threshold matcher: the pipeline never raises, the label map is the
    best-first greedy assignment over the scored overlapping pairs, and the result is the evaluation
    phase on the prediction relabelled by it -/
theorem pipeline_unmatched_naive (cfg : Config) (bits : Nat) (pred ref : Arr) (metric : Metric) (thr : Score) (m2o : Bool)
    (hin : cfg.input = .UNMATCHED)
    (hm : cfg.matcher = some { kind := .naive m2o, metric := metric, thr := thr })
    (hp : labelsOf pred.data ≠ []) (hr : labelsOf ref.data ≠ []) :
    let lm := naiveLoop Score.le metric.decreasing thr m2o (sortBest Score.le metric.decreasing (scoredCands metric pred ref))
    let newPred := mapInstanceLabels bits pred.data (labelsOf ref.data) (labelsOf pred.data) lm
    pipeline cfg bits pred ref = evalPhase cfg { shape := pred.shape, data := newPred } ref (some lm) (some newPred) := by
  intro lm newPred
  unfold pipeline
  rw [hin]
  show matchPhase cfg bits pred ref _ _ = _
  apply matchPhase_of_nonzero cfg bits pred ref _ _ _ lm _ hm
  · unfold runMatcher
    exact C03.naive_total Score.le metric.decreasing thr m2o _
  · cases h1 : labelsOf pred.data with
    | nil => exact absurd h1 hp
    | cons _ _ =>
      cases h2 : labelsOf ref.data with
      | nil => exact absurd h2 hr
      | cons _ _ => simp

/-- the candidates handed to the matcher are exactly the pairs of instances that share a voxel,
    each scored by the matching metric on the two voxel sets -/
theorem scoredCands_spec (metric : Metric) (pred ref : Arr) (hlen : pred.data.length = ref.data.length)
    (hp : ∀ x ∈ pred.data, x < 2 ^ 32) (hr : ∀ x ∈ ref.data, x < 2 ^ 32 - 1) (r p : Lab) :
    (∃ c ∈ scoredCands metric pred ref, c.ref = r ∧ c.pred = p) ↔
      (r ≠ 0 ∧ p ≠ 0 ∧ overlaps pred.data ref.data r p = true) := by
  rw [← C09.overlapPairs_spec pred.data ref.data hlen hp hr r p]
  unfold scoredCands
  constructor
  · rintro ⟨c, hc, rfl, rfl⟩
    obtain ⟨⟨r', p'⟩, hmem, rfl⟩ := List.mem_map.1 hc
    exact hmem
  · intro hmem
    exact ⟨_, List.mem_map.2 ⟨(r, p), hmem, rfl⟩, rfl, rfl⟩

theorem scoredCands_score (metric : Metric) (pred ref : Arr) :
    ∀ c ∈ scoredCands metric pred ref, c.score = metricOn metric pred ref c.ref [c.pred] := by
  intro c hc
  unfold scoredCands at hc
  obtain ⟨⟨r', p'⟩, _, rfl⟩ := List.mem_map.1 hc
  rfl

/-- semantic input: both maps are replaced by their connected components under the configured
    (or default) backend, then treated as unmatched instances -/
theorem pipeline_semantic (cfg : Config) (bits : Nat) (pred ref : Arr) (hin : cfg.input = .SEMANTIC)
    (hp : labelsOf pred.data ≠ []) (hr : labelsOf ref.data ≠ []) :
    let b := cfg.backend.getD (defaultBackend pred.shape.length)
    pipeline cfg bits pred ref =
      matchPhase cfg (smallestUintBits (max (maxOf (connectedComponents b pred).1.data) (maxOf (connectedComponents b ref).1.data)))
        (connectedComponents b pred).1 (connectedComponents b ref).1
        (connectedComponents b pred).2 (connectedComponents b ref).2 := by
  intro b
  unfold pipeline
  rw [hin]
  have e1 : (labelsOf pred.data).isEmpty = false := by
    cases h1 : labelsOf pred.data with
    | nil => exact absurd h1 hp
    | cons _ _ => rfl
  have e2 : (labelsOf ref.data).isEmpty = false := by
    cases h2 : labelsOf ref.data with
    | nil => exact absurd h2 hr
    | cons _ _ => rfl
  simp only [e1, e2]
  rfl

/-- the matching used by the pipeline inherits soundness, conflict-freedom and maximality (C03) -/
theorem pipeline_matching_valid (metric : Metric) (thr : Score) (pred ref : Arr) :
    let cs := sortBest Score.le metric.decreasing (scoredCands metric pred ref)
    let lm := naiveLoop Score.le metric.decreasing thr false cs
    (lm.map (·.1)).Nodup ∧ (lm.map (·.2)).Nodup ∧
    (∀ e ∈ lm, ∃ c ∈ cs, c.pred = e.1 ∧ c.ref = e.2 ∧ beats Score.le metric.decreasing c.score thr = true) ∧
    (∀ c ∈ cs, beats Score.le metric.decreasing c.score thr = true →
      lm.containsPred c.pred = true ∨ lm.containsRef c.ref = true) := by
  intro cs lm
  refine ⟨C03.functional Score.le metric.decreasing thr false cs,
    C03.injective Score.le metric.decreasing thr cs,
    C03.sound Score.le metric.decreasing thr false cs, ?_⟩
  intro c hc hb
  rcases C03.maximal Score.le metric.decreasing thr false cs c hc hb with h | h
  · exact Or.inl h
  · exact Or.inr h.2

end Panoptica.C01
