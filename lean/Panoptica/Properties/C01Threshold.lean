/-
  C01 (corollaries of the values theorem)
  * every true positive that is reported meets the matching threshold in the matching metric — for the
    one-to-one threshold matcher (the pair's own score) and for the merge matcher (the final score of the
    merged prediction, C14), matching on IoU or Dice;
  * semantic input: the closed form of `pipeline_unmatched_values` holds for the connected components of the
    two maps (C05) — instances are the components, matched best-first, evaluated pair by pair.
-/
import Panoptica.Proofs.Threshold
import Panoptica.Properties.C01Values
import Panoptica.Properties.C14
import Panoptica.Properties.C05
namespace Panoptica.C01
open Panoptica

/-- every reported value of the matching metric meets the matching threshold -/
theorem reported_values_meet_threshold (cfg : Config) (bits : Nat) (s : List Nat) (pred ref : Flat) (mc : MatcherCfg)
    (hin : cfg.input = .UNMATCHED) (hm : cfg.matcher = some mc)
    (hk : mc.kind = .naive false ∨ mc.kind = .merge)
    (hmm : mc.metric = .IOU ∨ mc.metric = .DSC) (ht : ∃ q, mc.thr = .exact q)
    (hlen : pred.length = ref.length) (hb : ∀ x ∈ pred ++ ref, x < 2 ^ 32 - 1)
    (hp : labelsOf pred ≠ []) (hr : labelsOf ref ≠ [])
    (out : PipeOut) (h : pipeline cfg bits ⟨s, pred⟩ ⟨s, ref⟩ = .ok out)
    (vals : List Score) (hv : (mc.metric, vals) ∈ out.lists) :
    ∀ v ∈ vals, beats Score.le mc.metric.decreasing v mc.thr = true := by
  obtain ⟨lm, hrun, _, _, _, _, hlists⟩ :=
    Values.pipeline_values cfg bits s pred ref mc hin hm hlen hb hp hr out h
  rw [hlists] at hv
  obtain ⟨m1, _, heq⟩ := List.mem_map.1 hv
  simp only [Prod.mk.injEq] at heq
  obtain ⟨rfl, rfl⟩ := heq
  intro v hvm
  obtain ⟨r, hrm, rfl⟩ := List.mem_map.1 hvm
  have hcr : lm.containsRef r = true := (List.mem_filter.1 (List.mem_filter.1 hrm).1).2
  exact Threshold.matched_beats mc hk hmm ht ⟨s, pred⟩ ⟨s, ref⟩ lm hrun r hcr

/-- semantic input: what is reported is the closed form of `pipeline_unmatched_values` for the connected
    components of the two maps under the configured / default backend -/
theorem pipeline_semantic_values (cfg : Config) (bits : Nat) (s : List Nat) (pred ref : Flat) (mc : MatcherCfg)
    (hin : cfg.input = .SEMANTIC) (hm : cfg.matcher = some mc)
    (hp : labelsOf pred ≠ []) (hr : labelsOf ref ≠ [])
    (P R : Flat)
    (hP : P = (connectedComponents (cfg.backend.getD (defaultBackend s.length)) ⟨s, pred⟩).1.data)
    (hR : R = (connectedComponents (cfg.backend.getD (defaultBackend s.length)) ⟨s, ref⟩).1.data)
    (hnp : (connectedComponents (cfg.backend.getD (defaultBackend s.length)) ⟨s, pred⟩).2 ≠ 0)
    (hnr : (connectedComponents (cfg.backend.getD (defaultBackend s.length)) ⟨s, ref⟩).2 ≠ 0)
    (hlen : P.length = R.length) (hb : ∀ x ∈ P ++ R, x < 2 ^ 32 - 1)
    (hP0 : labelsOf P ≠ []) (hR0 : labelsOf R ≠ [])
    (out : PipeOut) (h : pipeline cfg bits ⟨s, pred⟩ ⟨s, ref⟩ = .ok out) :
    ∃ lm, runMatcher mc ⟨s, P⟩ ⟨s, R⟩ = .ok lm ∧ out.lmap = some lm ∧
      out.matchedPred = some (mapped lm P R) ∧
      (let score := fun (m : Metric) (r : Lab) => metricOn m ⟨s, P⟩ ⟨s, R⟩ r (lm.predsOf r)
       let matched := (labelsOf R).filter (fun r => lm.containsRef r)
       let passing := matched.filter (fun r =>
         passesDecision Score.le cfg.decision (cfg.evalMetrics.map (fun m => (m, score m r))))
       out.tp = passing.length ∧
       out.lists = cfg.evalMetrics.map (fun m => (m, passing.map (score m)))) := by
  have hsem := C01.pipeline_semantic cfg bits ⟨s, pred⟩ ⟨s, ref⟩ hin hp hr
  simp only at hsem
  rw [hsem] at h
  rw [Threshold.cc_eta _ s pred, Threshold.cc_eta _ s ref, ← hP, ← hR] at h
  have hn : (((connectedComponents (cfg.backend.getD (defaultBackend s.length)) ⟨s, pred⟩).2 == 0 ||
      (connectedComponents (cfg.backend.getD (defaultBackend s.length)) ⟨s, ref⟩).2 == 0)) = false := by
    simp [hnp, hnr]
  obtain ⟨lm, hrun, h1, h2, h3, h4⟩ :=
    Threshold.matchPhase_values cfg _ s P R mc _ _ hn hm hlen hb hP0 hR0 out h
  exact ⟨lm, hrun, h1, h2, h3, h4⟩

end Panoptica.C01
