/-
  C01 (values) — what the evaluator reports for a true positive is the metric of the *matched pair*:
  reference instance `r` against the union of the prediction instances the matcher assigned to `r`,
  computed on the ORIGINAL arrays. This closes the chain  matching (C03/C14) → relabelling (C04) →
  per-instance evaluation (C02): for unmatched instance input, the reported label map is the
  matcher's, the matched references are the reference labels that got a partner, tp is the number of
  those that pass the decision test, and every per-metric list holds, in ascending reference-label
  order, `metricOn m pred ref r (predictions assigned to r)` — the published definition — for every
  metric (IoU, Dice, RVD, ASSD), both matchers, every threshold and decision setting.
-/
import Panoptica.Proofs.Values
import Panoptica.Properties.C01
import Panoptica.Properties.C04
namespace Panoptica.C01
open Panoptica

/-- a label map over this pair of arrays: keys are prediction labels, values reference labels, and a
    prediction has one reference -/
structure GoodMap (lm : LMap) (pred ref : Flat) : Prop where
  keys : ∀ e ∈ lm, e.1 ∈ labelsOf pred
  vals : ∀ e ∈ lm, e.2 ∈ labelsOf ref
  functional : ∀ e ∈ lm, ∀ e' ∈ lm, e.1 = e'.1 → e.2 = e'.2

/-- the relabelled prediction -/
def mapped (lm : LMap) (pred ref : Flat) : Flat :=
  pred.map (C04.relabelFn lm (labelsOf ref) (labelsOf pred))

/-- voxels of the relabelled prediction that carry reference label `r` are exactly the voxels of the
    predictions assigned to `r` -/
theorem selPred_mapped (lm : LMap) (pred ref : Flat) (hg : GoodMap lm pred ref) (r : Lab)
    (hr : r ∈ labelsOf ref) :
    selPred (mapped lm pred ref) [r] = selPred pred (lm.predsOf r) := by
  exact Values.selPred_map_rf ⟨hg.keys, hg.vals, hg.functional⟩ r hr

/-- hence every metric of instance `r` on the relabelled pair is the metric of the matched pair on the
    original arrays -/
theorem metricOn_mapped (m : Metric) (s : List Nat) (lm : LMap) (pred ref : Flat)
    (hg : GoodMap lm pred ref) (r : Lab) (hr : r ∈ labelsOf ref) :
    metricOn m ⟨s, mapped lm pred ref⟩ ⟨s, ref⟩ r [r] = metricOn m ⟨s, pred⟩ ⟨s, ref⟩ r (lm.predsOf r) := by
  exact Values.metricOn_map_rf m s ⟨hg.keys, hg.vals, hg.functional⟩ r hr

/-- the labels present in both maps after relabelling are the reference labels that got a partner,
    in ascending order -/
theorem matchedInstances_mapped (lm : LMap) (pred ref : Flat) (hg : GoodMap lm pred ref) :
    matchedInstances (mapped lm pred ref) ref = (labelsOf ref).filter (fun r => lm.containsRef r) := by
  exact Values.matchedInstances_map_rf ⟨hg.keys, hg.vals, hg.functional⟩

/-- both matchers produce such a map -/
theorem runMatcher_good (mc : MatcherCfg) (pred ref : Arr) (hlen : pred.data.length = ref.data.length)
    (hb : ∀ x ∈ pred.data ++ ref.data, x < 2 ^ 32 - 1)
    (lm : LMap) (h : runMatcher mc pred ref = .ok lm) : GoodMap lm pred.data ref.data := by
  have hg := Values.runMatcher_good mc pred ref hlen hb lm h
  exact ⟨hg.keys, hg.vals, hg.functional⟩

/-- end to end, unmatched instance input -/
theorem pipeline_unmatched_values (cfg : Config) (bits : Nat) (s : List Nat) (pred ref : Flat) (mc : MatcherCfg)
    (hin : cfg.input = .UNMATCHED) (hm : cfg.matcher = some mc)
    (hlen : pred.length = ref.length) (hb : ∀ x ∈ pred ++ ref, x < 2 ^ 32 - 1)
    (hp : labelsOf pred ≠ []) (hr : labelsOf ref ≠ [])
    (out : PipeOut) (h : pipeline cfg bits ⟨s, pred⟩ ⟨s, ref⟩ = .ok out) :
    ∃ lm, runMatcher mc ⟨s, pred⟩ ⟨s, ref⟩ = .ok lm ∧ out.lmap = some lm ∧
      out.matchedPred = some (mapped lm pred ref) ∧
      out.nRef = (labelsOf ref).length ∧
      (let score := fun (m : Metric) (r : Lab) => metricOn m ⟨s, pred⟩ ⟨s, ref⟩ r (lm.predsOf r)
       let matched := (labelsOf ref).filter (fun r => lm.containsRef r)
       let passing := matched.filter (fun r =>
         passesDecision Score.le cfg.decision (cfg.evalMetrics.map (fun m => (m, score m r))))
       out.tp = passing.length ∧
       out.lists = cfg.evalMetrics.map (fun m => (m, passing.map (score m)))) := by
  exact Values.pipeline_values cfg bits s pred ref mc hin hm hlen hb hp hr out h

/-- non-vacuity: a 1×4 scene with two references and two predictions; prediction 7 overlaps
    reference 1, prediction 9 overlaps reference 2 -/
example : GoodMap [(7, 1), (9, 2)] [7, 7, 9, 0] [1, 1, 2, 2] := by
  refine ⟨?_, ?_, ?_⟩ <;> decide

end Panoptica.C01
