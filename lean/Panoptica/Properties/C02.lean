/-
  C02 — result bookkeeping: tp/fp/fn, per-TP lists and sq/rq/pq are mutually consistent.
  The evaluator theorems are for every value type, order, metric selection, decision
  metric/threshold and every list of per-instance metric dictionaries — i.e. for the output of
  every matcher; the result theorems are for every directly constructed result.
-/
import Panoptica.Proofs.Result
namespace Panoptica.C02
open Panoptica

/-! ### counts -/

/-- tp + fp = number of predicted instances, tp + fn = number of reference instances -/
theorem fp_fn_def (r : ResultIn) :
    (r.tp : Int) + r.fp = (r.nPred : Int) ∧ (r.tp : Int) + r.fn = (r.nRef : Int) := by
  unfold ResultIn.fp ResultIn.fn
  omega

section evaluator
variable {V : Type} (le : V → V → Bool) (ms : List Metric) (decision : Option (Metric × V))

/-- tp is the number of instances that pass the decision test -/
theorem tp_eq_passing (dicts : List (List (Metric × V))) :
    (evalMatched le ms decision dicts).1 = (dicts.filter (passesDecision le decision)).length := by
  rfl

/-- every per-instance metric list has exactly tp entries -/
theorem lists_len (dicts : List (List (Metric × V)))
    (hfull : ∀ d ∈ dicts, ∀ m ∈ ms, (d.find? (fun e => e.1 == m)).isSome = true) :
    ∀ e ∈ (evalMatched le ms decision dicts).2, e.2.length = (evalMatched le ms decision dicts).1 := by
  intro e he
  simp only [evalMatched, List.mem_map] at he ⊢
  obtain ⟨m, hm, rfl⟩ := he
  apply length_filterMap_of_isSome
  intro d hd
  have hd' := (List.mem_filter.1 hd).1
  have := hfull d hd' m hm
  cases hf : d.find? (fun e => e.1 == m) with
  | none => rw [hf] at this; simp at this
  | some v => rfl

/-- there is one list per evaluated metric, in the order of the metric selection -/
theorem lists_keys (dicts : List (List (Metric × V))) :
    (evalMatched le ms decision dicts).2.map (·.1) = ms := by
  simp only [evalMatched, List.map_map]
  exact List.map_id'' (fun _ => rfl) ms

/-- an instance that fails the decision threshold contributes to no list and not to tp:
    the outcome is that of evaluating only the passing instances -/
theorem decision_excludes (dicts : List (List (Metric × V))) :
    evalMatched le ms decision dicts =
      evalMatched le ms decision (dicts.filter (passesDecision le decision)) := by
  simp only [evalMatched, List.filter_filter, Bool.and_self]

/-- a failing instance is not counted: removing it changes nothing -/
theorem failing_not_counted (pre post : List (List (Metric × V))) (d : List (Metric × V))
    (hfail : passesDecision le decision d = false) :
    evalMatched le ms decision (pre ++ d :: post) = evalMatched le ms decision (pre ++ post) := by
  simp only [evalMatched, List.filter_append, List.filter_cons, hfail, Bool.false_eq_true, if_false]

/-- without a decision metric every matched instance is a true positive -/
theorem no_decision_all_pass (dicts : List (List (Metric × V))) :
    (evalMatched le ms none dicts).1 = dicts.length := by
  simp only [evalMatched]
  rw [List.filter_eq_self.2 (fun d _ => passesDecision_none le d)]

theorem tp_le_matched (dicts : List (List (Metric × V))) :
    (evalMatched le ms decision dicts).1 ≤ dicts.length := by
  exact List.length_filter_le _ _

end evaluator

/-- the matched labels are labels of both maps, so tp ≤ both instance counts and fp, fn ≥ 0 -/
theorem matched_le_counts (pred ref : Flat) :
    (matchedInstances pred ref).length ≤ (labelsOf pred).length ∧
    (matchedInstances pred ref).length ≤ (labelsOf ref).length := by
  refine ⟨List.length_filter_le _ _, ?_⟩
  apply List.Nodup.length_le_of_subset
  · exact (labelsOf_nodup pred).sublist List.filter_sublist
  · intro x hx
    have := (List.mem_filter.1 hx).2
    simpa using this

/-! ### aggregates -/

/-- sq_<m> is the mean of the list (tp > 0, non-empty list) -/
theorem sq_mean (r : ResultIn) (m : Metric) (vals : List Rat) (htp : r.tp ≠ 0)
    (hl : r.lists.find? (fun e => e.1 == m) = some (m, vals)) (hne : vals ≠ []) :
    r.sq m = .ok (some (.num (sumR vals / (vals.length : Rat)))) := by
  have hv : vals.isEmpty = false := by cases vals with
    | nil => exact absurd rfl hne
    | cons _ _ => rfl
  rw [ResultIn.sq, listMetric_nonzero r m vals htp hl]
  simp only [mkListMetric, avgR, hv]
  rfl

/-- sq_<m>_std squared is the population variance of the list -/
theorem sq_var (r : ResultIn) (m : Metric) (vals : List Rat) (htp : r.tp ≠ 0)
    (hl : r.lists.find? (fun e => e.1 == m) = some (m, vals)) (hne : vals ≠ []) :
    r.sqStdSq m = .ok (some (.num
      (sumR (vals.map (fun x => (x - sumR vals / (vals.length : Rat)) * (x - sumR vals / (vals.length : Rat))))
        / (vals.length : Rat)))) := by
  have hv : vals.isEmpty = false := by cases vals with
    | nil => exact absurd rfl hne
    | cons _ _ => rfl
  rw [ResultIn.sqStdSq, listMetric_nonzero r m vals htp hl]
  simp only [mkListMetric, hv]
  rfl

/-- rq = tp / (tp + fp/2 + fn/2) -/
theorem rq_def (r : ResultIn) (htp : r.tp ≠ 0) (h1 : r.tp ≤ r.nPred) (h2 : r.tp ≤ r.nRef) :
    r.rq = .num ((r.tp : Rat) / ((r.tp : Rat) + (r.fp : Rat) / 2 + (r.fn : Rat) / 2)) := by
  exact rq_eq r htp h1 h2

/-- pq_<m> = sq_<m> · rq -/
theorem pq_def (r : ResultIn) (m : Metric) (s q : Rat)
    (hs : r.sq m = .ok (some (.num s))) (hq : r.rq = .num q) :
    r.pq m = .ok (some (.num (s * q))) := by
  simp only [ResultIn.pq, hs, hq]
  rfl

/-! ### ranges (tp > 0) -/

theorem rq_range (r : ResultIn) (htp : r.tp ≠ 0) (h1 : r.tp ≤ r.nPred) (h2 : r.tp ≤ r.nRef) :
    ∃ q, r.rq = .num q ∧ 0 < q ∧ q ≤ 1 := by
  refine ⟨_, rq_eq r htp h1 h2, ?_, ?_⟩
  all_goals
    have hpos : (0 : Rat) < (r.tp : Rat) := by
      have : 0 < r.tp := Nat.pos_of_ne_zero htp
      exact_mod_cast this
    have hfp : (0 : Rat) ≤ (r.fp : Rat) := by
      have : (0 : Int) ≤ r.fp := by unfold ResultIn.fp; omega
      exact_mod_cast this
    have hfn : (0 : Rat) ≤ (r.fn : Rat) := by
      have : (0 : Int) ≤ r.fn := by unfold ResultIn.fn; omega
      exact_mod_cast this
    have hd : (0 : Rat) < (r.tp : Rat) + (r.fp : Rat) / 2 + (r.fn : Rat) / 2 := by linarith
  · exact div_pos hpos hd
  · rw [div_le_one hd]; linarith

/-- the mean of values in [0,1] lies in [0,1] -/
theorem mean_unit (vals : List Rat) (hne : vals ≠ []) (h : ∀ x ∈ vals, 0 ≤ x ∧ x ≤ 1) :
    0 ≤ sumR vals / (vals.length : Rat) ∧ sumR vals / (vals.length : Rat) ≤ 1 := by
  have hn := length_cast_pos vals hne
  constructor
  · exact div_nonneg (sumR_nonneg vals (fun x hx => (h x hx).1)) (le_of_lt hn)
  · rw [div_le_one hn]
    exact sumR_le_length vals (fun x hx => (h x hx).2)

/-- pointwise smaller lists have a smaller mean: with `iou_le_dice` (C06) this is sq ≤ sq_dsc -/
theorem mean_mono (xs ys : List Rat) (hne : xs ≠ []) (hlen : xs.length = ys.length)
    (h : ∀ p ∈ xs.zip ys, p.1 ≤ p.2) :
    sumR xs / (xs.length : Rat) ≤ sumR ys / (ys.length : Rat) := by
  have hn := length_cast_pos xs hne
  rw [← hlen]
  exact div_le_div_of_nonneg_right (sumR_le_sumR xs ys hlen h) (le_of_lt hn)

theorem pq_range (s q : Rat) (hs : 0 ≤ s ∧ s ≤ 1) (hq : 0 < q ∧ q ≤ 1) : 0 ≤ s * q ∧ s * q ≤ 1 := by
  constructor
  · exact mul_nonneg hs.1 (le_of_lt hq.1)
  · exact mul_le_one₀ hs.2 (le_of_lt hq.1) hq.2

/-- non-vacuity / regression (repaired defect): two matched instances, one failing the decision
    threshold IoU ≥ 1/2: tp = 1 and each list has one entry -/
example :
    evalMatched (fun (a b : Nat) => decide (a ≤ b)) [Metric.IOU, Metric.DSC] (some (Metric.IOU, 50))
      [[(Metric.IOU, 20), (Metric.DSC, 33)], [(Metric.IOU, 80), (Metric.DSC, 89)]]
      = (1, [(Metric.IOU, [80]), (Metric.DSC, [89])]) := by decide

end Panoptica.C02
