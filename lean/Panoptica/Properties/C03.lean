/-
  C03 — instance matching is a sound, conflict-free, maximal best-first assignment.
  Property theorems only (helper lemmas live in Panoptica/Proofs/Matching.lean).
  Every theorem is for an arbitrary score type `S` with an arbitrary total preorder `le`,
  every threshold, both directions, both values of `allow_many_to_one`, every candidate list.
-/
import Panoptica.Proofs.Matching
namespace Panoptica.C03
open Panoptica

variable {S : Type} (le : S → S → Bool) (dec : Bool) (thr : S) (m2o : Bool)

/-- "at least as good" in the metric's preferred direction (the sort order of the candidates) -/
def betterEq (a b : Cand S) : Bool := if dec then le a.score b.score else le b.score a.score

/-- termination with a result: the loop as coded (with `add_labelmap_entry`, which can raise)
    never raises, for both values of `allow_many_to_one`. -/
theorem naive_total (cs : List (Cand S)) :
    naiveMatch le dec thr m2o cs = .ok (naiveLoop le dec thr m2o (sortBest le dec cs)) := by
  unfold naiveMatch naiveLoopE naiveLoop
  exact naiveFoldE_eq le dec thr m2o _ []

/-- each prediction is assigned to at most one reference -/
theorem functional (cs : List (Cand S)) :
    ((naiveLoop le dec thr m2o cs).map (·.1)).Nodup := by
  exact naiveFold_functional le dec thr m2o cs [] List.nodup_nil

/-- without many-to-one each reference is assigned at most one prediction -/
theorem injective (cs : List (Cand S)) :
    ((naiveLoop le dec thr false cs).map (·.2)).Nodup := by
  exact naiveFold_injective le dec thr cs [] List.nodup_nil

/-- every assigned pair is a candidate (so it overlaps) whose score meets the threshold -/
theorem sound (cs : List (Cand S)) :
    ∀ e ∈ naiveLoop le dec thr m2o cs,
      ∃ c ∈ cs, c.pred = e.1 ∧ c.ref = e.2 ∧ beats le dec c.score thr = true := by
  intro e he
  rcases naiveFold_sound le dec thr m2o cs [] e he with h | h
  · cases h
  · exact h

/-- a score exactly at the threshold meets it (any reflexive `le`) -/
theorem exact_threshold_matches (hrefl : ∀ a, le a a = true) : beats le dec thr thr = true := by
  unfold beats
  split <;> exact hrefl thr

/-- no pair that meets the threshold is left with both partners unassigned
    (many-to-one: with its prediction unassigned) -/
theorem maximal (cs : List (Cand S)) :
    ∀ c ∈ cs, beats le dec c.score thr = true →
      (naiveLoop le dec thr m2o cs).containsPred c.pred = true ∨
      (m2o = false ∧ (naiveLoop le dec thr m2o cs).containsRef c.ref = true) := by
  intro c hc hb
  exact naiveFold_maximal le dec thr m2o cs [] c hc hb

/-- a better-scoring pair is never displaced by a worse-scoring one: every eligible candidate that
    is not in the result conflicts with a result pair that came from a candidate at least as good -/
theorem best_first (cs : List (Cand S)) (hsorted : cs.Pairwise (fun a b => betterEq le dec a b = true)) :
    ∀ c ∈ cs, beats le dec c.score thr = true → (c.pred, c.ref) ∉ naiveLoop le dec thr m2o cs →
      ∃ c' ∈ cs, (c'.pred, c'.ref) ∈ naiveLoop le dec thr m2o cs ∧
        (c'.pred = c.pred ∨ (m2o = false ∧ c'.ref = c.ref)) ∧ betterEq le dec c' c = true := by
  intro c hc hb hnot
  obtain ⟨s, t, rfl⟩ := List.append_of_mem hc
  obtain ⟨c', hc', hin, hconf⟩ := naive_displaced le dec thr m2o s t c hb hnot
  refine ⟨c', List.mem_append_left _ hc', hin, hconf, ?_⟩
  exact (List.pairwise_append.1 hsorted).2.2 c' hc' c (List.mem_cons_self ..)

/-- the candidate list handed to the loop is sorted best-first and is a permutation of the input -/
theorem sortBest_sorted (htot : ∀ a b, le a b = true ∨ le b a = true)
    (htrans : ∀ a b c, le a b = true → le b c = true → le a c = true) (cs : List (Cand S)) :
    (sortBest le dec cs).Pairwise (fun a b => betterEq le dec a b = true) ∧ (sortBest le dec cs).Perm cs := by
  refine ⟨?_, List.mergeSort_perm _ _⟩
  unfold sortBest
  have h := List.pairwise_mergeSort
    (le := fun (a b : Cand S) => if dec then le a.score b.score else le b.score a.score)
    (by
      intro a b c hab hbc
      cases dec
      · exact htrans _ _ _ hbc hab
      · exact htrans _ _ _ hab hbc)
    (by
      intro a b
      cases dec
      · rcases htot b.score a.score with h | h <;> simp [h]
      · rcases htot a.score b.score with h | h <;> simp [h])
    cs
  exact h

/-- making the threshold stricter can only remove matches: the result for the stricter threshold
    is a prefix (hence a subset) of the result for the laxer one -/
theorem monotone (thr' : S) (htrans : ∀ a b c, le a b = true → le b c = true → le a c = true)
    (hstrict : ∀ s, beats le dec s thr' = true → beats le dec s thr = true)
    (cs : List (Cand S)) (hsorted : cs.Pairwise (fun a b => betterEq le dec a b = true)) :
    naiveLoop le dec thr' m2o cs <+: naiveLoop le dec thr m2o cs := by
  unfold naiveLoop
  generalize ([] : LMap) = m
  induction cs generalizing m with
  | nil => exact List.prefix_refl _
  | cons c cs ih =>
    rw [List.pairwise_cons] at hsorted
    cases hb : beats le dec c.score thr' with
    | true =>
      have hb' := hstrict _ hb
      have heq : naiveStep le dec thr' m2o m c = naiveStep le dec thr m2o m c := by
        unfold naiveStep; rw [hb, hb']
      rw [List.foldl_cons, List.foldl_cons, heq]
      exact ih hsorted.2 _
    | false =>
      have hnone : ∀ c' ∈ c :: cs, beats le dec c'.score thr' = false := by
        intro c' hc'
        rcases List.mem_cons.1 hc' with h | h
        · rw [h]; exact hb
        · have hle := hsorted.1 c' h
          cases hb2 : beats le dec c'.score thr' with
          | false => rfl
          | true =>
            exfalso
            have : beats le dec c.score thr' = true := by
              unfold beats betterEq at *
              cases dec
              · exact htrans _ _ _ hb2 hle
              · exact htrans _ _ _ hle hb2
            rw [hb] at this; cases this
      rw [naiveFold_none le dec thr' m2o (c :: cs) m hnone]
      exact naiveFold_prefix le dec thr m2o _ m

/-- non-vacuity: a concrete competition (two predictions for one reference, one prediction spanning
    two references, an exact-threshold score) -/
example :
    naiveLoop (fun (a b : Nat) => decide (a ≤ b)) false 50 false
      [⟨90, 2, 2⟩, ⟨60, 3, 3⟩, ⟨50, 1, 2⟩, ⟨40, 1, 1⟩] = [(2, 2), (3, 3)] := by decide

end Panoptica.C03
