/-
  C03 / C01 — "whenever the documented procedure determines the answer uniquely, the library's
  answer is that answer": if no two competing eligible candidates have equally good scores, then
  EVERY assignment that is sound, conflict-free (one-to-one) and best-first-stable is, as a set of
  pairs, the assignment computed by the threshold matcher.
-/
import Panoptica.Properties.C03
import Panoptica.Proofs.Unique
namespace Panoptica.C03
open Panoptica

variable {S : Type} (le : S → S → Bool) (dec : Bool) (thr : S)

/-- two candidates compete: they share the prediction or the reference -/
def competes (a b : Cand S) : Bool := a.pred == b.pred || a.ref == b.ref

/-- strictly better in the metric's direction -/
def strictlyBetterC (a b : Cand S) : Bool := betterEq le dec a b && !betterEq le dec b a

/-- a one-to-one assignment `M` (list of (pred, ref)) that a reader of the documentation would
    accept for the candidate list `cs` at threshold `thr` -/
structure ValidMatching (cs : List (Cand S)) (M : List (Lab × Lab)) : Prop where
  /-- every assigned pair is a candidate whose score meets the threshold -/
  sound : ∀ e ∈ M, ∃ c ∈ cs, c.pred = e.1 ∧ c.ref = e.2 ∧ beats le dec c.score thr = true
  /-- each prediction and each reference is used at most once, no pair is listed twice -/
  predsNodup : (M.map (·.1)).Nodup
  refsNodup : (M.map (·.2)).Nodup
  /-- an eligible candidate is left out only in favour of a strictly better competing pair -/
  stable : ∀ c ∈ cs, beats le dec c.score thr = true → (c.pred, c.ref) ∉ M →
    ∃ c' ∈ cs, (c'.pred, c'.ref) ∈ M ∧ competes c' c = true ∧ strictlyBetterC le dec c' c = true

/-- no two distinct competing eligible candidates are equally good, and no label pair is listed twice -/
structure Determined (cs : List (Cand S)) : Prop where
  keysNodup : (cs.map (fun c => (c.pred, c.ref))).Nodup
  distinct : ∀ a ∈ cs, ∀ b ∈ cs, (a.pred, a.ref) ≠ (b.pred, b.ref) → competes a b = true →
    beats le dec a.score thr = true → beats le dec b.score thr = true →
    strictlyBetterC le dec a b = true ∨ strictlyBetterC le dec b a = true

/-- a valid assignment for `cs`, seen over the best-first sorted candidate list -/
theorem ValidMatching.good {cs L : List (Cand S)} (hperm : L.Perm cs) {M : List (Lab × Lab)}
    (hM : ValidMatching le dec thr cs M) :
    GoodMatch (fun c : Cand S => (c.pred, c.ref)) (fun c => beats le dec c.score thr = true)
      (fun a b => betterEq le dec a b = true) L M where
  sound := by
    intro e he
    obtain ⟨c, hc, h1, h2, hb⟩ := hM.sound e he
    exact ⟨c, hperm.mem_iff.2 hc, by rw [h1, h2], hb⟩
  preds := hM.predsNodup
  refs := hM.refsNodup
  stable := by
    intro c hc hb hnot
    obtain ⟨c', hc', hin, hcomp, hstrict⟩ := hM.stable c (hperm.mem_iff.1 hc) hb hnot
    refine ⟨c', hperm.mem_iff.2 hc', hin, ?_, ?_⟩
    · simpa [competes] using hcomp
    · simp only [strictlyBetterC, Bool.and_eq_true, Bool.not_eq_true'] at hstrict
      rw [hstrict.2]; exact Bool.false_ne_true

/-- the matcher's own result is such an assignment (when the answer is determined) -/
theorem naive_valid (htot : ∀ a b, le a b = true ∨ le b a = true)
    (htrans : ∀ a b c, le a b = true → le b c = true → le a c = true)
    (cs : List (Cand S)) (hd : Determined le dec thr cs) :
    ValidMatching le dec thr cs (naiveLoop le dec thr false (sortBest le dec cs)) := by
  obtain ⟨hsorted, hperm⟩ := sortBest_sorted le dec htot htrans cs
  have hkeysL : ((sortBest le dec cs).map (fun c : Cand S => (c.pred, c.ref))).Nodup :=
    (hperm.map _).nodup_iff.2 hd.keysNodup
  refine ⟨?_, functional le dec thr false _, injective le dec thr _, ?_⟩
  · intro e he
    obtain ⟨c, hc, h⟩ := sound le dec thr false _ e he
    exact ⟨c, hperm.mem_iff.1 hc, h⟩
  · intro c hc hb hnot
    have hcL := hperm.mem_iff.2 hc
    obtain ⟨c', hc', hin, hconf, hbe⟩ := best_first le dec thr false _ hsorted c hcL hb hnot
    -- `c'` is eligible: the candidate behind its pair is `c'` itself
    obtain ⟨c0, hc0, h1, h2, hb0⟩ := sound le dec thr false _ _ hin
    have hc0c' : c0 = c' :=
      inj_of_nodup_map (fun c : Cand S => (c.pred, c.ref)) _ hkeysL c0 hc0 c' hc'
        (by simp only at h1 h2 ⊢; rw [h1, h2])
    rw [hc0c'] at hb0
    have hne : (c'.pred, c'.ref) ≠ (c.pred, c.ref) := fun h => hnot (h ▸ hin)
    have hcomp : competes c' c = true := by
      rcases hconf with h | ⟨_, h⟩ <;> simp [competes, h]
    refine ⟨c', hperm.mem_iff.1 hc', hin, hcomp, ?_⟩
    rcases hd.distinct c' (hperm.mem_iff.1 hc') c hc hne hcomp hb0 hb with h | h
    · exact h
    · simp only [strictlyBetterC, Bool.and_eq_true, Bool.not_eq_true'] at h
      rw [hbe] at h; exact absurd h.2 (by decide)

/-- uniqueness: any such assignment has exactly the pairs of the matcher's result -/
theorem unique (htot : ∀ a b, le a b = true ∨ le b a = true)
    (htrans : ∀ a b c, le a b = true → le b c = true → le a c = true)
    (cs : List (Cand S)) (hd : Determined le dec thr cs)
    (M : List (Lab × Lab)) (hM : ValidMatching le dec thr cs M) :
    ∀ e, e ∈ M ↔ e ∈ naiveLoop le dec thr false (sortBest le dec cs) := by
  obtain ⟨hsorted, hperm⟩ := sortBest_sorted le dec htot htrans cs
  have hkeysL : ((sortBest le dec cs).map (fun c : Cand S => (c.pred, c.ref))).Nodup :=
    (hperm.map _).nodup_iff.2 hd.keysNodup
  exact goodMatch_unique hsorted hkeysL (hM.good le dec thr hperm)
    ((naive_valid le dec thr htot htrans cs hd).good le dec thr hperm)

/-- hence the number of true positives is determined -/
theorem unique_length (htot : ∀ a b, le a b = true ∨ le b a = true)
    (htrans : ∀ a b c, le a b = true → le b c = true → le a c = true)
    (cs : List (Cand S)) (hd : Determined le dec thr cs)
    (M : List (Lab × Lab)) (hM : ValidMatching le dec thr cs M) :
    M.length = (naiveLoop le dec thr false (sortBest le dec cs)).length := by
  apply length_eq_of_nodup_of_mem_iff
  · exact nodup_of_nodup_map _ _ hM.predsNodup
  · exact nodup_of_nodup_map _ _ (functional le dec thr false _)
  · exact unique le dec thr htot htrans cs hd M hM

end Panoptica.C03
