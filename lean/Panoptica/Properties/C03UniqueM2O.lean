/-
  C03 / C01, many-to-one matching (`allow_many_to_one=True`) — "whenever the documented procedure determines the answer
  uniquely, the library's answer is that answer": with many-to-one matching a reference may receive several predictions,
  so only candidates of the *same prediction* compete. If no prediction has two equally good eligible candidates, then EVERY
  assignment that is sound, gives each prediction at most one reference and leaves an eligible candidate out only in favour
  of a strictly better candidate of the same prediction is, as a set of pairs, the assignment computed by the threshold
  matcher with many-to-one enabled: every prediction with an eligible candidate goes to its best reference.
-/
import Panoptica.Properties.C03Unique
import Panoptica.Proofs.UniqueM2O
namespace Panoptica.C03
open Panoptica

variable {S : Type} (le : S → S → Bool) (dec : Bool) (thr : S)

/-- a many-to-one assignment `M` (list of (pred, ref)) that a reader of the documentation would accept -/
structure ValidMatchingM2O (cs : List (Cand S)) (M : List (Lab × Lab)) : Prop where
  /-- every assigned pair is a candidate whose score meets the threshold -/
  sound : ∀ e ∈ M, ∃ c ∈ cs, c.pred = e.1 ∧ c.ref = e.2 ∧ beats le dec c.score thr = true
  /-- each prediction is used at most once (references may repeat) -/
  predsNodup : (M.map (·.1)).Nodup
  /-- an eligible candidate is left out only in favour of a strictly better pair of the same prediction -/
  stable : ∀ c ∈ cs, beats le dec c.score thr = true → (c.pred, c.ref) ∉ M →
    ∃ c' ∈ cs, (c'.pred, c'.ref) ∈ M ∧ c'.pred = c.pred ∧ strictlyBetterC le dec c' c = true

/-- no prediction has two distinct equally good eligible candidates, and no label pair is listed twice -/
structure DeterminedM2O (cs : List (Cand S)) : Prop where
  keysNodup : (cs.map (fun c => (c.pred, c.ref))).Nodup
  distinct : ∀ a ∈ cs, ∀ b ∈ cs, (a.pred, a.ref) ≠ (b.pred, b.ref) → a.pred = b.pred →
    beats le dec a.score thr = true → beats le dec b.score thr = true →
    strictlyBetterC le dec a b = true ∨ strictlyBetterC le dec b a = true

/-- "strictly better" is asymmetric -/
private theorem strictlyBetterC_asymm (a b : Cand S) :
    strictlyBetterC le dec a b = true → strictlyBetterC le dec b a = true → False := by
  intro h1 h2
  simp only [strictlyBetterC, Bool.and_eq_true, Bool.not_eq_true'] at h1 h2
  rw [h1.1] at h2
  exact absurd h2.2 (by decide)

/-- a valid many-to-one assignment in the abstract form of `Panoptica/Proofs/UniqueM2O.lean` -/
private theorem ValidMatchingM2O.good {cs : List (Cand S)} {M : List (Lab × Lab)}
    (hM : ValidMatchingM2O le dec thr cs M) :
    GoodMatchM2O (fun c : Cand S => (c.pred, c.ref)) (fun c => beats le dec c.score thr = true)
      (fun a b => strictlyBetterC le dec a b = true) cs M where
  sound := by
    intro e he
    obtain ⟨c, hc, h1, h2, hb⟩ := hM.sound e he
    exact ⟨c, hc, by rw [h1, h2], hb⟩
  preds := hM.predsNodup
  stable := hM.stable

/-- the one-to-one notion of "determined" is the stronger one -/
theorem Determined.toM2O {cs : List (Cand S)} (h : Determined le dec thr cs) : DeterminedM2O le dec thr cs := by
  refine ⟨h.keysNodup, ?_⟩
  intro a ha b hb hne hp hba hbb
  exact h.distinct a ha b hb hne (by simp [competes, hp]) hba hbb

/-- the matcher's own result is such an assignment (when the answer is determined) -/
theorem naive_valid_m2o (htot : ∀ a b, le a b = true ∨ le b a = true)
    (htrans : ∀ a b c, le a b = true → le b c = true → le a c = true)
    (cs : List (Cand S)) (hd : DeterminedM2O le dec thr cs) :
    ValidMatchingM2O le dec thr cs (naiveLoop le dec thr true (sortBest le dec cs)) := by
  obtain ⟨hsorted, hperm⟩ := sortBest_sorted le dec htot htrans cs
  have hkeysL : ((sortBest le dec cs).map (fun c : Cand S => (c.pred, c.ref))).Nodup :=
    (hperm.map _).nodup_iff.2 hd.keysNodup
  refine ⟨?_, functional le dec thr true _, ?_⟩
  · intro e he
    obtain ⟨c, hc, h⟩ := sound le dec thr true _ e he
    exact ⟨c, hperm.mem_iff.1 hc, h⟩
  · intro c hc hb hnot
    have hcL := hperm.mem_iff.2 hc
    obtain ⟨c', hc', hin, hconf, hbe⟩ := best_first le dec thr true _ hsorted c hcL hb hnot
    -- `c'` is eligible: the candidate behind its pair is `c'` itself
    obtain ⟨c0, hc0, h1, h2, hb0⟩ := sound le dec thr true _ _ hin
    have hc0c' : c0 = c' :=
      inj_of_nodup_map (fun c : Cand S => (c.pred, c.ref)) _ hkeysL c0 hc0 c' hc'
        (by simp only at h1 h2 ⊢; rw [h1, h2])
    rw [hc0c'] at hb0
    have hne : (c'.pred, c'.ref) ≠ (c.pred, c.ref) := fun h => hnot (h ▸ hin)
    have hp : c'.pred = c.pred := by
      rcases hconf with h | ⟨h, _⟩
      · exact h
      · exact absurd h (by decide)
    refine ⟨c', hperm.mem_iff.1 hc', hin, hp, ?_⟩
    rcases hd.distinct c' (hperm.mem_iff.1 hc') c hc hne hp hb0 hb with h | h
    · exact h
    · simp only [strictlyBetterC, Bool.and_eq_true, Bool.not_eq_true'] at h
      rw [hbe] at h; exact absurd h.2 (by decide)

/-- uniqueness: any such assignment has exactly the pairs of the matcher's result -/
theorem unique_m2o (htot : ∀ a b, le a b = true ∨ le b a = true)
    (htrans : ∀ a b c, le a b = true → le b c = true → le a c = true)
    (cs : List (Cand S)) (hd : DeterminedM2O le dec thr cs)
    (M : List (Lab × Lab)) (hM : ValidMatchingM2O le dec thr cs M) :
    ∀ e, e ∈ M ↔ e ∈ naiveLoop le dec thr true (sortBest le dec cs) := by
  exact goodMatchM2O_unique hd.keysNodup (strictlyBetterC_asymm le dec)
    (hM.good le dec thr) ((naive_valid_m2o le dec thr htot htrans cs hd).good le dec thr)

/-- hence the number of assigned predictions is determined -/
theorem unique_length_m2o (htot : ∀ a b, le a b = true ∨ le b a = true)
    (htrans : ∀ a b c, le a b = true → le b c = true → le a c = true)
    (cs : List (Cand S)) (hd : DeterminedM2O le dec thr cs)
    (M : List (Lab × Lab)) (hM : ValidMatchingM2O le dec thr cs M) :
    M.length = (naiveLoop le dec thr true (sortBest le dec cs)).length := by
  apply length_eq_of_nodup_of_mem_iff
  · exact nodup_of_nodup_map _ _ hM.predsNodup
  · exact nodup_of_nodup_map _ _ (functional le dec thr true _)
  · exact unique_m2o le dec thr htot htrans cs hd M hM

/-- every prediction with an eligible candidate is assigned, and to a reference at least as good as any of its eligible
    candidates (no determinedness needed) -/
theorem m2o_best_of_prediction (htot : ∀ a b, le a b = true ∨ le b a = true)
    (htrans : ∀ a b c, le a b = true → le b c = true → le a c = true)
    (cs : List (Cand S)) (c : Cand S) (hc : c ∈ cs) (hb : beats le dec c.score thr = true) :
    ∃ c' ∈ cs, c'.pred = c.pred ∧ (c'.pred, c'.ref) ∈ naiveLoop le dec thr true (sortBest le dec cs) ∧
      betterEq le dec c' c = true := by
  obtain ⟨hsorted, hperm⟩ := sortBest_sorted le dec htot htrans cs
  by_cases hin : (c.pred, c.ref) ∈ naiveLoop le dec thr true (sortBest le dec cs)
  · refine ⟨c, hc, rfl, hin, ?_⟩
    unfold betterEq
    cases dec
    · rcases htot c.score c.score with h | h <;> simpa using h
    · rcases htot c.score c.score with h | h <;> simpa using h
  · obtain ⟨c', hc', hin', hconf, hbe⟩ :=
      best_first le dec thr true _ hsorted c (hperm.mem_iff.2 hc) hb hin
    refine ⟨c', hperm.mem_iff.1 hc', ?_, hin', hbe⟩
    rcases hconf with h | ⟨h, _⟩
    · exact h
    · exact absurd h (by decide)

/-- non-vacuity: two predictions whose best reference is the same one (a genuinely many-to-one answer); Nat scores,
    higher is better, threshold 5 -/
example : DeterminedM2O (fun a b : Nat => decide (a ≤ b)) false 5
      [⟨9, 1, 1⟩, ⟨7, 1, 2⟩, ⟨8, 2, 1⟩, ⟨3, 2, 2⟩] ∧
    naiveLoop (fun a b : Nat => decide (a ≤ b)) false 5 true
      (sortBest (fun a b : Nat => decide (a ≤ b)) false [⟨9, 1, 1⟩, ⟨7, 1, 2⟩, ⟨8, 2, 1⟩, ⟨3, 2, 2⟩]) = [(1, 1), (2, 1)] := by
  have hs : sortBest (fun a b : Nat => decide (a ≤ b)) false
      [⟨9, 1, 1⟩, ⟨7, 1, 2⟩, ⟨8, 2, 1⟩, ⟨3, 2, 2⟩] = [⟨9, 1, 1⟩, ⟨8, 2, 1⟩, ⟨7, 1, 2⟩, ⟨3, 2, 2⟩] := by
    simp [sortBest, List.mergeSort, List.MergeSort.Internal.splitInTwo]
  refine ⟨⟨by decide, by decide⟩, ?_⟩
  rw [hs]
  decide

end Panoptica.C03
