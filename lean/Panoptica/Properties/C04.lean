/-
  C04 — relabelling after matching preserves both segmentations.
  The relabelled prediction is `pred.map f` for a finite map `f` (theorem `relabel_pointwise`:
  the look-up table never wraps, whatever the arrays' dtype width `bits`, as long as labels and
  the number of instances stay below 2^64), and `f` keeps the foreground, sends a matched
  prediction to its reference's label, gives unmatched predictions pairwise distinct labels
  outside the reference labels, and identifies two predictions only if they are matched to the
  same reference. The reference array is not an input of the relabelling at all.
-/
import Panoptica.Proofs.Relabel
namespace Panoptica.C04
open Panoptica

/-- the label renaming applied to the prediction -/
def relabelFn (lm : LMap) (refLabels predLabels : List Lab) : Lab → Lab :=
  applyMap (fullLabelMap lm refLabels predLabels)

/-- everything fits into 64 bits (the only guard left after the fix; numpy has no wider integer) -/
structure Bounded (pred : Flat) (lm : LMap) (refLabels predLabels : List Lab) : Prop where
  arr : ∀ x ∈ pred, x < 2 ^ 64
  lm : ∀ e ∈ lm, e.1 < 2 ^ 64 ∧ e.2 < 2 ^ 64
  labels : ∀ p ∈ predLabels, p < 2 ^ 64
  fresh : maxOf refLabels + predLabels.length + 1 < 2 ^ 64

/-- the look-up table never wraps: for every dtype width the output is the pointwise image -/
theorem relabel_pointwise (bits : Nat) (pred : Flat) (lm : LMap) (refLabels predLabels : List Lab)
    (hb : Bounded pred lm refLabels predLabels) :
    mapInstanceLabels bits pred refLabels predLabels lm = pred.map (relabelFn lm refLabels predLabels) := by
  unfold mapInstanceLabels relabelFn
  apply mapLabels_exact _ _ _ hb.arr
  intro e he
  rcases mem_fullLabelMap lm refLabels predLabels e he with h | ⟨h1, h2, h3⟩
  · exact hb.lm e h
  · have := hb.fresh
    have := hb.labels e.1 h1
    constructor <;> grind

/-- background stays background -/
theorem background_kept (lm : LMap) (refLabels predLabels : List Lab)
    (hlm0 : ∀ e ∈ lm, e.1 ≠ 0) (hp0 : ∀ p ∈ predLabels, p ≠ 0) :
    relabelFn lm refLabels predLabels 0 = 0 := by
  unfold relabelFn
  apply applyMap_of_not_key
  intro e he
  rcases mem_fullLabelMap lm refLabels predLabels e he with h | ⟨h1, _, _⟩
  · exact hlm0 e h
  · exact hp0 e.1 h1

/-- foreground stays foreground: no prediction voxel disappears -/
theorem foreground_kept (lm : LMap) (refLabels predLabels : List Lab)
    (hlm0 : ∀ e ∈ lm, e.2 ≠ 0) (p : Lab) (hp : p ∈ predLabels) :
    relabelFn lm refLabels predLabels p ≠ 0 := by
  unfold relabelFn
  have hkey : ∃ e ∈ fullLabelMap lm refLabels predLabels, e.1 = p := by
    cases hc : lm.containsPred p with
    | true =>
      obtain ⟨e, he, hk⟩ := (containsPred_eq_true lm p).1 hc
      exact ⟨e, by unfold fullLabelMap; exact List.mem_append_left _ he, hk⟩
    | false =>
      obtain ⟨e, he, hk⟩ := key_assignFresh _ (maxOf refLabels + 1) p (mem_missed lm predLabels p hp hc)
      exact ⟨e, by unfold fullLabelMap; exact List.mem_append_right _ he, hk⟩
  obtain ⟨e, he, _, hv⟩ := applyMap_of_key _ p hkey
  rw [hv]
  rcases mem_fullLabelMap lm refLabels predLabels e he with h | ⟨_, h2, _⟩
  · exact hlm0 e h
  · grind

/-- a matched prediction carries exactly the label of its reference -/
theorem matched_label (lm : LMap) (refLabels predLabels : List Lab) (p r : Lab)
    (h : lm.lookup p = some r) : relabelFn lm refLabels predLabels p = r := by
  exact applyMap_full_matched lm refLabels predLabels p r h

/-- an unmatched prediction receives a label beyond every reference label (so: distinct from every
    reference label) -/
theorem fresh_outside_ref (lm : LMap) (refLabels predLabels : List Lab) (p : Lab)
    (hp : p ∈ predLabels) (hun : lm.containsPred p = false) :
    maxOf refLabels < relabelFn lm refLabels predLabels p ∧
    relabelFn lm refLabels predLabels p ∉ refLabels := by
  unfold relabelFn
  rw [applyMap_full_unmatched lm refLabels predLabels p hun]
  have hb := (applyMap_assignFresh_bounds _ (maxOf refLabels + 1) p (mem_missed lm predLabels p hp hun)).1
  have hlt : maxOf refLabels < applyMap (assignFresh (predLabels.filter (fun p => !lm.containsPred p))
      (maxOf refLabels + 1)) p := by grind
  refine ⟨hlt, ?_⟩
  intro hmem
  have := le_maxOf refLabels _ hmem
  grind

/-- two different unmatched predictions receive different labels -/
theorem fresh_distinct (lm : LMap) (refLabels predLabels : List Lab) (hnd : predLabels.Nodup)
    (p q : Lab) (hp : p ∈ predLabels) (hq : q ∈ predLabels) (hpq : p ≠ q)
    (hup : lm.containsPred p = false) (huq : lm.containsPred q = false) :
    relabelFn lm refLabels predLabels p ≠ relabelFn lm refLabels predLabels q := by
  unfold relabelFn
  rw [applyMap_full_unmatched lm refLabels predLabels p hup,
    applyMap_full_unmatched lm refLabels predLabels q huq]
  exact applyMap_assignFresh_inj _ _ (hnd.filter _) p q
    (mem_missed lm predLabels p hp hup) (mem_missed lm predLabels q hq huq) hpq

/-- the partition into instances is preserved: two predictions end up with the same label exactly
    when they are the same prediction or are both assigned to the same reference -/
theorem partition_preserved (lm : LMap) (refLabels predLabels : List Lab) (hnd : predLabels.Nodup)
    (hlr : ∀ e ∈ lm, e.2 ∈ refLabels)
    (p q : Lab) (hp : p ∈ predLabels) (hq : q ∈ predLabels) :
    relabelFn lm refLabels predLabels p = relabelFn lm refLabels predLabels q ↔
      p = q ∨ ∃ r, lm.lookup p = some r ∧ lm.lookup q = some r := by
  cases hcp : lm.containsPred p with
  | true =>
    obtain ⟨rp, hrp⟩ := lookup_of_key lm p ((containsPred_eq_true lm p).1 hcp)
    have hfp := matched_label lm refLabels predLabels p rp hrp
    cases hcq : lm.containsPred q with
    | true =>
      obtain ⟨rq, hrq⟩ := lookup_of_key lm q ((containsPred_eq_true lm q).1 hcq)
      have hfq := matched_label lm refLabels predLabels q rq hrq
      rw [hfp, hfq]
      constructor
      · intro h; subst h; exact Or.inr ⟨rp, hrp, hrq⟩
      · rintro (h | ⟨r, h1, h2⟩)
        · subst h; rw [hrp] at hrq; exact Option.some.inj hrq
        · rw [hrp] at h1; rw [hrq] at h2
          rw [Option.some.inj h1, Option.some.inj h2]
    | false =>
      have hq2 := (fresh_outside_ref lm refLabels predLabels q hq hcq).2
      obtain ⟨_, ⟨e, he, her⟩, _⟩ := lookup_eq_some lm p rp hrp
      have hrpmem : rp ∈ refLabels := her ▸ hlr e he
      have hnone := lookup_eq_none lm q ((containsPred_eq_false lm q).1 hcq)
      constructor
      · intro h; rw [hfp] at h; rw [← h] at hq2; exact absurd hrpmem hq2
      · rintro (h | ⟨r, _, h2⟩)
        · subst h; exact absurd (hcp.symm.trans hcq) (by decide)
        · rw [hnone] at h2; exact absurd h2 (by simp)
  | false =>
    have hp2 := (fresh_outside_ref lm refLabels predLabels p hp hcp).2
    have hnone := lookup_eq_none lm p ((containsPred_eq_false lm p).1 hcp)
    cases hcq : lm.containsPred q with
    | true =>
      obtain ⟨rq, hrq⟩ := lookup_of_key lm q ((containsPred_eq_true lm q).1 hcq)
      have hfq := matched_label lm refLabels predLabels q rq hrq
      obtain ⟨_, ⟨e, he, her⟩, _⟩ := lookup_eq_some lm q rq hrq
      have hrqmem : rq ∈ refLabels := her ▸ hlr e he
      constructor
      · intro h; rw [hfq] at h; rw [h] at hp2; exact absurd hrqmem hp2
      · rintro (h | ⟨r, h1, _⟩)
        · subst h; exact absurd (hcp.symm.trans hcq) (by decide)
        · rw [hnone] at h1; exact absurd h1 (by simp)
    | false =>
      constructor
      · intro h
        refine Or.inl (Classical.byContradiction fun hne => ?_)
        exact fresh_distinct lm refLabels predLabels hnd p q hp hq hne hcp hcq h
      · rintro (h | ⟨r, h1, _⟩)
        · rw [h]
        · rw [hnone] at h1; exact absurd h1 (by simp)

/-- the hypotheses on `predLabels` are met by what the code passes (`np.unique` of the non-zero
    values): every non-zero value of the array is a prediction label, none is 0, no duplicates -/
theorem predLabels_ok (pred : Flat) :
    (∀ x ∈ pred, x ≠ 0 → x ∈ labelsOf pred) ∧ (∀ p ∈ labelsOf pred, p ≠ 0) ∧ (labelsOf pred).Nodup := by
  refine ⟨fun x hx h0 => (mem_labelsOf pred x).2 ⟨hx, h0⟩,
    fun p hp => ((mem_labelsOf pred p).1 hp).2, labelsOf_nodup pred⟩

/-- regression (repaired defect): with the look-up table in the array's own dtype (uint8), the
    fresh label 256 wrapped to 0 and the unmatched prediction vanished; the fixed code keeps it -/
example : mapInstanceLabelsLegacy 8 [7, 7, 0, 9, 9] [255] [7, 9] [(7, 255)] = [255, 255, 0, 0, 0] := by decide
example : mapInstanceLabels 8 [7, 7, 0, 9, 9] [255] [7, 9] [(7, 255)] = [255, 255, 0, 256, 256] := by decide

/-- non-vacuity of `Bounded` -/
example : Bounded [7, 7, 0, 9, 9] [(7, 255)] [255] [7, 9] :=
  ⟨by decide, by decide, by decide, by decide⟩

end Panoptica.C04
