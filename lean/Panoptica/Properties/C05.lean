/-
  C05 — instance approximation yields exactly the connected components.
  `closure`/`ccLabel` are the specified functions behind cc3d / scipy.ndimage.label; the theorems
  are for every finite voxel set `V` (any size, any dimension) and every symmetric adjacency.
-/
import Panoptica.Proofs.CC
namespace Panoptica.C05
open Panoptica Panoptica.Spec

section generic
variable {α : Type} [BEq α] [LawfulBEq α] (adj : α → α → Bool)

/-- saturation computes exactly the set reachable from the seed (every instance is connected, and
    nothing joinable is left out) -/
theorem closure_iff (V : List α) (seed b : α) :
    b ∈ closure adj V seed ↔ Reach adj V seed b := by
  exact mem_closure_iff adj V seed b

/-- every element of `V` receives exactly one label -/
theorem cc_total (hsymm : ∀ a b, adj a b = adj b a) (V : List α) (hnd : V.Nodup) :
    (∀ v ∈ V, ∃ n, (v, n) ∈ ccLabel adj V) ∧ ((ccLabel adj V).map (·.1)).Nodup ∧
    (∀ e ∈ ccLabel adj V, e.1 ∈ V) := by
  obtain ⟨next, inv, hall⟩ := ccLabel_inv (adj := adj) hsymm hnd
  exact ⟨hall, inv.nodup, inv.keysV⟩

/-- two elements carry the same label exactly when they are connected: every instance is a
    connected set and no two joinable instances are left separate -/
theorem cc_same_iff (hsymm : ∀ a b, adj a b = adj b a) (V : List α) (hnd : V.Nodup)
    (a b : α) (n m : Nat) (ha : (a, n) ∈ ccLabel adj V) (hb : (b, m) ∈ ccLabel adj V) :
    n = m ↔ Reach adj V a b := by
  obtain ⟨next, inv, _⟩ := ccLabel_inv (adj := adj) hsymm hnd
  constructor
  · intro h
    subst h
    exact inv.conn a b n ha hb
  · intro h
    exact nodup_keys_unique inv.nodup (inv.closed a b n ha h) hb

/-- the labels are exactly 1..n and the reported count is n -/
theorem cc_range (hsymm : ∀ a b, adj a b = adj b a) (V : List α) (hnd : V.Nodup) (k : Nat) :
    (∃ v, (v, k) ∈ ccLabel adj V) ↔ (1 ≤ k ∧ k ≤ ccCount adj V) := by
  obtain ⟨next, inv, _⟩ := ccLabel_inv (adj := adj) hsymm hnd
  have hc := ccCount_eq inv
  constructor
  · rintro ⟨v, hv⟩
    have := inv.lt _ hv
    simp only at this
    omega
  · rintro ⟨h1, h2⟩
    exact inv.used k h1 (by omega)

end generic

/-! ### the two backends -/

theorem faceAdj_symm (a b : Coord) : faceAdj a b = faceAdj b a := by
  unfold faceAdj
  rw [absDiffs_comm a b, BEq.comm (a := a.length)]

theorem fullAdj_symm (a b : Coord) : fullAdj a b = fullAdj b a := by
  unfold fullAdj
  rw [absDiffs_comm a b, BEq.comm (a := a.length), bne_comm (a := a)]

theorem backendAdj_symm (bk : Backend) (a b : Coord × Lab) : backendAdj bk a b = backendAdj bk b a := by
  cases bk
  · show (fullAdj a.1 b.1 && a.2 == b.2) = (fullAdj b.1 a.1 && b.2 == a.2)
    rw [fullAdj_symm, BEq.comm (a := a.2)]
  · exact faceAdj_symm a.1 b.1

/-- face neighbours are full neighbours (4/6-connectivity refines 8/26-connectivity) -/
theorem faceAdj_fullAdj (a b : Coord) (h : faceAdj a b = true) : fullAdj a b = true := by
  unfold faceAdj at h
  unfold fullAdj
  rw [Bool.and_eq_true] at h
  obtain ⟨hl, hs⟩ := h
  have hs' : (absDiffs a b).foldl (· + ·) 0 = 1 := eq_of_beq hs
  rw [Bool.and_eq_true, Bool.and_eq_true]
  refine ⟨⟨hl, ?_⟩, ?_⟩
  · rw [bne_iff_ne]
    intro hab
    subst hab
    rw [absDiffs_self] at hs'
    omega
  · rw [List.all_eq_true]
    intro x hx
    exact decide_eq_true (all_le_one_of_sum _ hs' x hx)

/-- the cc3d backend never joins voxels of different semantic labels -/
theorem cc3d_never_joins_labels (V : List (Coord × Lab)) (a b : Coord × Lab)
    (h : Reach (backendAdj .cc3d) V a b) : a.2 = b.2 := by
  induction h with
  | refl _ => rfl
  | step _ _ hadj ih =>
    have hadj' : (fullAdj _ _ && _ == _) = true := hadj
    rw [Bool.and_eq_true] at hadj'
    exact ih.trans (eq_of_beq hadj'.2)

/-- the scipy backend uses face connectivity on the foreground mask, whatever the labels -/
theorem scipy_face_only (a b : Coord × Lab) : backendAdj .scipy a b = faceAdj a.1 b.1 := by
  rfl

/-- by default 3-D (and higher) input uses cc3d, lower-dimensional input scipy -/
theorem default_backend (ndim : Nat) :
    defaultBackend ndim = if 3 ≤ ndim then Backend.cc3d else Backend.scipy := by
  rfl

/-- non-vacuity: a diagonal contact in 2-D is one component under full and two under face connectivity -/
example : ccCount (backendAdj .cc3d) [(([0, 0] : Coord), 1), ([1, 1], 1)] = 1 ∧
          ccCount (backendAdj .scipy) [(([0, 0] : Coord), 1), ([1, 1], 1)] = 2 := by decide

end Panoptica.C05
