/-
  C06 — Dice, IoU, RVD and clDice equal their set-theoretic definitions.
  `X`, `Y` are indicator lists of the selected voxel sets (what `_Metric.__call__` builds with
  `== ref_idx` / `np.isin(·, pred_idx)`); `maskVals` is their numeric view handed to the metric.
-/
import Panoptica.Proofs.Metrics
namespace Panoptica.C06
open Panoptica Panoptica.Spec

/-! ### the counts the code computes are the set cardinalities -/

theorem sum_mask (X : List Bool) : sumVals (maskVals X) = card X := by
  exact sumVals_maskVals X

theorem inter_mask (X Y : List Bool) : interCount (maskVals X) (maskVals Y) = cardInter X Y := by
  exact interCount_maskVals X Y

theorem union_mask (X Y : List Bool) : unionCount (maskVals X) (maskVals Y) = cardUnion X Y := by
  exact unionCount_maskVals X Y

/-- inclusion–exclusion on positions -/
theorem incl_excl (X Y : List Bool) (hlen : X.length = Y.length) :
    card X + card Y = cardInter X Y + cardUnion X Y := by
  exact card_incl_excl X Y hlen

/-! ### the definitions -/

/-- Dice = 2|X∩Y| / (|X|+|Y|), and 0 when both masks are empty (the code's guard) -/
theorem dice_def (X Y : List Bool) :
    dice (maskVals X) (maskVals Y) =
      if card X + card Y = 0 then 0 else (2 * (cardInter X Y : Rat)) / ((card X : Rat) + (card Y : Rat)) := by
  simp only [dice, sumVals_maskVals, interCount_maskVals]
  by_cases h : card X + card Y = 0
  · have h1 : card X = 0 := by omega
    have h2 : card Y = 0 := by omega
    simp [h1, h2]
  · have h' : ¬ (card X = 0 ∧ card Y = 0) := by omega
    simp [h', Nat.cast_add]

/-- IoU = |X∩Y| / |X∪Y|, and 0 when the union is empty (the code's guard) -/
theorem iou_def (X Y : List Bool) :
    iou (maskVals X) (maskVals Y) =
      if cardUnion X Y = 0 then 0 else (cardInter X Y : Rat) / (cardUnion X Y : Rat) := by
  simp only [iou, unionCount_maskVals, interCount_maskVals]
  by_cases h : cardUnion X Y = 0 <;> simp [h]

/-- RVD = (|pred| - |ref|) / |ref| wherever the quotient is defined -/
theorem rvd_def (X Y : List Bool) (href : card X ≠ 0) :
    rvd (maskVals X) (maskVals Y) = .ok (((card Y : Rat) - (card X : Rat)) / (card X : Rat)) := by
  simp only [rvd, sumVals_maskVals]
  simp [href]

/-- the code's behaviour where the quotient is undefined: 0 for two empty masks, an error for an
    empty reference with a non-empty prediction -/
theorem rvd_undefined (X Y : List Bool) (href : card X = 0) :
    rvd (maskVals X) (maskVals Y) = if card Y = 0 then .ok 0 else .error "ZeroDivisionError" := by
  simp only [rvd, sumVals_maskVals]
  by_cases h : card Y = 0 <;> simp [href, h]

/-! ### selection: a list of prediction labels means their union -/

theorem selPred_single (a : Flat) (p : Lab) : selPred a [p] = selRef a p := by
  simp only [selPred, selRef]
  apply List.map_congr_left
  intro x _
  cases h : x == p <;> simp [List.contains, List.elem, h]

theorem selPred_union (a : Flat) (ps qs : List Lab) :
    selPred a (ps ++ qs) = List.zipWith (· || ·) (selPred a ps) (selPred a qs) := by
  simp only [selPred, List.zipWith_map, List.zipWith_self]
  apply List.map_congr_left
  intro x _
  simp

theorem selPred_mem (a : Flat) (ps : List Lab) (i : Nat) (h : i < a.length) :
    (selPred a ps)[i]'(by simpa [selPred] using h) = true ↔ a[i] ∈ ps := by
  simp [selPred]

/-! ### consequences -/

theorem iou_symm (a b : Flat) : iou a b = iou b a := by
  simp only [iou, interCount_comm a b, unionCount_comm a b]

theorem dice_symm (a b : Flat) : dice a b = dice b a := by
  simp only [dice, interCount_comm a b, Nat.add_comm (sumVals a), Bool.and_comm (sumVals a == 0)]

/-- Dice = 2·IoU / (1 + IoU) whenever the union is non-empty -/
theorem dice_iou (X Y : List Bool) (hlen : X.length = Y.length) (hpos : 0 < cardUnion X Y) :
    dice (maskVals X) (maskVals Y) =
      2 * iou (maskVals X) (maskVals Y) / (1 + iou (maskVals X) (maskVals Y)) := by
  have hie := incl_excl X Y hlen
  have hU : cardUnion X Y ≠ 0 := by omega
  have hS : card X + card Y ≠ 0 := by omega
  rw [dice_def, iou_def, if_neg hU, if_neg hS]
  have hc : (card X : Rat) + (card Y : Rat) = (cardInter X Y : Rat) + (cardUnion X Y : Rat) := by
    exact_mod_cast hie
  have hUq : (0 : Rat) < (cardUnion X Y : Rat) := by exact_mod_cast hpos
  have hIq : (0 : Rat) ≤ (cardInter X Y : Rat) := Nat.cast_nonneg _
  rw [hc]
  have h1 : (cardUnion X Y : Rat) ≠ 0 := ne_of_gt hUq
  have h2 : (cardInter X Y : Rat) + (cardUnion X Y : Rat) ≠ 0 := by positivity
  have h3 : (cardUnion X Y : Rat) + (cardInter X Y : Rat) ≠ 0 := by positivity
  field_simp
  ring

theorem iou_unit (X Y : List Bool) :
    0 ≤ iou (maskVals X) (maskVals Y) ∧ iou (maskVals X) (maskVals Y) ≤ 1 := by
  rw [iou_def]
  split
  · exact ⟨le_refl _, by decide⟩
  · rename_i hU
    have hUq : (0 : Rat) < (cardUnion X Y : Rat) := by exact_mod_cast Nat.pos_of_ne_zero hU
    have hle : (cardInter X Y : Rat) ≤ (cardUnion X Y : Rat) := by
      exact_mod_cast cardInter_le_union X Y
    exact ⟨div_nonneg (Nat.cast_nonneg _) hUq.le, (div_le_one hUq).2 hle⟩

theorem dice_unit (X Y : List Bool) :
    0 ≤ dice (maskVals X) (maskVals Y) ∧ dice (maskVals X) (maskVals Y) ≤ 1 := by
  rw [dice_def]
  split
  · exact ⟨le_refl _, by decide⟩
  · rename_i hS
    have hSq : (0 : Rat) < (card X : Rat) + (card Y : Rat) := by
      exact_mod_cast Nat.pos_of_ne_zero hS
    have h1 : (cardInter X Y : Rat) ≤ (card X : Rat) := by exact_mod_cast cardInter_le_left X Y
    have h2 : (cardInter X Y : Rat) ≤ (card Y : Rat) := by exact_mod_cast cardInter_le_right X Y
    have h0 : (0 : Rat) ≤ (cardInter X Y : Rat) := Nat.cast_nonneg _
    refine ⟨div_nonneg (by linarith) hSq.le, (div_le_one hSq).2 (by linarith)⟩

/-- Dice ≥ IoU (used for `sq_dsc ≥ sq` in C02) -/
theorem iou_le_dice (X Y : List Bool) (hlen : X.length = Y.length) :
    iou (maskVals X) (maskVals Y) ≤ dice (maskVals X) (maskVals Y) := by
  have hie := incl_excl X Y hlen
  have hIU := cardInter_le_union X Y
  rw [dice_def, iou_def]
  by_cases hU : cardUnion X Y = 0
  · have hS : card X + card Y = 0 := by omega
    rw [if_pos hU, if_pos hS]
  · have hS : card X + card Y ≠ 0 := by omega
    rw [if_neg hU, if_neg hS]
    have hc : (card X : Rat) + (card Y : Rat) = (cardInter X Y : Rat) + (cardUnion X Y : Rat) := by
      exact_mod_cast hie
    have hUq : (0 : Rat) < (cardUnion X Y : Rat) := by exact_mod_cast Nat.pos_of_ne_zero hU
    have hIq : (0 : Rat) ≤ (cardInter X Y : Rat) := Nat.cast_nonneg _
    have hle : (cardInter X Y : Rat) ≤ (cardUnion X Y : Rat) := by exact_mod_cast hIU
    rw [hc, div_le_div_iff₀ hUq (by linarith)]
    nlinarith

/-- IoU = 1 exactly for identical non-empty masks -/
theorem iou_eq_one_iff (X Y : List Bool) (hlen : X.length = Y.length) :
    iou (maskVals X) (maskVals Y) = 1 ↔ (X = Y ∧ 0 < card X) := by
  have hie := incl_excl X Y hlen
  rw [iou_def]
  constructor
  · intro h
    by_cases hU : cardUnion X Y = 0
    · rw [if_pos hU] at h
      exact absurd h (by decide)
    · rw [if_neg hU] at h
      have hUq : (cardUnion X Y : Rat) ≠ 0 := by exact_mod_cast hU
      have hq : (cardInter X Y : Rat) = (cardUnion X Y : Rat) := by
        rwa [div_eq_one_iff_eq hUq] at h
      have hn : cardInter X Y = cardUnion X Y := by exact_mod_cast hq
      have hXY := eq_of_cardInter_eq_cardUnion X Y hlen hn
      subst hXY
      rw [cardUnion_self] at hU
      exact ⟨rfl, Nat.pos_of_ne_zero hU⟩
  · rintro ⟨rfl, hpos⟩
    rw [cardUnion_self, cardInter_self, if_neg (by omega)]
    exact div_self (by exact_mod_cast (by omega : card X ≠ 0))

/-- Dice = 1 exactly for identical non-empty masks -/
theorem dice_eq_one_iff (X Y : List Bool) (hlen : X.length = Y.length) :
    dice (maskVals X) (maskVals Y) = 1 ↔ (X = Y ∧ 0 < card X) := by
  have hie := incl_excl X Y hlen
  have hIU := cardInter_le_union X Y
  have hIl := cardInter_le_left X Y
  have hIr := cardInter_le_right X Y
  rw [dice_def]
  constructor
  · intro h
    by_cases hS : card X + card Y = 0
    · rw [if_pos hS] at h
      exact absurd h (by decide)
    · rw [if_neg hS] at h
      have hSq : (card X : Rat) + (card Y : Rat) ≠ 0 := by exact_mod_cast hS
      have hq : 2 * (cardInter X Y : Rat) = (card X : Rat) + (card Y : Rat) := by
        rwa [div_eq_one_iff_eq hSq] at h
      have hn : 2 * cardInter X Y = card X + card Y := by exact_mod_cast hq
      have hXY := eq_of_cardInter_eq_cardUnion X Y hlen (by omega)
      subst hXY
      exact ⟨rfl, by omega⟩
  · rintro ⟨rfl, hpos⟩
    rw [cardInter_self, if_neg (by omega)]
    have : (card X : Rat) ≠ 0 := by exact_mod_cast (by omega : card X ≠ 0)
    field_simp
    ring

/-- clDice is the harmonic mean of the two skeleton coverages (skeletons are parameters) -/
theorem cldice_harmonic (ref pred skelRef skelPred : Flat) (tp ts : Rat)
    (h1 : clScore pred skelRef = some tp) (h2 : clScore ref skelPred = some ts) (h3 : tp + ts ≠ 0) :
    clDice ref pred skelRef skelPred = some (2 * tp * ts / (tp + ts)) := by
  simp only [clDice, h1, h2]
  simp [h3]

/-- skeleton coverage = |V ∩ skel| / |skel| -/
theorem clScore_def (V Sk : List Bool) (h : card Sk ≠ 0) :
    clScore (maskVals V) (maskVals Sk) = some ((cardInter V Sk : Rat) / (card Sk : Rat)) := by
  simp only [clScore, sumVals_maskVals, interCount_maskVals]
  simp [h]

/-- non-vacuity: X = {0,1,2}, Y = {1,2,3} over 5 positions: IoU 2/4, Dice 4/6 -/
example : cardInter [true, true, true, false, false] [false, true, true, true, false] = 2 ∧
          cardUnion [true, true, true, false, false] [false, true, true, true, false] = 4 := by decide

end Panoptica.C06
