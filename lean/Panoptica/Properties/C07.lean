/-
  C07 — ASSD equals the mean of the two directed average surface distances.
  The executable model returns, for masks `R` (reference) and `P` (prediction) given as coordinate
  lists, the two lists of exact squared distances; the real-valued ASSD is defined from them here.
-/
import Mathlib.Analysis.Real.Sqrt
import Panoptica.Proofs.Geometry
import Panoptica.Spec.Transforms
namespace Panoptica.C07
open Panoptica Panoptica.Spec

/-- average of the Euclidean distances whose squares are listed -/
noncomputable def asd (l : List Nat) : ℝ := ((l.map (fun d => Real.sqrt (d : ℝ))).sum) / (l.length : ℝ)

/-- ASSD from the two directed lists -/
noncomputable def assdReal (a b : List Nat) : ℝ := (asd a + asd b) / 2

/-! ### what the lists are -/

/-- face neighbours are exactly the coordinates at L1-distance 1 -/
theorem mem_faceNeighbours (c x : Coord) : x ∈ faceNeighbours c ↔ faceAdj c x = true := by
  sorry

/-- a border voxel is a foreground voxel with a face neighbour that is not foreground
    (background or outside the array — the mask only lists foreground coordinates) -/
theorem mem_border (X : List Coord) (c : Coord) :
    c ∈ border X ↔ c ∈ X ∧ ∃ x, faceAdj c x = true ∧ x ∉ X := by
  sorry

/-- `nearestSq` is the minimum squared distance to the set -/
theorem nearestSq_spec (a : Coord) (B : List Coord) (hB : B ≠ []) :
    ∃ b ∈ B, nearestSq a B = some (sqDist a b) ∧ ∀ b' ∈ B, sqDist a b ≤ sqDist a b' := by
  sorry

/-- the directed list: for every border voxel of the prediction (in order) the squared distance to
    the nearest border voxel of the reference -/
theorem surfaceSqDists_spec (R P : List Coord) (hR : border R ≠ []) :
    (surfaceSqDists R P).length = (border P).length ∧
    ∀ i (h : i < (border P).length) (h' : i < (surfaceSqDists R P).length),
      ∃ b ∈ border R, (surfaceSqDists R P)[i] = sqDist ((border P)[i]) b ∧
        ∀ b' ∈ border R, sqDist ((border P)[i]) b ≤ sqDist ((border P)[i]) b' := by
  sorry

/-! ### consequences -/

theorem assd_symm (a b : List Nat) : assdReal a b = assdReal b a := by
  sorry

theorem assd_nonneg (a b : List Nat) : 0 ≤ assdReal a b := by
  sorry

/-- squared distance 0 means equal coordinates (same dimension) -/
theorem sqDist_eq_zero (a b : Coord) (h : a.length = b.length) : sqDist a b = 0 ↔ a = b := by
  sorry

/-- ASSD is zero exactly when the two borders coincide (as sets) -/
theorem assd_zero_iff (n : Nat) (R P : List Coord) (hlen : ∀ c ∈ R ++ P, c.length = n)
    (hR : border R ≠ []) (hP : border P ≠ []) :
    assdReal (surfaceSqDists R P) (surfaceSqDists P R) = 0 ↔ (∀ c, c ∈ border R ↔ c ∈ border P) := by
  sorry

/-- the lists (hence ASSD) are unchanged by any grid isometry applied to both masks: translations
    (embedding in a larger or tighter array), mirroring an axis, exchanging axes -/
theorem surfaceSqDists_isometry (n : Nat) (f : Coord → Coord) (hf : GridIsometry f n)
    (R P : List Coord) (hlen : ∀ c ∈ R ++ P, c.length = n) :
    surfaceSqDists (R.map f) (P.map f) = surfaceSqDists R P := by
  sorry

theorem translate_isometry (n : Nat) (t : Coord) (ht : t.length = n) : GridIsometry (translate t) n := by
  sorry

theorem flipAxis_isometry (n k : Nat) (m : Int) (hk : k < n) : GridIsometry (flipAxis k m) n := by
  sorry

theorem swapAxes_isometry (n i j : Nat) (hi : i < n) (hj : j < n) : GridIsometry (swapAxes i j) n := by
  sorry

/-- non-vacuity: a 2-voxel line against a single voxel in 2-D -/
example : surfaceSqDists [[0, 0], [0, 1]] [[0, 3]] = [4] ∧ surfaceSqDists [[0, 3]] [[0, 0], [0, 1]] = [9, 4] := by decide

end Panoptica.C07
