/-
  C07 — ASSD equals the mean of the two directed average surface distances.
  The executable model returns, for masks `R` (reference) and `P` (prediction) given as coordinate
  lists, the two lists of exact squared distances; the real-valued ASSD is defined from them here.
-/
import Mathlib.Analysis.Real.Sqrt
import Panoptica.Proofs.Geometry
import Panoptica.Spec.Transforms
namespace Panoptica.C07
open Panoptica Panoptica.Spec

/-- average of the Euclidean distances whose squares are listed -/
noncomputable def asd (l : List Nat) : ℝ := ((l.map (fun d => Real.sqrt (d : ℝ))).sum) / (l.length : ℝ)

/-- ASSD from the two directed lists -/
noncomputable def assdReal (a b : List Nat) : ℝ := (asd a + asd b) / 2

/-! ### auxiliary facts about `asd` -/

/-- the `List ℕ → List ℝ` coercion inserted by the elaborator in `asd` is the pointwise cast -/
theorem coe_list (l : List Nat) :
    (do let a ← l; pure (a : ℝ) : List ℝ) = l.map (fun d : Nat => (d : ℝ)) := by
  induction l with
  | nil => rfl
  | cons x xs ih =>
    simp only [List.map_cons, ← ih]
    rfl

theorem asd_eq (l : List Nat) :
    asd l = ((l.map (fun d : Nat => Real.sqrt (d : ℝ))).sum) / (l.length : ℝ) := by
  unfold asd
  rw [coe_list, List.map_map]
  rfl

theorem sqrtSum_nonneg (l : List Nat) : 0 ≤ (l.map (fun d : Nat => Real.sqrt (d : ℝ))).sum := by
  induction l with
  | nil => simp
  | cons x xs ih =>
    simp only [List.map_cons, List.sum_cons]
    exact add_nonneg (Real.sqrt_nonneg _) ih

theorem sqrtSum_eq_zero_iff (l : List Nat) :
    (l.map (fun d : Nat => Real.sqrt (d : ℝ))).sum = 0 ↔ ∀ d ∈ l, d = 0 := by
  induction l with
  | nil => simp
  | cons x xs ih =>
    simp only [List.map_cons, List.sum_cons, List.mem_cons, forall_eq_or_imp, ← ih]
    have h1 := Real.sqrt_nonneg (x : ℝ)
    have h2 := sqrtSum_nonneg xs
    constructor
    · intro h
      have h3 : Real.sqrt (x : ℝ) = 0 := by linarith
      have h4 : (x : ℝ) = 0 := (Real.sqrt_eq_zero (Nat.cast_nonneg x)).1 h3
      exact ⟨by exact_mod_cast h4, by linarith⟩
    · rintro ⟨rfl, h⟩
      simp [h]

theorem asd_nonneg (l : List Nat) : 0 ≤ asd l := by
  rw [asd_eq]
  exact div_nonneg (sqrtSum_nonneg l) (Nat.cast_nonneg _)

theorem asd_eq_zero_iff (l : List Nat) (h : l ≠ []) : asd l = 0 ↔ ∀ d ∈ l, d = 0 := by
  rw [asd_eq]
  have : (l.length : ℝ) ≠ 0 := by
    simpa using h
  rw [div_eq_zero_iff, sqrtSum_eq_zero_iff]
  simp [this]

/-- all directed squared distances vanish exactly when the prediction border lies in the
    reference border -/
theorem all_zero_iff_subset (n : Nat) (R P : List Coord) (hRl : ∀ c ∈ border R, c.length = n)
    (hPl : ∀ c ∈ border P, c.length = n) (hR : border R ≠ []) :
    (∀ d ∈ surfaceSqDists R P, d = 0) ↔ ∀ c, c ∈ border P → c ∈ border R := by
  constructor
  · intro h c hc
    obtain ⟨b, hb, hsome, -⟩ := nearestSq_spec' c (border R) hR
    have hmem : sqDist c b ∈ surfaceSqDists R P := by
      unfold surfaceSqDists
      exact List.mem_filterMap.2 ⟨c, hc, hsome⟩
    have h0 := h _ hmem
    have : c = b := (sqDist_eq_zero_iff c b (by rw [hPl c hc, hRl b hb])).1 h0
    exact this ▸ hb
  · intro h d hd
    unfold surfaceSqDists at hd
    obtain ⟨c, hc, hsome⟩ := List.mem_filterMap.1 hd
    obtain ⟨b, hb, hsome', hmin⟩ := nearestSq_spec' c (border R) hR
    have h1 := hmin c (h c hc)
    rw [sqDist_self] at h1
    rw [hsome'] at hsome
    have := Option.some.inj hsome
    omega

/-! ### what the lists are -/

/-- face neighbours are exactly the coordinates at L1-distance 1 -/
theorem mem_faceNeighbours (c x : Coord) : x ∈ faceNeighbours c ↔ faceAdj c x = true := by
  exact mem_faceNeighbours_iff c x

/-- a border voxel is a foreground voxel with a face neighbour that is not foreground
    (background or outside the array — the mask only lists foreground coordinates) -/
theorem mem_border (X : List Coord) (c : Coord) :
    c ∈ border X ↔ c ∈ X ∧ ∃ x, faceAdj c x = true ∧ x ∉ X := by
  exact mem_border_iff X c

/-- `nearestSq` is the minimum squared distance to the set -/
theorem nearestSq_spec (a : Coord) (B : List Coord) (hB : B ≠ []) :
    ∃ b ∈ B, nearestSq a B = some (sqDist a b) ∧ ∀ b' ∈ B, sqDist a b ≤ sqDist a b' := by
  exact nearestSq_spec' a B hB

/-- the directed list: for every border voxel of the prediction (in order) the squared distance to
    the nearest border voxel of the reference -/
theorem surfaceSqDists_spec (R P : List Coord) (hR : border R ≠ []) :
    (surfaceSqDists R P).length = (border P).length ∧
    ∀ i (h : i < (border P).length) (h' : i < (surfaceSqDists R P).length),
      ∃ b ∈ border R, (surfaceSqDists R P)[i] = sqDist ((border P)[i]) b ∧
        ∀ b' ∈ border R, sqDist ((border P)[i]) b ≤ sqDist ((border P)[i]) b' := by
  obtain ⟨hlen, hget⟩ := surfaceSqDists_spec' R P hR
  refine ⟨hlen, ?_⟩
  intro i h h'
  obtain ⟨b, hb, hsome, hmin⟩ := nearestSq_spec' ((border P)[i]) (border R) hR
  refine ⟨b, hb, ?_, hmin⟩
  have := hget i h h'
  rw [hsome] at this
  exact (Option.some.inj this).symm

/-! ### consequences -/

theorem assd_symm (a b : List Nat) : assdReal a b = assdReal b a := by
  unfold assdReal
  rw [add_comm]

theorem assd_nonneg (a b : List Nat) : 0 ≤ assdReal a b := by
  unfold assdReal
  exact div_nonneg (add_nonneg (asd_nonneg a) (asd_nonneg b)) (by norm_num)

/-- squared distance 0 means equal coordinates (same dimension) -/
theorem sqDist_eq_zero (a b : Coord) (h : a.length = b.length) : sqDist a b = 0 ↔ a = b := by
  exact sqDist_eq_zero_iff a b h

/-- ASSD is zero exactly when the two borders coincide (as sets) -/
theorem assd_zero_iff (n : Nat) (R P : List Coord) (hlen : ∀ c ∈ R ++ P, c.length = n)
    (hR : border R ≠ []) (hP : border P ≠ []) :
    assdReal (surfaceSqDists R P) (surfaceSqDists P R) = 0 ↔ (∀ c, c ∈ border R ↔ c ∈ border P) := by
  have hRl : ∀ c ∈ border R, c.length = n := fun c hc =>
    hlen c (List.mem_append_left _ (border_subset R c hc))
  have hPl : ∀ c ∈ border P, c.length = n := fun c hc =>
    hlen c (List.mem_append_right _ (border_subset P c hc))
  have hne : ∀ A B : List Coord, border A ≠ [] → border B ≠ [] → surfaceSqDists A B ≠ [] := by
    intro A B hA hB h0
    have := (surfaceSqDists_spec' A B hA).1
    rw [h0] at this
    exact hB (List.length_eq_zero_iff.1 this.symm)
  have key : assdReal (surfaceSqDists R P) (surfaceSqDists P R) = 0 ↔
      (∀ d ∈ surfaceSqDists R P, d = 0) ∧ (∀ d ∈ surfaceSqDists P R, d = 0) := by
    unfold assdReal
    rw [← asd_eq_zero_iff _ (hne R P hR hP), ← asd_eq_zero_iff _ (hne P R hP hR)]
    have h1 := asd_nonneg (surfaceSqDists R P)
    have h2 := asd_nonneg (surfaceSqDists P R)
    constructor
    · intro h
      constructor <;> linarith
    · rintro ⟨h3, h4⟩
      rw [h3, h4]; norm_num
  rw [key, all_zero_iff_subset n R P hRl hPl hR, all_zero_iff_subset n P R hPl hRl hP]
  constructor
  · rintro ⟨h1, h2⟩ c
    exact ⟨h2 c, h1 c⟩
  · intro h
    exact ⟨fun c => (h c).2, fun c => (h c).1⟩

/-- the lists (hence ASSD) are unchanged by any grid isometry applied to both masks: translations
    (embedding in a larger or tighter array), mirroring an axis, exchanging axes -/
theorem surfaceSqDists_isometry (n : Nat) (f : Coord → Coord) (hf : GridIsometry f n)
    (R P : List Coord) (hlen : ∀ c ∈ R ++ P, c.length = n) :
    surfaceSqDists (R.map f) (P.map f) = surfaceSqDists R P := by
  exact surfaceSqDists_map n f hf R P (fun c hc => hlen c (List.mem_append_left _ hc))
    (fun c hc => hlen c (List.mem_append_right _ hc))

theorem translate_isometry (n : Nat) (t : Coord) (ht : t.length = n) : GridIsometry (translate t) n := by
  exact translate_gridIsometry n t ht

theorem flipAxis_isometry (n k : Nat) (m : Int) (hk : k < n) : GridIsometry (flipAxis k m) n := by
  exact flipAxis_gridIsometry n k m hk

theorem swapAxes_isometry (n i j : Nat) (hi : i < n) (hj : j < n) : GridIsometry (swapAxes i j) n := by
  exact swapAxes_gridIsometry n i j hi hj

/-- non-vacuity: a 2-voxel line against a single voxel in 2-D -/
example : surfaceSqDists [[0, 0], [0, 1]] [[0, 3]] = [4] ∧ surfaceSqDists [[0, 3]] [[0, 0], [0, 1]] = [9, 4] := by decide

end Panoptica.C07
