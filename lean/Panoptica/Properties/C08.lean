/-
  C08 — zero-true-positive cases report exactly what the edge-case handler prescribes.
  Universally quantified over the instance counts (unbounded), over every handler table
  (5^4 value combinations per metric, 5 empty-list values) and every metric selection.
-/
import Panoptica.Proofs.Result
namespace Panoptica.C08
open Panoptica

/-- the scenario classification, stated as the table the documentation gives -/
theorem scenario_table (nPred nRef : Nat) :
    scenarioOf nPred nRef =
      if nPred = 0 ∧ nRef = 0 then Scenario.NO_INSTANCES
      else if nPred = 0 then Scenario.EMPTY_PRED
      else if nRef = 0 then Scenario.EMPTY_REF
      else Scenario.NORMAL := by
  unfold scenarioOf
  by_cases hp : nPred = 0 <;> by_cases hr : nRef = 0 <;> simp [hp, hr]

/-- with tp = 0: fp and fn are the instance counts -/
theorem zero_tp_counts (r : ResultIn) (h : r.tp = 0) : r.fp = r.nPred ∧ r.fn = r.nRef := by
  unfold ResultIn.fp ResultIn.fn
  rw [h]
  constructor <;> simp

/-- with tp = 0 every evaluated metric that the handler defines reports, as its aggregate,
    exactly the handler's value for the realised scenario (and evaluation does not raise) -/
theorem zero_tp_values (r : ResultIn) (m : Metric) (z : ZeroTP) (vals : List Rat)
    (htp : r.tp = 0) (hh : r.handler.lookup m = some z)
    (hl : r.lists.find? (fun e => e.1 == m) = some (m, vals)) :
    r.sq m = .ok (some (edgeToVal (z.get (scenarioOf r.nPred r.nRef)))) := by
  rw [ResultIn.sq, listMetric_zero r m z vals htp hh hl]
  rfl

/-- with tp = 0 and an empty value list the reported standard deviation is the configured
    empty-list value -/
theorem zero_tp_std (r : ResultIn) (m : Metric) (z : ZeroTP)
    (htp : r.tp = 0) (hh : r.handler.lookup m = some z)
    (hl : r.lists.find? (fun e => e.1 == m) = some (m, [])) :
    r.sqStdSq m = .ok (some (edgeToVal r.handler.emptyListStd)) := by
  rw [ResultIn.sqStdSq, listMetric_zero r m z [] htp hh hl]
  rfl

/-- the early exit: when either side has no instance the pipeline returns a result with tp = 0,
    the given counts, and an empty list for exactly the evaluated metrics -/
theorem zero_case_result (nPred nRef : Nat) (ms : List Metric) (h : Handler)
    (hz : nPred = 0 ∨ nRef = 0) :
    zeroInstancesCase nPred nRef ms h =
      some { nRef := nRef, nPred := nPred, tp := 0, lists := ms.map (fun m => (m, [])), handler := h } := by
  unfold zeroInstancesCase
  have : (nPred == 0 || nRef == 0) = true := by
    rcases hz with h | h <;> simp [h]
  rw [if_pos this]

/-- no early exit when both sides have instances -/
theorem zero_case_none (nPred nRef : Nat) (ms : List Metric) (h : Handler)
    (hp : nPred ≠ 0) (hr : nRef ≠ 0) : zeroInstancesCase nPred nRef ms h = none := by
  unfold zeroInstancesCase
  have : ¬ (nPred == 0 || nRef == 0) = true := by simp [hp, hr]
  rw [if_neg this]

/-- with at least one true positive the handler has no influence on the list metrics
    (the value list being non-empty, as it is whenever tp > 0, see C02) -/
theorem handler_irrelevant (r : ResultIn) (h' : Handler) (m : Metric) (htp : r.tp ≠ 0)
    (hne : ∀ vals, r.lists.find? (fun e => e.1 == m) = some (m, vals) → vals ≠ []) :
    ({ r with handler := h' } : ResultIn).listMetric m = r.listMetric m := by
  unfold ResultIn.listMetric
  cases hf : r.lists.find? (fun e => e.1 == m) with
  | none => rfl
  | some e =>
    obtain ⟨m', vals⟩ := e
    have hm : m' = m := by
      have := List.find?_some hf
      simpa using this
    subst hm
    have hv : vals.isEmpty = false := by
      cases vals with
      | nil => exact absurd rfl (hne [] hf)
      | cons _ _ => rfl
    simp only [handleZeroTP_nonzero _ _ _ _ _ htp, mkListMetric, hv]
    rfl

/-- the handler's `__call__` for tp ≠ 0 reports "no edge case" -/
theorem call_nonzero (z : ZeroTP) (tp nPred nRef : Nat) (h : tp ≠ 0) :
    z.call tp nPred nRef = (false, EdgeVal.NONE) := by
  simp [ZeroTP.call, h]

/-- non-vacuity: a handler with four pairwise different values, empty reference -/
example : ({ noInstances := .NAN, emptyPred := .ZERO, emptyRef := .ONE, normal := .INF } : ZeroTP).call 0 3 0
    = (true, EdgeVal.ONE) := by decide

end Panoptica.C08
