/-
  C09 — results do not depend on label values, label order or integer dtype.
  (a) the pair encoding of the candidate discovery is exact for all labels below 2^32 (after the
  fix: 64-bit arithmetic), so the candidates are exactly the overlapping label pairs, whatever the
  label values; (b) every count the scores are built from is transported by injective relabelling;
  (c) the matcher's outcome is transported by relabelling the candidates; (d) the relabelling
  after matching does not depend on the dtype width (C04.relabel_pointwise).
-/
import Panoptica.Proofs.Overlap
namespace Panoptica.C09
open Panoptica

/-! ### (a) candidate discovery -/

/-- the encoding is injective on label pairs below 2^32 -/
theorem encode_injective (maxRef p p' r r' : Nat) (hm : maxRef ≤ 2 ^ 32)
    (hp : p < 2 ^ 32) (hp' : p' < 2 ^ 32) (hr : r < maxRef) (hr' : r' < maxRef)
    (h : ((p % twoPow64) * maxRef + r) % twoPow64 = ((p' % twoPow64) * maxRef + r') % twoPow64) :
    p = p' ∧ r = r' := by
  have e1 := encode_exact maxRef p r hm hp hr
  have e2 := encode_exact maxRef p' r' hm hp' hr'
  rw [e1, e2] at h
  exact encode_inj maxRef p p' r r' hr hr' h

/-- `_calc_overlapping_labels` returns exactly the pairs of non-zero labels that share a voxel,
    for every label value below 2^32 (near a dtype maximum, beyond 2^16, ...) -/
theorem overlapPairs_spec (pred ref : Flat) (hlen : pred.length = ref.length)
    (hp : ∀ x ∈ pred, x < 2 ^ 32) (hr : ∀ x ∈ ref, x < 2 ^ 32 - 1) (r p : Lab) :
    (r, p) ∈ overlapPairs pred ref (labelsOf ref) ↔ (r ≠ 0 ∧ p ≠ 0 ∧ overlaps pred ref r p = true) := by
  have _ := hlen
  rw [mem_overlapPairs pred ref hp hr r p, overlaps_iff]

/-- no candidate pair is reported twice -/
theorem overlapPairs_nodup (pred ref : Flat) (hlen : pred.length = ref.length)
    (hp : ∀ x ∈ pred, x < 2 ^ 32) (hr : ∀ x ∈ ref, x < 2 ^ 32 - 1) :
    (overlapPairs pred ref (labelsOf ref)).Nodup := by
  have _ := hlen; have _ := hp; have _ := hr
  exact overlapPairsM_nodup _ pred ref _

/-- regression (repaired defect): in 32-bit arithmetic the pair (70000, 70000) decoded to a wrong
    pair; in 64-bit arithmetic it is found -/
example : overlapPairsM (2 ^ 32) [70000] [70000] [70000] ≠ [(70000, 70000)] ∧
          overlapPairs [70000] [70000] [70000] = [(70000, 70000)] := by
  constructor <;> decide

/-! ### (b) counts are transported by injective relabelling -/

theorem ovCount_relabel (σ τ : Lab → Lab) (pred ref : Flat)
    (hσ : ∀ a ∈ pred, ∀ b ∈ pred, σ a = σ b → a = b) (hτ : ∀ a ∈ ref, ∀ b ∈ ref, τ a = τ b → a = b)
    (r p : Lab) (hr : r ∈ ref) (hp : p ∈ pred) :
    ovCount (pred.map σ) (ref.map τ) (τ r) (σ p) = ovCount pred ref r p := by
  exact ovCount_map σ τ pred ref r p (fun a ha h => hσ a ha p hp h) (fun b hb h => hτ b hb r hr h)

theorem cnt_relabel (σ : Lab → Lab) (a : Flat) (hσ : ∀ x ∈ a, ∀ y ∈ a, σ x = σ y → x = y)
    (l : Lab) (hl : l ∈ a) : cnt (a.map σ) (σ l) = cnt a l := by
  exact cnt_map σ a l (fun x hx h => hσ x hx l hl h)

/-- the selected masks, hence IoU / Dice / RVD of a pair of instances, are unchanged -/
theorem selRef_relabel (τ : Lab → Lab) (ref : Flat) (hτ : ∀ a ∈ ref, ∀ b ∈ ref, τ a = τ b → a = b)
    (r : Lab) (hr : r ∈ ref) : selRef (ref.map τ) (τ r) = selRef ref r := by
  simp only [selRef, List.map_map]
  apply List.map_congr_left
  intro x hx
  simp only [Function.comp_apply]
  by_cases h : x = r
  · simp [h]
  · have h' : τ x ≠ τ r := fun e => h (hτ x hx r hr e)
    simp [h, h']

theorem selPred_relabel (σ : Lab → Lab) (pred : Flat) (hσ : ∀ a ∈ pred, ∀ b ∈ pred, σ a = σ b → a = b)
    (ps : List Lab) (hps : ∀ p ∈ ps, p ∈ pred) : selPred (pred.map σ) (ps.map σ) = selPred pred ps := by
  simp only [selPred, List.map_map]
  apply List.map_congr_left
  intro x hx
  simp only [Function.comp_apply]
  rw [Bool.eq_iff_iff, List.contains_iff_mem, List.contains_iff_mem, List.mem_map]
  constructor
  · rintro ⟨y, hy, h⟩
    have := hσ y (hps y hy) x hx h
    rw [← this]; exact hy
  · intro h
    exact ⟨x, h, rfl⟩

/-! ### (c) the matcher commutes with relabelling of the candidates -/

/-- relabel a candidate -/
def relabelCand {S : Type} (σ τ : Lab → Lab) (c : Cand S) : Cand S := { c with ref := τ c.ref, pred := σ c.pred }

/-- with the same candidate order (which the best-first sort fixes up to ties) the threshold
    matcher returns the relabelled assignment -/
theorem naive_relabel {S : Type} (le : S → S → Bool) (dec : Bool) (thr : S) (m2o : Bool)
    (σ τ : Lab → Lab) (cs : List (Cand S))
    (hσ : ∀ a ∈ cs, ∀ b ∈ cs, σ a.pred = σ b.pred → a.pred = b.pred)
    (hτ : ∀ a ∈ cs, ∀ b ∈ cs, τ a.ref = τ b.ref → a.ref = b.ref) :
    naiveLoop le dec thr m2o (cs.map (relabelCand σ τ)) =
      (naiveLoop le dec thr m2o cs).map (fun e => (σ e.1, τ e.2)) := by
  have h := naiveFold_relabel le dec thr m2o σ τ (fun x => ∃ a ∈ cs, a.pred = x)
    (fun x => ∃ a ∈ cs, a.ref = x)
    (by
      rintro a b ⟨ca, hca, rfl⟩ ⟨cb, hcb, rfl⟩ h
      exact hσ ca hca cb hcb h)
    (by
      rintro a b ⟨ca, hca, rfl⟩ ⟨cb, hcb, rfl⟩ h
      exact hτ ca hca cb hcb h)
    cs (fun c hc => ⟨⟨c, hc, rfl⟩, ⟨c, hc, rfl⟩⟩) [] (by simp)
  exact h

end Panoptica.C09
