/-
  C09, end to end, for the *merge* matcher — renaming the instance labels of prediction and reference by injective
  maps (and changing the integer width) leaves the reported counts, tp and every per-instance list unchanged
  (lists up to order), for unmatched instance input with `MaximizeMergeMatching` on IoU / Dice, whenever no two
  candidate pairs have the same score (then the best-first processing order is the same before and after the
  renaming; ties are where the property itself only demands validity).  Companion of `C09.pipeline_rename`
  (one-to-one threshold matcher).
-/
import Panoptica.Properties.C09Pipeline
import Panoptica.Proofs.RelabelMerge
namespace Panoptica.C09
open Panoptica

/-- configurations covered: unmatched instance input, merge matcher on IoU / Dice with a rational threshold; any
    instance metrics, any decision setting -/
structure RelabelCfgMerge (cfg : Config) (mc : MatcherCfg) : Prop where
  input : cfg.input = .UNMATCHED
  matcher : cfg.matcher = some mc
  kind : mc.kind = .merge
  mmetric : mc.metric = .IOU ∨ mc.metric = .DSC
  thrExact : ∃ q, mc.thr = .exact q

/-- no two candidate pairs score the same -/
def DistinctScores (cs : List (Cand Score)) : Prop := cs.Pairwise (fun a b => a.score ≠ b.score)

/-- the label map of the renamed pair is the renamed label map, entry by entry and in the same order -/
theorem runMatcher_rename_merge (mc : MatcherCfg) (hk : mc.kind = .merge)
    (hm : mc.metric = .IOU ∨ mc.metric = .DSC) (ht : ∃ q, mc.thr = .exact q)
    (s : List Nat) (pred ref : Flat) (σ τ : Lab → Lab) (hσ : Renaming σ pred) (hτ : Renaming τ ref)
    (hlen : pred.length = ref.length)
    (hb : ∀ x ∈ pred ++ ref, x < 2 ^ 32 - 1) (hb' : ∀ x ∈ pred.map σ ++ ref.map τ, x < 2 ^ 32 - 1)
    (hdist : DistinctScores (scoredCands mc.metric ⟨s, pred⟩ ⟨s, ref⟩))
    (lm lm' : LMap) (h : runMatcher mc ⟨s, pred⟩ ⟨s, ref⟩ = .ok lm)
    (h' : runMatcher mc ⟨s, pred.map σ⟩ ⟨s, ref.map τ⟩ = .ok lm') :
    lm' = lm.map (fun e => (σ e.1, τ e.2)) := by
  have _ := ht
  exact RelabelMerge.runMatcher_rename_merge_core mc hk hm s pred ref σ τ hσ.zero hτ.zero hσ.nonzero
    hτ.nonzero hσ.inj hτ.inj hlen hb hb' hdist lm lm' h h'

/-- end to end -/
theorem pipeline_rename_merge (cfg : Config) (mc : MatcherCfg) (hc : RelabelCfgMerge cfg mc) (bits bits' : Nat) (s : List Nat)
    (pred ref : Flat) (σ τ : Lab → Lab) (hσ : Renaming σ pred) (hτ : Renaming τ ref)
    (hlen : pred.length = ref.length)
    (hb : ∀ x ∈ pred ++ ref, x < 2 ^ 32 - 1) (hb' : ∀ x ∈ pred.map σ ++ ref.map τ, x < 2 ^ 32 - 1)
    (hp : labelsOf pred ≠ []) (hr : labelsOf ref ≠ [])
    (hdist : DistinctScores (scoredCands mc.metric ⟨s, pred⟩ ⟨s, ref⟩))
    (out out' : PipeOut) (h : pipeline cfg bits ⟨s, pred⟩ ⟨s, ref⟩ = .ok out)
    (h' : pipeline cfg bits' ⟨s, pred.map σ⟩ ⟨s, ref.map τ⟩ = .ok out') :
    out'.tp = out.tp ∧ out'.nRef = out.nRef ∧ out'.nPred = out.nPred ∧
    ∀ m ∈ cfg.evalMetrics, ∀ vals vals', (m, vals) ∈ out.lists → (m, vals') ∈ out'.lists → vals.Perm vals' := by
  exact RelabelMerge.pipeline_rename_merge_core cfg mc hc.input hc.matcher hc.kind hc.mmetric
    bits bits' s pred ref σ τ hσ.zero hτ.zero hσ.nonzero hτ.nonzero hσ.inj hτ.inj hlen hb hb' hp hr hdist
    out out' h h'

/-- non-vacuity: three candidates with three different scores -/
example : DistinctScores [⟨.exact (1/2), 1, 1⟩, ⟨.exact (1/3), 1, 2⟩, ⟨.exact (3/4), 2, 3⟩] := by
  unfold DistinctScores
  simp only [List.pairwise_cons, List.mem_cons, List.not_mem_nil, or_false, forall_eq_or_imp, forall_eq,
    ne_eq, Score.exact.injEq, List.Pairwise.nil, and_true, false_imp_iff, implies_true]
  norm_num

end Panoptica.C09
