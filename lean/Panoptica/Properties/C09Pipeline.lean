/-
  C09 (end to end) — for unmatched instance input and one-to-one threshold matching on IoU or Dice, renaming
  the prediction labels and the reference labels by arbitrary injective maps (any values below 2^32 - 1, any
  order) and changing the integer width of the arrays leaves the instance counts and tp unchanged and
  permutes each per-instance list (IoU, Dice, RVD, ASSD alike: the selected voxel sets are the same) —
  whenever the matching is determined by the scores (`C03.Determined`). Candidate discovery and the
  stable best-first sort visit the candidates in an order that depends on the label values, so with ties
  the answer may legitimately change; without ties the valid matching is unique (`C03.unique`).
-/
import Panoptica.Proofs.RelabelE2E
import Panoptica.Properties.C11Pipeline
import Panoptica.Properties.C09
namespace Panoptica.C09
open Panoptica

/-- an injective renaming of the labels occurring in `a` that keeps the background -/
structure Renaming (σ : Lab → Lab) (a : Flat) : Prop where
  zero : σ 0 = 0
  nonzero : ∀ x ∈ a, x ≠ 0 → σ x ≠ 0
  inj : ∀ x ∈ a, ∀ y ∈ a, σ x = σ y → x = y

/-- configurations covered: unmatched instance input, one-to-one threshold matcher on IoU / Dice with a
    rational threshold; any instance metrics, any decision setting -/
structure RelabelCfg (cfg : Config) (mc : MatcherCfg) : Prop where
  input : cfg.input = .UNMATCHED
  matcher : cfg.matcher = some mc
  kind : mc.kind = .naive false
  mmetric : mc.metric = .IOU ∨ mc.metric = .DSC
  thrExact : ∃ q, mc.thr = .exact q

/-- every metric of a pair of instances is unchanged by the renaming (the selected voxel sets are the same) -/
theorem metricOn_rename (m : Metric) (s : List Nat) (pred ref : Flat) (σ τ : Lab → Lab)
    (hσ : Renaming σ pred) (hτ : Renaming τ ref) (r p : Lab) (hr : r ∈ ref) (hp : p ∈ pred) (hr0 : r ≠ 0) (hp0 : p ≠ 0) :
    metricOn m ⟨s, pred.map σ⟩ ⟨s, ref.map τ⟩ (τ r) [σ p] = metricOn m ⟨s, pred⟩ ⟨s, ref⟩ r [p] := by
  have _ := hr0; have _ := hp0
  exact RelabelE2E.metricOn_rename_core m s pred ref σ τ hσ.inj hτ.inj r p hr hp

/-- the candidates of the renamed pair are the renamed candidates (same scores), up to order -/
theorem scoredCands_rename (m : Metric) (s : List Nat) (pred ref : Flat) (σ τ : Lab → Lab)
    (hσ : Renaming σ pred) (hτ : Renaming τ ref) (hlen : pred.length = ref.length)
    (hb : ∀ x ∈ pred ++ ref, x < 2 ^ 32 - 1) (hb' : ∀ x ∈ pred.map σ ++ ref.map τ, x < 2 ^ 32 - 1) :
    (scoredCands m ⟨s, pred.map σ⟩ ⟨s, ref.map τ⟩).Perm ((scoredCands m ⟨s, pred⟩ ⟨s, ref⟩).map (relabelCand σ τ)) := by
  have _ := hlen
  exact RelabelE2E.scoredCands_rename_core m s pred ref σ τ hσ.zero hτ.zero hσ.nonzero hτ.nonzero
    hσ.inj hτ.inj hb hb'

/-- end to end -/
theorem pipeline_rename (cfg : Config) (mc : MatcherCfg) (hc : RelabelCfg cfg mc) (bits bits' : Nat) (s : List Nat)
    (pred ref : Flat) (σ τ : Lab → Lab) (hσ : Renaming σ pred) (hτ : Renaming τ ref)
    (hlen : pred.length = ref.length)
    (hb : ∀ x ∈ pred ++ ref, x < 2 ^ 32 - 1) (hb' : ∀ x ∈ pred.map σ ++ ref.map τ, x < 2 ^ 32 - 1)
    (hp : labelsOf pred ≠ []) (hr : labelsOf ref ≠ [])
    (hdet : C03.Determined Score.le mc.metric.decreasing mc.thr (scoredCands mc.metric ⟨s, pred⟩ ⟨s, ref⟩))
    (out out' : PipeOut) (h : pipeline cfg bits ⟨s, pred⟩ ⟨s, ref⟩ = .ok out)
    (h' : pipeline cfg bits' ⟨s, pred.map σ⟩ ⟨s, ref.map τ⟩ = .ok out') :
    out'.tp = out.tp ∧ out'.nRef = out.nRef ∧ out'.nPred = out.nPred ∧
    ∀ m ∈ cfg.evalMetrics, ∀ vals vals', (m, vals) ∈ out.lists → (m, vals') ∈ out'.lists → vals.Perm vals' := by
  exact RelabelE2E.pipeline_rename_core cfg mc hc.input hc.matcher hc.kind hc.mmetric hc.thrExact
    bits bits' s pred ref σ τ hσ.zero hτ.zero hσ.nonzero hτ.nonzero hσ.inj hτ.inj hlen hb hb' hp hr hdet
    out out' h h'

/-- non-vacuity: swapping the names 1 and 2 and moving 5 to 70000 is a renaming of this array -/
example : Renaming (fun x => if x = 1 then 2 else if x = 2 then 1 else if x = 5 then 70000 else x) [1, 0, 2, 5, 5] := by
  refine ⟨by decide, ?_, ?_⟩ <;> decide

end Panoptica.C09
