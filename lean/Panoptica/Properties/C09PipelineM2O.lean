/-
  C09 (end to end), many-to-one threshold matching (`allow_many_to_one=True`) — renaming the prediction labels and the
  reference labels by arbitrary injective maps and changing the integer width leaves the instance counts (incl. the number
  of prediction instances *after* predictions assigned to one reference were joined) and tp unchanged and permutes each
  per-instance list, whenever no prediction has two equally good eligible candidates (`C03.DeterminedM2O`): then the
  many-to-one assignment is unique (`C03.unique_m2o`), so both runs assign corresponding predictions to corresponding
  references, and the relabelled arrays are the same up to a renaming of labels.
-/
import Panoptica.Properties.C09Pipeline
import Panoptica.Properties.C03UniqueM2O
import Panoptica.Proofs.RelabelM2O
namespace Panoptica.C09
open Panoptica

/-- configurations covered: unmatched instance input, many-to-one threshold matcher on IoU / Dice with a rational
    threshold; any instance metrics, any decision setting -/
structure RelabelCfgM2O (cfg : Config) (mc : MatcherCfg) : Prop where
  input : cfg.input = .UNMATCHED
  matcher : cfg.matcher = some mc
  kind : mc.kind = .naive true
  mmetric : mc.metric = .IOU ∨ mc.metric = .DSC
  thrExact : ∃ q, mc.thr = .exact q

/-- end to end -/
theorem pipeline_rename_m2o (cfg : Config) (mc : MatcherCfg) (hc : RelabelCfgM2O cfg mc) (bits bits' : Nat) (s : List Nat)
    (pred ref : Flat) (σ τ : Lab → Lab) (hσ : Renaming σ pred) (hτ : Renaming τ ref)
    (hlen : pred.length = ref.length)
    (hb : ∀ x ∈ pred ++ ref, x < 2 ^ 32 - 1) (hb' : ∀ x ∈ pred.map σ ++ ref.map τ, x < 2 ^ 32 - 1)
    (hp : labelsOf pred ≠ []) (hr : labelsOf ref ≠ [])
    (hdet : C03.DeterminedM2O Score.le mc.metric.decreasing mc.thr (scoredCands mc.metric ⟨s, pred⟩ ⟨s, ref⟩))
    (out out' : PipeOut) (h : pipeline cfg bits ⟨s, pred⟩ ⟨s, ref⟩ = .ok out)
    (h' : pipeline cfg bits' ⟨s, pred.map σ⟩ ⟨s, ref.map τ⟩ = .ok out') :
    out'.tp = out.tp ∧ out'.nRef = out.nRef ∧ out'.nPred = out.nPred ∧
    ∀ m ∈ cfg.evalMetrics, ∀ vals vals', (m, vals) ∈ out.lists → (m, vals') ∈ out'.lists → vals.Perm vals' := by
  exact RelabelM2O.pipeline_rename_m2o_core cfg mc hc.input hc.matcher hc.kind hc.mmetric hc.thrExact
    bits bits' s pred ref σ τ hσ.zero hτ.zero hσ.nonzero hτ.nonzero hσ.inj hτ.inj hlen hb hb' hp hr hdet
    out out' h h'

/-- non-vacuity: a covered configuration -/
example : RelabelCfgM2O { C11.exCfg with matcher := some { kind := .naive true, metric := .IOU, thr := .exact (1/4) } }
    { kind := .naive true, metric := .IOU, thr := .exact (1/4) } := by
  exact ⟨rfl, rfl, rfl, .inl rfl, ⟨_, rfl⟩⟩

end Panoptica.C09
