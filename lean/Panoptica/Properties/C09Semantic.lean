/-
  C09, for *semantic* input, end to end and for every configuration — renaming the semantic labels of the
  prediction and of the reference by injective maps that keep the background (any values, any order, the two maps
  renamed independently) does not change the result at all: the components of a map depend on which voxels are
  foreground and (cc3d) on which voxels carry *equal* labels, never on the label values; the numbering of the
  components follows the voxel order, which a renaming leaves alone. So the labelled arrays and the counts are the
  same, and everything after them is the same computation. No hypothesis on matcher, metrics, ties or widths.
-/
import Panoptica.Properties.C09Pipeline
import Panoptica.Properties.C10Semantic
import Panoptica.Proofs.RenameSemantic
namespace Panoptica.C09
open Panoptica

/-- the component labelling ignores the label values -/
theorem components_rename (b : Backend) (a : Arr) (σ : Lab → Lab) (h : Renaming σ a.data) :
    connectedComponents b { a with data := a.data.map σ } = connectedComponents b a := by
  exact RenameSemantic.components_rename_core b a σ h

/-- the whole pipeline on semantic input ignores the label values (and the integer width) -/
theorem pipeline_rename_semantic (cfg : Config) (hin : cfg.input = .SEMANTIC) (bits bits' : Nat) (pred ref : Arr)
    (σ τ : Lab → Lab) (hσ : Renaming σ pred.data) (hτ : Renaming τ ref.data) :
    pipeline cfg bits' { pred with data := pred.data.map σ } { ref with data := ref.data.map τ } =
      pipeline cfg bits pred ref := by
  exact RenameSemantic.pipeline_rename_semantic_core cfg hin bits bits' pred ref σ τ hσ hτ

/-- non-vacuity: exchanging the labels 1 and 2 and sending 3 near the top of 24 bits is a renaming of a map that
    carries all three, and the cc3d components of that map do distinguish the labels -/
example : Renaming (fun x => if x = 1 then 2 else if x = 2 then 1 else if x = 3 then 2 ^ 24 - 1 else x) [1, 2, 0, 3] := by
  refine ⟨by decide, ?_, ?_⟩ <;> decide

example : (connectedComponents .cc3d ⟨[1, 4], [1, 2, 0, 3]⟩).2 = 3 ∧
    (connectedComponents .scipy ⟨[1, 4], [1, 2, 0, 3]⟩).2 = 2 := by
  decide

end Panoptica.C09
