/-
  C10 — results are invariant under padding, translation, flips and axis permutation.
  Three layers: (1) the bounding-box / crop arithmetic of the code (`_get_bbox_nd`, slicing) keeps
  every foreground voxel and only translates coordinates; (2) every count the metrics are built
  from is a function of the multiset of (pred, ref) label pairs at foreground positions, hence
  invariant under any rearrangement of voxels and under adding/removing background-only positions;
  (3) connectivity (`Reach`) and border distances are transported by grid isometries (C07).
-/
import Panoptica.Proofs.Crop
import Panoptica.Proofs.Metrics
import Panoptica.Spec.Transforms
import Panoptica.Model.Overlap
namespace Panoptica.C10
open Panoptica Panoptica.Spec

/-! ### (1) bounding box and crop -/

/-- a coordinate lies inside an array of the given shape -/
def inShape (shape : List Nat) (c : Coord) : Prop :=
  c.length = shape.length ∧ ∀ i (h : i < shape.length), 0 ≤ c.getD i 0 ∧ c.getD i 0 < (shape.getD i 0 : Int)

/-- the padded, clipped bounding box contains every voxel it was computed from, for every padding -/
theorem bbox_contains (shape : List Nat) (sup : List Coord) (pad : Nat)
    (hs : ∀ c ∈ sup, inShape shape c) :
    ∀ c ∈ sup, inBox ((bboxNd shape sup pad).clip shape) c = true := by
  intro c hc
  obtain ⟨hcl, hcb⟩ := hs c hc
  rw [inBox, List.all_eq_true]
  intro x hx
  rw [List.mem_iff_getElem] at hx
  obtain ⟨i, hi, rfl⟩ := hx
  rw [List.length_zip, clip_bbox_length] at hi
  have hi1 : i < shape.length := by omega
  have hi2 : i < c.length := by omega
  rw [List.getElem_zip, clip_bbox_getElem shape sup pad i _ hi1]
  have hb := hcb i hi1
  have hmem : (c.getD i 0).toNat ∈ axisVals sup i := List.mem_map.2 ⟨c, hc, rfl⟩
  have h1 := minOf_le_mem _ _ hmem
  have h2 := mem_le_maxOf _ _ hmem
  simp only [List.getD_eq_getElem?_getD, List.getElem?_eq_getElem hi1,
    List.getElem?_eq_getElem hi2, Option.getD_some] at hb h1 h2
  simp only [Bool.and_eq_true, decide_eq_true_eq]
  omega

/-- the clipped box lies inside the array -/
theorem bbox_in_array (shape : List Nat) (sup : List Coord) (pad : Nat) :
    ∀ p ∈ ((bboxNd shape sup pad).clip shape).zip shape, p.1.2 ≤ p.2 := by
  intro p hp
  rw [List.mem_iff_getElem] at hp
  obtain ⟨i, hi, rfl⟩ := hp
  rw [List.length_zip, clip_bbox_length] at hi
  have hi1 : i < shape.length := by omega
  rw [List.getElem_zip, clip_bbox_getElem shape sup pad i _ hi1]
  simp only
  omega

/-- the coordinates of a box inside an array, in raster order, are the raster coordinates of the
    box's own shape translated by the box origin -/
theorem allCoords_box (shape : List Nat) (b : Box) (hlen : b.length = shape.length)
    (hin : ∀ p ∈ b.zip shape, p.1.1 ≤ p.1.2 ∧ p.1.2 ≤ p.2) :
    (allCoords shape).filter (inBox b) =
      (allCoords (b.map (fun p => p.2 - p.1))).map (translate (b.map (fun p => (p.1 : Int)))) := by
  exact allCoords_box_aux shape b hlen hin

/-- crop lemma: cropping an array to a box that contains all of its foreground keeps exactly the
    foreground voxels, with coordinates translated by the box origin -/
theorem crop_fg (a : Arr) (b : Box) (hdata : a.data.length = shapeSize a.shape)
    (hlen : b.length = a.shape.length)
    (hin : ∀ p ∈ b.zip a.shape, p.1.1 ≤ p.1.2 ∧ p.1.2 ≤ p.2)
    (hfg : ∀ v ∈ a.fg, inBox b v.1 = true) :
    (a.crop b).fg.map (fun v => (translate (b.map (fun p => (p.1 : Int))) v.1, v.2)) = a.fg := by
  exact crop_fg_aux a b hdata hlen hin hfg

/-! ### (2) counts depend only on the multiset of foreground label pairs -/

/-- the label pairs at positions where at least one map is foreground -/
def fgPairs (pred ref : Flat) : List (Lab × Lab) := (pred.zip ref).filter (fun z => z.1 != 0 || z.2 != 0)

/-- intersection size of instance `p` of the prediction with instance `r` of the reference is a
    count over the foreground pairs -/
theorem ovCount_fgPairs (pred ref : Flat) (r p : Lab) (h : r ≠ 0 ∨ p ≠ 0) :
    ovCount pred ref r p = ((fgPairs pred ref).filter (fun z => z.1 == p && z.2 == r)).length := by
  rw [ovCount_eq_zip, fgPairs, List.filter_filter]
  congr 1
  apply List.filter_congr
  intro z _
  by_cases h1 : z.1 = p <;> by_cases h2 : z.2 = r <;> simp [h1, h2]
  subst h1 h2
  exact h.symm

/-- instance sizes are counts over the foreground pairs -/
theorem cnt_fgPairs (pred ref : Flat) (hlen : pred.length = ref.length) (l : Lab) (hl : l ≠ 0) :
    cnt pred l = ((fgPairs pred ref).filter (fun z => z.1 == l)).length ∧
    cnt ref l = ((fgPairs pred ref).filter (fun z => z.2 == l)).length := by
  rw [cnt_eq_zip_fst pred ref hlen, cnt_eq_zip_snd pred ref hlen, fgPairs, List.filter_filter,
    List.filter_filter]
  constructor
  · congr 1
    apply List.filter_congr
    intro z _
    by_cases h1 : z.1 = l <;> simp [h1]
    exact Or.inl hl
  · congr 1
    apply List.filter_congr
    intro z _
    by_cases h1 : z.2 = l <;> simp [h1]
    exact Or.inr hl

/-- two pairs of maps whose foreground label pairs are a rearrangement of each other (flips, axis
    permutations, translations, padding, cropping of shared empty margins all produce such pairs)
    have the same instance sizes and the same intersection sizes, hence the same IoU, Dice and RVD
    for every pair of instances and the same candidate pairs -/
theorem counts_invariant (pred ref pred' ref' : Flat)
    (hlen : pred.length = ref.length) (hlen' : pred'.length = ref'.length)
    (hperm : (fgPairs pred ref).Perm (fgPairs pred' ref')) (r p : Lab) (h : r ≠ 0 ∨ p ≠ 0) :
    ovCount pred ref r p = ovCount pred' ref' r p ∧
    (p ≠ 0 → cnt pred p = cnt pred' p) ∧ (r ≠ 0 → cnt ref r = cnt ref' r) := by
  refine ⟨?_, ?_, ?_⟩
  · rw [ovCount_fgPairs pred ref r p h, ovCount_fgPairs pred' ref' r p h]
    exact (hperm.filter _).length_eq
  · intro hp
    rw [(cnt_fgPairs pred ref hlen p hp).1, (cnt_fgPairs pred' ref' hlen' p hp).1]
    exact (hperm.filter _).length_eq
  · intro hr
    rw [(cnt_fgPairs pred ref hlen r hr).2, (cnt_fgPairs pred' ref' hlen' r hr).2]
    exact (hperm.filter _).length_eq

/-- IoU / Dice / RVD of a selected pair of instances are functions of these counts -/
theorem iouSel_counts (pred ref : Flat) (hlen : pred.length = ref.length) (r p : Lab) (hr : r ≠ 0) (hp : p ≠ 0) :
    iouSel ref pred r [p] =
      (if cnt ref r + cnt pred p - ovCount pred ref r p = 0 then 0
       else (ovCount pred ref r p : Rat) / ((cnt ref r + cnt pred p - ovCount pred ref r p : Nat) : Rat)) := by
  have hl : (selRef ref r).length = (selPred pred [p]).length := by
    simp [selRef, selPred, hlen]
  have hie := card_incl_excl _ _ hl
  rw [card_selRef, card_selPred_single, cardInter_sel] at hie
  have hu : cardUnion (selRef ref r) (selPred pred [p]) =
      cnt ref r + cnt pred p - ovCount pred ref r p := by omega
  simp only [iouSel, selectPair, iou, interCount_maskVals, unionCount_maskVals, cardInter_sel, hu,
    beq_iff_eq]

/-! ### (3) connectivity is transported by adjacency-preserving injective maps -/

theorem reach_map {α β : Type} (adj : α → α → Bool) (adj' : β → β → Bool) (f : α → β) (V : List α)
    (hadj : ∀ a b, a ∈ V → b ∈ V → adj' (f a) (f b) = adj a b) (a b : α) (h : Reach adj V a b) :
    Reach adj' (V.map f) (f a) (f b) := by
  induction h with
  | refl ha => exact Reach.refl _ (List.mem_map_of_mem ha)
  | step hab hc hbc ih =>
    refine Reach.step ih (List.mem_map_of_mem hc) ?_
    rw [hadj _ _ (reach_mem _ _ _ _ hab).2 hc]; exact hbc

theorem reach_map_iff {α β : Type} (adj : α → α → Bool) (adj' : β → β → Bool) (f : α → β) (V : List α)
    (hinj : ∀ a b, a ∈ V → b ∈ V → f a = f b → a = b)
    (hadj : ∀ a b, a ∈ V → b ∈ V → adj' (f a) (f b) = adj a b) (a b : α) (ha : a ∈ V) (hb : b ∈ V) :
    Reach adj' (V.map f) (f a) (f b) ↔ Reach adj V a b := by
  constructor
  · intro h
    have key : ∀ x y, Reach adj' (V.map f) x y → ∀ a ∈ V, f a = x → ∀ b ∈ V, f b = y →
        Reach adj V a b := by
      intro x y hxy
      induction hxy with
      | refl _ =>
        intro a ha hax b hb hbx
        have := hinj a b ha hb (hax.trans hbx.symm)
        subst this
        exact Reach.refl _ ha
      | @step y' c hxy' hc hyc ih =>
        intro a ha hax b hb hbc
        obtain ⟨b', hb', hfb'⟩ := List.mem_map.1 (reach_mem _ _ _ _ hxy').2
        have h1 := ih a ha hax b' hb' hfb'
        refine Reach.step h1 hb ?_
        rw [← hadj b' b hb' hb, hfb', hbc]; exact hyc
    exact key _ _ h a ha rfl b hb rfl
  · exact reach_map adj adj' f V hadj a b

/-- grid isometries preserve both adjacencies -/
theorem isometry_faceAdj (n : Nat) (f : Coord → Coord) (hf : GridIsometry f n) (a b : Coord)
    (ha : a.length = n) (hb : b.length = n) : faceAdj (f a) (f b) = faceAdj a b := by
  rw [faceAdj_eq_sqDist, faceAdj_eq_sqDist, hf.dist a b ha hb, hf.len a ha, hf.len b hb, ha, hb]

/-- full (8/26) adjacency is "squared distance between 1 and the dimension with every axis
    differing by at most 1"; it is preserved by translations, flips and axis swaps -/
theorem translate_fullAdj (t a b : Coord) (ha : a.length = t.length) (hb : b.length = t.length) :
    fullAdj (translate t a) (translate t b) = fullAdj a b := by
  refine fullAdj_transport a b _ _ id (ha.trans hb.symm) ?_ ?_ (fun _ h => h) (fun _ _ => rfl) ?_
  · simp [translate, ha]
  · simp [translate, ha, hb]
  · intro l hl
    rw [translate_getD t a ha l hl, translate_getD t b hb l (by omega)]
    simp only [id]
    omega

theorem flipAxis_fullAdj (k : Nat) (m : Int) (a b : Coord) (h : a.length = b.length) :
    fullAdj (flipAxis k m a) (flipAxis k m b) = fullAdj a b := by
  refine fullAdj_transport a b _ _ id h ?_ ?_ (fun _ h => h) (fun _ _ => rfl) ?_
  · simp [flipAxis]
  · simp [flipAxis, h]
  · intro l hl
    rw [flipAxis_getD k m a l hl, flipAxis_getD k m b l (by omega)]
    simp only [id]
    split
    · subst_vars; omega
    · rfl

theorem swapAxes_fullAdj (i j : Nat) (a b : Coord) (h : a.length = b.length) (hi : i < a.length) (hj : j < a.length) :
    fullAdj (swapAxes i j a) (swapAxes i j b) = fullAdj a b := by
  refine fullAdj_transport a b _ _ (swapIdx i j) h ?_ ?_ ?_ ?_ ?_
  · simp [swapAxes]
  · simp [swapAxes, h]
  · intro l hl; unfold swapIdx; split
    · exact hi
    · split
      · exact hj
      · exact hl
  · intro l hl; unfold swapIdx; grind
  · intro l hl
    rw [swapAxes_getD i j a hi hj l hl, swapAxes_getD i j b (h ▸ hi) (h ▸ hj) l (h ▸ hl)]

/-- non-vacuity: bounding box of two voxels in a 5x6 array with the code's padding 2 -/
example : (bboxNd [5, 6] [[1, 2], [3, 2]] 2).clip [5, 6] = [(0, 5), (0, 5)] := by decide

end Panoptica.C10
