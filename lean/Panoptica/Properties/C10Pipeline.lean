/-
  C10 (end to end, count-based part) — for matched and unmatched instance input, the threshold
  matcher with IoU or Dice, and the count-based metrics IoU / Dice / RVD, everything the pipeline
  reports is a function of the multiset of (prediction label, reference label) pairs at foreground
  positions. Padding, cropping of shared empty margins, translation, mirroring an axis and
  permuting the axes (of both arrays identically, in any memory layout) all leave that multiset
  unchanged, hence leave every reported count, tp/fp/fn, per-instance value and the label map
  unchanged.  (Semantic input and ASSD are covered by the transport theorems of C10 / C07 / C05.)
-/
import Panoptica.Proofs.Invariance
import Panoptica.Properties.C10
namespace Panoptica.C10
open Panoptica

/-- what the pipeline reports (the relabelled array itself is an intermediate, not a result) -/
def report (o : PipeOut) : Nat × Nat × Nat × List (Metric × List Score) × Option LMap :=
  (o.nRef, o.nPred, o.tp, o.lists, o.lmap)

def countMetric (m : Metric) : Prop := m = .IOU ∨ m = .DSC ∨ m = .RVD

/-- configurations whose every ingredient is count-based -/
structure CountBased (cfg : Config) : Prop where
  input : cfg.input = .MATCHED ∨ cfg.input = .UNMATCHED
  metrics : ∀ m ∈ cfg.evalMetrics, countMetric m
  matcher : ∀ mc, cfg.matcher = some mc → (∃ m2o, mc.kind = .naive m2o) ∧ (mc.metric = .IOU ∨ mc.metric = .DSC)
  decision : ∀ d, cfg.decision = some d → (d.1 = .IOU ∨ d.1 = .DSC)

/-- the distinct non-zero labels of both maps are determined by the foreground pairs -/
theorem labelsOf_fgPairs (pred ref pred' ref' : Flat) (hlen : pred.length = ref.length) (hlen' : pred'.length = ref'.length)
    (hperm : (fgPairs pred ref).Perm (fgPairs pred' ref')) :
    labelsOf pred = labelsOf pred' ∧ labelsOf ref = labelsOf ref' := by
  exact labelsOf_fgPairs_aux pred ref pred' ref' hlen hlen' hperm

/-- the candidate pairs are determined by the foreground pairs -/
theorem overlapPairs_fgPairs (pred ref pred' ref' : Flat) (hlen : pred.length = ref.length) (hlen' : pred'.length = ref'.length)
    (hperm : (fgPairs pred ref).Perm (fgPairs pred' ref')) :
    overlapPairs pred ref (labelsOf ref) = overlapPairs pred' ref' (labelsOf ref') := by
  exact overlapPairs_fgPairs_aux pred ref pred' ref' hlen hlen' hperm

/-- IoU / Dice / RVD of a reference instance against a prediction instance are determined by them -/
theorem metricOn_fgPairs (m : Metric) (hm : countMetric m) (s s' : List Nat) (pred ref pred' ref' : Flat)
    (hlen : pred.length = ref.length) (hlen' : pred'.length = ref'.length)
    (hperm : (fgPairs pred ref).Perm (fgPairs pred' ref')) (r p : Lab) (hr : r ≠ 0) (hp : p ≠ 0) :
    metricOn m ⟨s, pred⟩ ⟨s, ref⟩ r [p] = metricOn m ⟨s', pred'⟩ ⟨s', ref'⟩ r [p] := by
  exact metricOn_fgPairs_aux m hm s s' pred ref pred' ref' hlen hlen' hperm r p hr hp

/-- end to end: same multiset of foreground label pairs ⇒ same report -/
theorem pipeline_counts_invariant (cfg : Config) (hc : CountBased cfg) (bits : Nat) (s s' : List Nat)
    (pred ref pred' ref' : Flat) (hlen : pred.length = ref.length) (hlen' : pred'.length = ref'.length)
    (hb : ∀ x ∈ pred ++ ref ++ pred' ++ ref', x < 2 ^ 32 - 1)
    (hperm : (fgPairs pred ref).Perm (fgPairs pred' ref')) :
    (pipeline cfg bits ⟨s, pred⟩ ⟨s, ref⟩).map report = (pipeline cfg bits ⟨s', pred'⟩ ⟨s', ref'⟩).map report := by
  rcases hc.input with hin | hin
  · rw [C01.pipeline_matched cfg bits ⟨s, pred⟩ ⟨s, ref⟩ hin,
      C01.pipeline_matched cfg bits ⟨s', pred'⟩ ⟨s', ref'⟩ hin]
    exact evalPhase_fgPairs cfg hc.metrics s s' pred ref pred' ref' hlen hlen' hperm none none none
  · exact pipeline_unmatched_fgPairs cfg hin hc.metrics hc.matcher bits s s' pred ref pred' ref'
      hlen hlen' hb hperm

/-- non-vacuity: a concrete count-based configuration, and a 1×3 scene next to its padded and
    mirrored 1×5 version with the same foreground pairs in another order -/
def exCfg : Config where
  input := .UNMATCHED
  backend := none
  matcher := some { kind := .naive false, metric := .IOU, thr := .exact (1/2) }
  evalMetrics := [.IOU, .DSC, .RVD]
  decision := some (.IOU, .exact (1/2))
  handler := { table := [], emptyListStd := .NAN }

example : CountBased exCfg :=
  ⟨Or.inr rfl, by simp [exCfg, countMetric], by simp [exCfg], by simp [exCfg]⟩

example : (fgPairs [1, 1, 2] [1, 0, 2]).Perm (fgPairs [0, 2, 1, 1, 0] [0, 2, 0, 1, 0]) := by decide

end Panoptica.C10
