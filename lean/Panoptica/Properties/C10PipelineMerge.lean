/-
  C10 (end to end, count-based part) for the *merge* matcher — with `MaximizeMergeMatching` on IoU or Dice and the
  count-based instance metrics, everything the pipeline reports is again a function of the multiset of
  (prediction label, reference label) pairs at foreground positions: the candidate list is the same list (same labels, same
  scores, same discovery order, since discovery sorts pair codes), the combined score of a reference against a *set* of
  predictions is a ratio of voxel counts, so every decision of the merge loop is the same, ties included.
  Hence padding, cropping of shared empty margins, translation, mirroring and axis permutation (applied to both maps)
  leave every reported count, tp/fp/fn, per-instance value and the label map unchanged.
-/
import Panoptica.Properties.C10Pipeline
import Panoptica.Proofs.InvarianceMerge
namespace Panoptica.C10
open Panoptica

/-- configurations: instance input, count-based instance metrics, the merge matcher on IoU / Dice, count-based decision -/
structure CountBasedMerge (cfg : Config) : Prop where
  input : cfg.input = .MATCHED ∨ cfg.input = .UNMATCHED
  metrics : ∀ m ∈ cfg.evalMetrics, countMetric m
  matcher : ∀ mc, cfg.matcher = some mc → mc.kind = .merge ∧ (mc.metric = .IOU ∨ mc.metric = .DSC)
  decision : ∀ d, cfg.decision = some d → (d.1 = .IOU ∨ d.1 = .DSC)

/-- IoU / Dice / RVD of a reference instance against a *set* of prediction instances are determined by the pairs -/
theorem metricOn_fgPairs_list (m : Metric) (hm : countMetric m) (s s' : List Nat) (pred ref pred' ref' : Flat)
    (hlen : pred.length = ref.length) (hlen' : pred'.length = ref'.length)
    (hperm : (fgPairs pred ref).Perm (fgPairs pred' ref')) (r : Lab) (ps : List Lab) (hr : r ≠ 0) (hps : ∀ p ∈ ps, p ≠ 0) :
    metricOn m ⟨s, pred⟩ ⟨s, ref⟩ r ps = metricOn m ⟨s', pred'⟩ ⟨s', ref'⟩ r ps := by
  exact InvarianceMerge.metricOn_fgPairs_list_aux m hm s s' pred ref pred' ref' hlen hlen' hperm r ps hr hps

/-- end to end: same multiset of foreground label pairs ⇒ same report, merge matcher -/
theorem pipeline_counts_invariant_merge (cfg : Config) (hc : CountBasedMerge cfg) (bits : Nat) (s s' : List Nat)
    (pred ref pred' ref' : Flat) (hlen : pred.length = ref.length) (hlen' : pred'.length = ref'.length)
    (hb : ∀ x ∈ pred ++ ref ++ pred' ++ ref', x < 2 ^ 32 - 1)
    (hperm : (fgPairs pred ref).Perm (fgPairs pred' ref')) :
    (pipeline cfg bits ⟨s, pred⟩ ⟨s, ref⟩).map report = (pipeline cfg bits ⟨s', pred'⟩ ⟨s', ref'⟩).map report := by
  rcases hc.input with hin | hin
  · rw [C01.pipeline_matched cfg bits ⟨s, pred⟩ ⟨s, ref⟩ hin,
      C01.pipeline_matched cfg bits ⟨s', pred'⟩ ⟨s', ref'⟩ hin]
    exact evalPhase_fgPairs cfg hc.metrics s s' pred ref pred' ref' hlen hlen' hperm none none none
  · exact InvarianceMerge.pipeline_unmatched_fgPairs_merge cfg hin hc.metrics hc.matcher bits s s' pred ref
      pred' ref' hlen hlen' hb hperm

/-- non-vacuity: a covered configuration -/
example : CountBasedMerge { exCfg with matcher := some { kind := .merge, metric := .DSC, thr := .exact (1/2) } } := by
  exact ⟨Or.inr rfl, by simp [exCfg, countMetric], by simp, by simp [exCfg]⟩

end Panoptica.C10
