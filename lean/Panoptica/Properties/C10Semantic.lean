/-
  C10 (semantic input, end to end) — results are invariant under padding, translation, flips and
  axis permutation also when the instances are first approximated by connected components.
  Level 1: the component numbering `ccLabel` of a graph and of a rearranged injective image of it
  (adjacency preserved) induce the same partition, have the same count, and differ by a renaming of
  the numbers 1..n.  Level 2: for arrays whose foreground voxels are carried onto each other by a
  coordinate map that preserves the backend's adjacency (grid isometries for scipy / face
  connectivity; translations — hence padding and cropping —, flips and axis swaps for cc3d / full
  connectivity), the labelled array of the image is the image of the labelled array up to that
  renaming.  Level 3: for SEMANTIC input, the one-to-one threshold matcher on IoU / Dice and the
  count-based instance metrics, the pipeline reports the same tp and instance counts and the same
  per-instance values up to order for the transformed pair — whenever the matching is determined by
  the scores (`C03.Determined`): the renaming is handled by `C09.pipeline_rename`, the spatial
  rearrangement by `C10.pipeline_counts_invariant`.
-/
import Panoptica.Proofs.SemanticE2E
namespace Panoptica.C10
open Panoptica Panoptica.Spec

/-! ### Level 1: partition equivariance of the component numbering -/

/-- the vertex list `V'` is a rearrangement of the image of `V` under `g`, which is injective on `V`
    and carries the adjacency `adj` on `V` to `adj'` -/
structure GraphImage {α β : Type} (adj : α → α → Bool) (adj' : β → β → Bool) (g : α → β)
    (V : List α) (V' : List β) : Prop where
  inj : ∀ a ∈ V, ∀ b ∈ V, g a = g b → a = b
  adj : ∀ a ∈ V, ∀ b ∈ V, adj' (g a) (g b) = adj a b
  perm : V'.Perm (V.map g)

/-- `ρ` permutes the numbers `1..n` and fixes the background number 0 (and only it) -/
structure Renumbering (n : Nat) (ρ : Nat → Nat) : Prop where
  zero : ∀ k, ρ k = 0 ↔ k = 0
  range : ∀ k, 1 ≤ k → k ≤ n → 1 ≤ ρ k ∧ ρ k ≤ n
  inj : ∀ k l, 1 ≤ k → k ≤ n → 1 ≤ l → l ≤ n → ρ k = ρ l → k = l
  surj : ∀ k', 1 ≤ k' → k' ≤ n → ∃ k, 1 ≤ k ∧ k ≤ n ∧ ρ k = k'

section generic
variable {α β : Type} [BEq α] [LawfulBEq α] [BEq β] [LawfulBEq β]
  (adj : α → α → Bool) (adj' : β → β → Bool) (g : α → β) (V : List α) (V' : List β)

/-- reachability does not depend on the order in which the vertices are listed -/
theorem reach_order_irrelevant (V₁ V₂ : List α) (hp : V₂.Perm V₁) (a b : α) :
    Reach adj V₂ a b ↔ Reach adj V₁ a b := by
  exact SemanticE2E.reach_perm hp a b

/-- reachability in the rearranged image is reachability in the original graph -/
theorem reach_image (h : GraphImage adj adj' g V V') (a b : α) (ha : a ∈ V) (hb : b ∈ V) :
    Reach adj' V' (g a) (g b) ↔ Reach adj V a b := by
  exact SemanticE2E.reach_transport adj adj' g V V' (fun a b ha hb => h.inj a ha b hb)
    (fun a b ha hb => h.adj a ha b hb) h.perm a b ha hb

/-- the two numberings induce the same partition: `a`, `b` carry the same number exactly when
    their images do -/
theorem cc_partition (hsymm : ∀ a b, adj a b = adj b a) (hsymm' : ∀ a b, adj' a b = adj' b a)
    (hnd : V.Nodup) (h : GraphImage adj adj' g V V') (a b : α) (n m n' m' : Nat)
    (ha : (a, n) ∈ ccLabel adj V) (hb : (b, m) ∈ ccLabel adj V)
    (ha' : (g a, n') ∈ ccLabel adj' V') (hb' : (g b, m') ∈ ccLabel adj' V') :
    n = m ↔ n' = m' := by
  exact SemanticE2E.cc_partition_core adj adj' g V V' hsymm hsymm' hnd (fun a b ha hb => h.inj a ha b hb)
    (fun a b ha hb => h.adj a ha b hb) h.perm a b n m n' m' ha hb ha' hb'

/-- the number of components is the same, and the numbers differ by a renaming of `1..n` -/
theorem cc_renumbering (hsymm : ∀ a b, adj a b = adj b a) (hsymm' : ∀ a b, adj' a b = adj' b a)
    (hnd : V.Nodup) (h : GraphImage adj adj' g V V') :
    ccCount adj' V' = ccCount adj V ∧
    ∃ ρ, Renumbering (ccCount adj V) ρ ∧ ∀ v k, (v, k) ∈ ccLabel adj V → (g v, ρ k) ∈ ccLabel adj' V' := by
  have spec := SemanticE2E.renum_spec adj adj' g V V' hsymm hsymm' hnd (fun a b ha hb => h.inj a ha b hb)
    (fun a b ha hb => h.adj a ha b hb) h.perm
  exact ⟨spec.count, _, ⟨spec.zero, spec.range, spec.inj, spec.surj⟩, spec.maps⟩

end generic

/-! ### Level 2: the labelled array of a transported array -/

/-- the foreground of `a'` is a rearrangement of the foreground of `a` moved by the coordinate map
    `f` (labels kept); `f` is injective on the foreground coordinates and preserves the backend's
    adjacency on the foreground voxels -/
structure Transported (b : Backend) (f : Coord → Coord) (a a' : Arr) : Prop where
  inj : ∀ x ∈ a.fg, ∀ y ∈ a.fg, f x.1 = f y.1 → x.1 = y.1
  adj : ∀ x ∈ a.fg, ∀ y ∈ a.fg, backendAdj b (f x.1, x.2) (f y.1, y.2) = backendAdj b x y
  perm : a'.fg.Perm (a.fg.map (fun v => (f v.1, v.2)))

/-- the foreground voxels of an array are distinct, with coordinates of the array's dimension -/
theorem fg_wellformed (a : Arr) :
    a.fg.Nodup ∧ (a.fg.map (·.1)).Nodup ∧ ∀ v ∈ a.fg, v.1.length = a.shape.length := by
  exact ⟨SemanticE2E.fg_nodup a, SemanticE2E.fg_keys_nodup a, SemanticE2E.fg_coord_length a⟩

/-- a transported array is a rearranged graph image for the backend's adjacency -/
theorem Transported.graphImage {b : Backend} {f : Coord → Coord} {a a' : Arr} (h : Transported b f a a') :
    GraphImage (backendAdj b) (backendAdj b) (fun v : Coord × Lab => (f v.1, v.2)) a.fg a'.fg := by
  refine ⟨?_, h.adj, h.perm⟩
  intro x hx y hy hxy
  simp only [Prod.mk.injEq] at hxy
  exact Prod.ext (h.inj x hx y hy hxy.1) hxy.2

/-- the labelled array's foreground is the input's foreground, numbered by component -/
theorem components_fg (b : Backend) (a : Arr) :
    ∃ num : Coord × Lab → Nat, (∀ v ∈ a.fg, (v, num v) ∈ ccLabel (backendAdj b) a.fg) ∧
      (connectedComponents b a).1.fg = a.fg.map (fun v => (v.1, num v)) := by
  refine ⟨SemanticE2E.lab (ccLabel (backendAdj b) a.fg), ?_, SemanticE2E.cc_fg b a⟩
  intro v hv
  obtain ⟨htot, hkeys, _⟩ := C05.cc_total (backendAdj b) (C05.backendAdj_symm b) a.fg (SemanticE2E.fg_nodup a)
  obtain ⟨n, hn⟩ := htot v hv
  rw [SemanticE2E.lab_eq hkeys hn]
  exact hn

/-- Level 2: the labelled array of the transported array is, voxel for voxel, the transported
    labelled array with the component numbers renamed by a permutation of `1..n`; the counts agree -/
theorem components_transported (b : Backend) (f : Coord → Coord) (a a' : Arr) (h : Transported b f a a') :
    ∃ ρ, Renumbering (connectedComponents b a).2 ρ ∧
      ((connectedComponents b a').1.fg).Perm
        (((connectedComponents b a).1.fg).map (fun v => (f v.1, ρ v.2))) ∧
      (connectedComponents b a').2 = (connectedComponents b a).2 := by
  obtain ⟨ρ, spec, hperm⟩ := SemanticE2E.cc_transport b f a a' (fun x y hx hy => h.inj x hx y hy)
    (fun x y hx hy => h.adj x hx y hy) h.perm
  exact ⟨ρ, ⟨spec.zero, spec.range, spec.inj, spec.surj⟩, hperm, spec.count⟩

/-- scipy backend (face connectivity): every grid isometry of the array's dimension qualifies -/
theorem transported_scipy (n : Nat) (f : Coord → Coord) (hf : GridIsometry f n) (a a' : Arr)
    (hn : a.shape.length = n) (hperm : a'.fg.Perm (a.fg.map (fun v => (f v.1, v.2)))) :
    Transported .scipy f a a' := by
  have hK : ∀ v ∈ a.fg, v.1.length = n := fun v hv => (SemanticE2E.fg_coord_length a v hv).trans hn
  exact ⟨SemanticE2E.isometry_inj_on n f hf a.fg hK, SemanticE2E.scipy_adj_isometry n f hf a.fg hK, hperm⟩

/-- cc3d backend (full connectivity within a semantic label): a grid isometry that also preserves
    full adjacency qualifies -/
theorem transported_cc3d (n : Nat) (f : Coord → Coord) (hf : GridIsometry f n)
    (hfull : ∀ c d : Coord, c.length = n → d.length = n → fullAdj (f c) (f d) = fullAdj c d) (a a' : Arr)
    (hn : a.shape.length = n) (hperm : a'.fg.Perm (a.fg.map (fun v => (f v.1, v.2)))) :
    Transported .cc3d f a a' := by
  have hK : ∀ v ∈ a.fg, v.1.length = n := fun v hv => (SemanticE2E.fg_coord_length a v hv).trans hn
  exact ⟨SemanticE2E.isometry_inj_on n f hf a.fg hK, SemanticE2E.cc3d_adj_of_full n f hfull a.fg hK, hperm⟩

/-- translations (padding, cropping of empty margins, shifting) qualify for both backends -/
theorem transported_translate (b : Backend) (t : Coord) (a a' : Arr) (ht : t.length = a.shape.length)
    (hperm : a'.fg.Perm (a.fg.map (fun v => (translate t v.1, v.2)))) :
    Transported b (translate t) a a' := by
  cases b
  · exact transported_cc3d t.length _ (translate_gridIsometry _ t rfl)
      (fun c d hc hd => translate_fullAdj t c d hc hd) a a' ht.symm hperm
  · exact transported_scipy t.length _ (translate_gridIsometry _ t rfl) a a' ht.symm hperm

/-- mirroring an axis qualifies for both backends -/
theorem transported_flip (b : Backend) (k : Nat) (m : Int) (a a' : Arr) (hk : k < a.shape.length)
    (hperm : a'.fg.Perm (a.fg.map (fun v => (flipAxis k m v.1, v.2)))) :
    Transported b (flipAxis k m) a a' := by
  cases b
  · exact transported_cc3d a.shape.length _ (flipAxis_gridIsometry _ k m hk)
      (fun c d hc hd => flipAxis_fullAdj k m c d (hc.trans hd.symm)) a a' rfl hperm
  · exact transported_scipy a.shape.length _ (flipAxis_gridIsometry _ k m hk) a a' rfl hperm

/-- exchanging two axes qualifies for both backends -/
theorem transported_swap (b : Backend) (i j : Nat) (a a' : Arr) (hi : i < a.shape.length) (hj : j < a.shape.length)
    (hperm : a'.fg.Perm (a.fg.map (fun v => (swapAxes i j v.1, v.2)))) :
    Transported b (swapAxes i j) a a' := by
  cases b
  · exact transported_cc3d a.shape.length _ (swapAxes_gridIsometry _ i j hi hj)
      (fun c d hc hd => swapAxes_fullAdj i j c d (hc.trans hd.symm) (hc ▸ hi) (hc ▸ hj)) a a' rfl hperm
  · exact transported_scipy a.shape.length _ (swapAxes_gridIsometry _ i j hi hj) a a' rfl hperm

/-- a grid isometry of the arrays' dimension is injective on the union of both foregrounds -/
theorem isometry_inj_union (n : Nat) (f : Coord → Coord) (hf : GridIsometry f n) (pred ref : Arr)
    (hp : pred.shape.length = n) (hr : ref.shape.length = n) :
    ∀ x ∈ pred.fg ++ ref.fg, ∀ y ∈ pred.fg ++ ref.fg, f x.1 = f y.1 → x.1 = y.1 := by
  apply SemanticE2E.isometry_inj_on n f hf
  intro v hv
  rcases List.mem_append.1 hv with h | h
  · exact (SemanticE2E.fg_coord_length pred v h).trans hp
  · exact (SemanticE2E.fg_coord_length ref v h).trans hr

/-! ### Level 3: end to end for semantic input -/

/-- configurations covered: semantic input; apart from the input type, the one-to-one threshold
    matcher on IoU / Dice with a rational threshold (`C09.RelabelCfg`) and count-based instance
    metrics and decision metric (`C10.CountBased`) -/
structure SemanticCountCfg (cfg : Config) (mc : MatcherCfg) : Prop where
  input : cfg.input = .SEMANTIC
  relabel : C09.RelabelCfg { cfg with input := .UNMATCHED } mc
  counts : CountBased { cfg with input := .UNMATCHED }

/-- for semantic input the pipeline is the matching phase on the two labelled arrays with the
    component counts, which are the numbers of distinct labels of these arrays — i.e. the pipeline
    for unmatched instance input on the labelled arrays (when both maps have foreground) -/
theorem pipeline_semantic_unfold (cfg : Config) (bits : Nat) (pred ref : Arr) (hin : cfg.input = .SEMANTIC)
    (b : Backend) (hb : b = cfg.backend.getD (defaultBackend pred.shape.length))
    (hp : (connectedComponents b pred).2 ≠ 0) (hr : (connectedComponents b ref).2 ≠ 0) :
    (labelsOf (connectedComponents b pred).1.data).length = (connectedComponents b pred).2 ∧
    (labelsOf (connectedComponents b ref).1.data).length = (connectedComponents b ref).2 ∧
    ∃ bits', pipeline cfg bits pred ref =
      pipeline { cfg with input := .UNMATCHED } bits' (connectedComponents b pred).1 (connectedComponents b ref).1 := by
  refine ⟨SemanticE2E.labelsOf_cc_length b pred, SemanticE2E.labelsOf_cc_length b ref, ?_⟩
  rw [SemanticE2E.pipeline_semantic cfg bits pred ref hin, ← hb, SemanticE2E.semPart_arr b pred hp,
    SemanticE2E.semPart_arr b ref hr, SemanticE2E.semPart_count, SemanticE2E.semPart_count,
    ← SemanticE2E.labelsOf_cc_length b pred, ← SemanticE2E.labelsOf_cc_length b ref,
    SemanticE2E.matchPhase_eq_unmatched]
  exact ⟨_, rfl⟩

/-- the covered configurations always produce a result (the threshold matcher never raises), so the
    two runs compared below exist -/
theorem pipeline_semantic_total (cfg : Config) (mc : MatcherCfg) (hc : SemanticCountCfg cfg mc)
    (bits : Nat) (pred ref : Arr) : ∃ out, pipeline cfg bits pred ref = .ok out := by
  exact SemanticE2E.pipeline_semantic_total cfg mc hc.input hc.relabel.matcher bits pred ref

/-- Level 3, end to end: a semantic pair and its image under a coordinate map that transports both
    maps (padding, translation, flip, axis permutation; the transformed arrays may have another
    shape and memory layout) get the same tp, the same instance counts, and per-instance lists that
    agree up to order — whenever the matching of the component-labelled original pair is determined
    by the scores. The integer widths `bits`, `bits₂` are irrelevant. -/
theorem pipeline_semantic_invariant (cfg : Config) (mc : MatcherCfg) (hc : SemanticCountCfg cfg mc)
    (bits bits₂ : Nat) (pred ref pred' ref' : Arr) (f : Coord → Coord) (b : Backend)
    (hb : b = cfg.backend.getD (defaultBackend pred.shape.length))
    (hdim : pred'.shape.length = pred.shape.length)
    (hwp : pred.data.length = shapeSize pred.shape) (hwr : ref.data.length = shapeSize ref.shape)
    (hwp' : pred'.data.length = shapeSize pred'.shape) (hwr' : ref'.data.length = shapeSize ref'.shape)
    (hs : ref.shape = pred.shape) (hs' : ref'.shape = pred'.shape)
    (hP : Transported b f pred pred') (hR : Transported b f ref ref')
    (hinj : ∀ x ∈ pred.fg ++ ref.fg, ∀ y ∈ pred.fg ++ ref.fg, f x.1 = f y.1 → x.1 = y.1)
    (hbnd : (connectedComponents b pred).2 < 2 ^ 32 - 1 ∧ (connectedComponents b ref).2 < 2 ^ 32 - 1)
    (hdet : C03.Determined Score.le mc.metric.decreasing mc.thr
      (scoredCands mc.metric (connectedComponents b pred).1 (connectedComponents b ref).1))
    (out out' : PipeOut) (h : pipeline cfg bits pred ref = .ok out)
    (h' : pipeline cfg bits₂ pred' ref' = .ok out') :
    out'.tp = out.tp ∧ out'.nRef = out.nRef ∧ out'.nPred = out.nPred ∧
    ∀ m ∈ cfg.evalMetrics, ∀ vals vals', (m, vals) ∈ out.lists → (m, vals') ∈ out'.lists → vals.Perm vals' := by
  exact SemanticE2E.pipeline_semantic_core cfg mc hc.input hc.relabel hc.counts bits bits₂ pred ref pred' ref' f b
    hb.symm (by rw [hdim]; exact hb.symm) hwp hwr hwp' hwr' hs hs'
    (fun x y hx hy => hinj x hx y hy) (fun x y hx hy => hP.adj x hx y hy) (fun x y hx hy => hR.adj x hx y hy)
    hP.perm hR.perm hbnd.1 hbnd.2 hdet out out' h h'

/-! ### non-vacuity: a 1×3 semantic pair translated by one column inside a 1×5 pair -/

def exSemCfg : Config where
  input := .SEMANTIC
  backend := none
  matcher := some { kind := .naive false, metric := .IOU, thr := .exact (1/2) }
  evalMetrics := [.IOU, .DSC, .RVD]
  decision := some (.IOU, .exact (1/2))
  handler := { table := [], emptyListStd := .NAN }

def exMc : MatcherCfg := { kind := .naive false, metric := .IOU, thr := .exact (1/2) }

def exPred : Arr := ⟨[1, 3], [1, 0, 1]⟩
def exRef : Arr := ⟨[1, 3], [1, 1, 0]⟩
def exPred' : Arr := ⟨[1, 5], [0, 1, 0, 1, 0]⟩
def exRef' : Arr := ⟨[1, 5], [0, 1, 1, 0, 0]⟩

example : SemanticCountCfg exSemCfg exMc :=
  ⟨rfl, ⟨rfl, rfl, rfl, Or.inl rfl, ⟨_, rfl⟩⟩,
   ⟨Or.inr rfl, by simp [exSemCfg, countMetric], by simp [exSemCfg], by simp [exSemCfg]⟩⟩

example : Transported .scipy (translate [0, 1]) exPred exPred' := ⟨by decide, by decide, by decide⟩
example : Transported .scipy (translate [0, 1]) exRef exRef' := ⟨by decide, by decide, by decide⟩
/-- the same through the general translation theorem (both backends) -/
example (b : Backend) : Transported b (translate [0, 1]) exPred exPred' :=
  transported_translate b [0, 1] exPred exPred' rfl (by decide)

/-- two components in the prediction, one in the reference; the translated arrays are numbered alike -/
example : (connectedComponents .scipy exPred).1.data = [1, 0, 2] ∧ (connectedComponents .scipy exPred).2 = 2 ∧
    (connectedComponents .scipy exPred').1.data = [0, 1, 0, 2, 0] ∧ (connectedComponents .scipy exRef).2 = 1 := by
  decide

/-- mirroring changes the order in which the components are discovered: the renaming of the component
    numbers is not the identity here (1 ↔ 2) -/
example : Transported .scipy (flipAxis 1 4) ⟨[1, 4], [1, 1, 0, 2]⟩ ⟨[1, 4], [2, 0, 1, 1]⟩ ∧
    (connectedComponents .scipy ⟨[1, 4], [1, 1, 0, 2]⟩).1.data = [1, 1, 0, 2] ∧
    (connectedComponents .scipy ⟨[1, 4], [2, 0, 1, 1]⟩).1.data = [1, 0, 2, 2] := by
  exact ⟨⟨by decide, by decide, by decide⟩, by decide, by decide⟩

/-- all hypotheses of the end-to-end theorem hold together on this scene: both runs exist and agree -/
example : ∃ out out', pipeline exSemCfg 8 exPred exRef = .ok out ∧ pipeline exSemCfg 16 exPred' exRef' = .ok out' ∧
    out'.tp = out.tp ∧ out'.nRef = out.nRef ∧ out'.nPred = out.nPred := by
  have hc : SemanticCountCfg exSemCfg exMc :=
    ⟨rfl, ⟨rfl, rfl, rfl, Or.inl rfl, ⟨_, rfl⟩⟩,
     ⟨Or.inr rfl, by simp [exSemCfg, countMetric], by simp [exSemCfg], by simp [exSemCfg]⟩⟩
  obtain ⟨out, h⟩ := pipeline_semantic_total exSemCfg exMc hc 8 exPred exRef
  obtain ⟨out', h'⟩ := pipeline_semantic_total exSemCfg exMc hc 16 exPred' exRef'
  have hdet : C03.Determined Score.le exMc.metric.decreasing exMc.thr
      (scoredCands exMc.metric (connectedComponents .scipy exPred).1 (connectedComponents .scipy exRef).1) :=
    ⟨by decide, by decide⟩
  have := pipeline_semantic_invariant exSemCfg exMc hc
    8 16 exPred exRef exPred' exRef' (translate [0, 1]) .scipy rfl rfl rfl rfl rfl rfl rfl rfl
    ⟨by decide, by decide, by decide⟩ ⟨by decide, by decide, by decide⟩ (by decide)
    ⟨by decide, by decide⟩ hdet out out' h h'
  exact ⟨out, out', h, h', this.1, this.2.1, this.2.2.1⟩

end Panoptica.C10
