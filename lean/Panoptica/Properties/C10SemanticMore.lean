/-
  C10 end to end for *semantic* input, beyond the one-to-one threshold matcher: the statement of
  `C10.pipeline_semantic_invariant` for many-to-one threshold matching (`allow_many_to_one=True`) and for the merge matcher.
  Same composition — components transported and renumbered by the coordinate map (Level 2), renumbering absorbed by the
  renaming theorem of the matcher at hand (`C09.pipeline_rename_m2o` / `C09.pipeline_rename_merge`), spatial rearrangement
  absorbed by the counts theorem (`C10.pipeline_counts_invariant` / `C10.pipeline_counts_invariant_merge`).
-/
import Panoptica.Properties.C10Semantic
import Panoptica.Properties.C09PipelineM2O
import Panoptica.Properties.C09Merge
import Panoptica.Properties.C10PipelineMerge
import Panoptica.Proofs.SemanticMore
namespace Panoptica.C10
open Panoptica

/-- semantic input, many-to-one threshold matcher on IoU / Dice, count-based instance metrics -/
structure SemanticCountCfgM2O (cfg : Config) (mc : MatcherCfg) : Prop where
  input : cfg.input = .SEMANTIC
  relabel : C09.RelabelCfgM2O { cfg with input := .UNMATCHED } mc
  counts : CountBased { cfg with input := .UNMATCHED }

/-- semantic input, merge matcher on IoU / Dice, count-based instance metrics -/
structure SemanticCountCfgMerge (cfg : Config) (mc : MatcherCfg) : Prop where
  input : cfg.input = .SEMANTIC
  relabel : C09.RelabelCfgMerge { cfg with input := .UNMATCHED } mc
  counts : CountBasedMerge { cfg with input := .UNMATCHED }

theorem pipeline_semantic_invariant_m2o (cfg : Config) (mc : MatcherCfg) (hc : SemanticCountCfgM2O cfg mc)
    (bits bits₂ : Nat) (pred ref pred' ref' : Arr) (f : Coord → Coord) (b : Backend)
    (hb : b = cfg.backend.getD (defaultBackend pred.shape.length))
    (hdim : pred'.shape.length = pred.shape.length)
    (hwp : pred.data.length = shapeSize pred.shape) (hwr : ref.data.length = shapeSize ref.shape)
    (hwp' : pred'.data.length = shapeSize pred'.shape) (hwr' : ref'.data.length = shapeSize ref'.shape)
    (hs : ref.shape = pred.shape) (hs' : ref'.shape = pred'.shape)
    (hP : Transported b f pred pred') (hR : Transported b f ref ref')
    (hinj : ∀ x ∈ pred.fg ++ ref.fg, ∀ y ∈ pred.fg ++ ref.fg, f x.1 = f y.1 → x.1 = y.1)
    (hbnd : (connectedComponents b pred).2 < 2 ^ 32 - 1 ∧ (connectedComponents b ref).2 < 2 ^ 32 - 1)
    (hdet : C03.DeterminedM2O Score.le mc.metric.decreasing mc.thr
      (scoredCands mc.metric (connectedComponents b pred).1 (connectedComponents b ref).1))
    (out out' : PipeOut) (h : pipeline cfg bits pred ref = .ok out)
    (h' : pipeline cfg bits₂ pred' ref' = .ok out') :
    out'.tp = out.tp ∧ out'.nRef = out.nRef ∧ out'.nPred = out.nPred ∧
    ∀ m ∈ cfg.evalMetrics, ∀ vals vals', (m, vals) ∈ out.lists → (m, vals') ∈ out'.lists → vals.Perm vals' := by
  exact SemanticMore.pipeline_semantic_generic cfg mc hc.input
    (C03.DeterminedM2O Score.le mc.metric.decreasing mc.thr)
    (fun bits s s' p r p' r' hl hl' hb hp =>
      pipeline_counts_invariant { cfg with input := .UNMATCHED } hc.counts bits s s' p r p' r' hl hl' hb hp)
    (fun bits bits' s p r σ τ hσ hτ hl hb hb' hp hr hd out out' h h' =>
      C09.pipeline_rename_m2o { cfg with input := .UNMATCHED } mc hc.relabel bits bits' s p r σ τ hσ hτ hl hb hb'
        hp hr hd out out' h h')
    bits bits₂ pred ref pred' ref' f b
    hb.symm (by rw [hdim]; exact hb.symm) hwp hwr hwp' hwr' hs hs'
    (fun x y hx hy => hinj x hx y hy) (fun x y hx hy => hP.adj x hx y hy) (fun x y hx hy => hR.adj x hx y hy)
    hP.perm hR.perm hbnd.1 hbnd.2 hdet out out' h h'

theorem pipeline_semantic_invariant_merge (cfg : Config) (mc : MatcherCfg) (hc : SemanticCountCfgMerge cfg mc)
    (bits bits₂ : Nat) (pred ref pred' ref' : Arr) (f : Coord → Coord) (b : Backend)
    (hb : b = cfg.backend.getD (defaultBackend pred.shape.length))
    (hdim : pred'.shape.length = pred.shape.length)
    (hwp : pred.data.length = shapeSize pred.shape) (hwr : ref.data.length = shapeSize ref.shape)
    (hwp' : pred'.data.length = shapeSize pred'.shape) (hwr' : ref'.data.length = shapeSize ref'.shape)
    (hs : ref.shape = pred.shape) (hs' : ref'.shape = pred'.shape)
    (hP : Transported b f pred pred') (hR : Transported b f ref ref')
    (hinj : ∀ x ∈ pred.fg ++ ref.fg, ∀ y ∈ pred.fg ++ ref.fg, f x.1 = f y.1 → x.1 = y.1)
    (hbnd : (connectedComponents b pred).2 < 2 ^ 32 - 1 ∧ (connectedComponents b ref).2 < 2 ^ 32 - 1)
    (hdist : C09.DistinctScores
      (scoredCands mc.metric (connectedComponents b pred).1 (connectedComponents b ref).1))
    (out out' : PipeOut) (h : pipeline cfg bits pred ref = .ok out)
    (h' : pipeline cfg bits₂ pred' ref' = .ok out') :
    out'.tp = out.tp ∧ out'.nRef = out.nRef ∧ out'.nPred = out.nPred ∧
    ∀ m ∈ cfg.evalMetrics, ∀ vals vals', (m, vals) ∈ out.lists → (m, vals') ∈ out'.lists → vals.Perm vals' := by
  exact SemanticMore.pipeline_semantic_generic cfg mc hc.input C09.DistinctScores
    (fun bits s s' p r p' r' hl hl' hb hp =>
      pipeline_counts_invariant_merge { cfg with input := .UNMATCHED } hc.counts bits s s' p r p' r' hl hl' hb hp)
    (fun bits bits' s p r σ τ hσ hτ hl hb hb' hp hr hd out out' h h' =>
      C09.pipeline_rename_merge { cfg with input := .UNMATCHED } mc hc.relabel bits bits' s p r σ τ hσ hτ hl hb hb'
        hp hr hd out out' h h')
    bits bits₂ pred ref pred' ref' f b
    hb.symm (by rw [hdim]; exact hb.symm) hwp hwr hwp' hwr' hs hs'
    (fun x y hx hy => hinj x hx y hy) (fun x y hx hy => hP.adj x hx y hy) (fun x y hx hy => hR.adj x hx y hy)
    hP.perm hR.perm hbnd.1 hbnd.2 hdist out out' h h'

/-- non-vacuity: covered configurations -/
example : SemanticCountCfgM2O { exSemCfg with matcher := some { kind := .naive true, metric := .IOU, thr := .exact (1/2) } }
    { kind := .naive true, metric := .IOU, thr := .exact (1/2) } := by
  exact ⟨rfl, ⟨rfl, rfl, rfl, Or.inl rfl, ⟨_, rfl⟩⟩,
    ⟨Or.inr rfl, by simp [exSemCfg, countMetric], by simp, by simp [exSemCfg]⟩⟩

example : SemanticCountCfgMerge { exSemCfg with matcher := some { kind := .merge, metric := .IOU, thr := .exact (1/2) } }
    { kind := .merge, metric := .IOU, thr := .exact (1/2) } := by
  exact ⟨rfl, ⟨rfl, rfl, rfl, Or.inl rfl, ⟨_, rfl⟩⟩,
    ⟨Or.inr rfl, by simp [exSemCfg, countMetric], by simp, by simp [exSemCfg]⟩⟩

end Panoptica.C10
