/-
  C11 — exchanging prediction and reference mirrors the result.
-/
import Panoptica.Proofs.Overlap
import Panoptica.Properties.C06
namespace Panoptica.C11
open Panoptica

/-- intersection counts are mirrored -/
theorem ovCount_swap (pred ref : Flat) (r p : Lab) : ovCount ref pred p r = ovCount pred ref r p := by
  exact ovCount_swap' pred ref r p

theorem overlaps_swap (pred ref : Flat) (r p : Lab) : overlaps ref pred p r = overlaps pred ref r p := by
  exact overlaps_swap' pred ref r p

/-- IoU and Dice of a pair of instances do not depend on which map is called the reference -/
theorem iouSel_swap (pred ref : Flat) (r p : Lab) : iouSel ref pred r [p] = iouSel pred ref p [r] := by
  simp only [iouSel, selectPair, C06.selPred_single]
  exact C06.iou_symm _ _

theorem diceSel_swap (pred ref : Flat) (r p : Lab) : diceSel ref pred r [p] = diceSel pred ref p [r] := by
  simp only [diceSel, selectPair, C06.selPred_single]
  exact C06.dice_symm _ _

/-- each RVD value r is replaced by -r/(1+r) (both instances non-empty) -/
theorem rvd_swap (X Y : Flat) (q : Rat) (hx : sumVals X ≠ 0) (hy : sumVals Y ≠ 0) (h : rvd X Y = .ok q) :
    rvd Y X = .ok (-q / (1 + q)) := by
  exact rvd_swap' X Y q hx hy h

/-- exchange the roles in a candidate -/
def swapCand {S : Type} (c : Cand S) : Cand S := { c with ref := c.pred, pred := c.ref }

/-- one-to-one threshold matching is symmetric: on the mirrored candidates (same order, which the
    best-first sort fixes up to ties) it returns the mirrored assignment -/
theorem naive_swap {S : Type} (le : S → S → Bool) (dec : Bool) (thr : S) (cs : List (Cand S)) :
    naiveLoop le dec thr false (cs.map swapCand) = (naiveLoop le dec thr false cs).map (fun e => (e.2, e.1)) := by
  exact naiveFold_swap le dec thr cs []

/-- hence tp is equal and unmatched predictions/references (fp, fn) are exchanged: the mirrored
    assignment has the same size -/
theorem naive_swap_length {S : Type} (le : S → S → Bool) (dec : Bool) (thr : S) (cs : List (Cand S)) :
    (naiveLoop le dec thr false (cs.map swapCand)).length = (naiveLoop le dec thr false cs).length := by
  rw [naive_swap, List.length_map]

/-- non-vacuity -/
example : ovCount [1, 1, 0] [1, 0, 2] 1 1 = 1 ∧ ovCount [1, 0, 2] [1, 1, 0] 1 1 = 1 ∧
    naiveLoop (fun (a b : Nat) => decide (a ≤ b)) false 50 false [⟨90, 2, 7⟩, ⟨60, 3, 7⟩] = [(7, 2)] ∧
    naiveLoop (fun (a b : Nat) => decide (a ≤ b)) false 50 false [⟨90, 7, 2⟩, ⟨60, 7, 3⟩] = [(2, 7)] := by decide

end Panoptica.C11
