/-
  C11 (end to end) — for unmatched instance input, one-to-one threshold matching on IoU or Dice and the
  symmetric metrics IoU / Dice, exchanging prediction and reference leaves tp unchanged, exchanges the
  instance counts (hence fp and fn), and permutes each per-instance list — whenever the matching is
  determined by the scores (no two competing eligible candidates tie; `C03.Determined`). With ties the
  property itself does not fix the answer (the two directions may break the tie differently).
  The proof goes through uniqueness of the valid matching (`C03.unique`): the mirrored candidate set has the
  mirrored matching as its only valid matching, whatever order the candidates are discovered in.
-/
import Panoptica.Proofs.Mirror
import Panoptica.Properties.C01Values
import Panoptica.Properties.C03Unique
import Panoptica.Properties.C11
namespace Panoptica.C11
open Panoptica

def symMetric (m : Metric) : Prop := m = .IOU ∨ m = .DSC

/-- configurations covered: unmatched instance input, one-to-one threshold matcher on IoU / Dice with a
    rational threshold, IoU / Dice as instance metrics, optional decision on IoU / Dice -/
structure MirrorCfg (cfg : Config) (mc : MatcherCfg) : Prop where
  input : cfg.input = .UNMATCHED
  matcher : cfg.matcher = some mc
  kind : mc.kind = .naive false
  mmetric : symMetric mc.metric
  thrExact : ∃ q, mc.thr = .exact q
  metrics : ∀ m ∈ cfg.evalMetrics, symMetric m
  decision : ∀ d, cfg.decision = some d → symMetric d.1 ∧ ∃ q, d.2 = .exact q

/-- the candidates of the mirrored pair are the mirrored candidates (same scores), up to order.
    The label bound `hb` is necessary: candidate discovery encodes a pair as `pred * (max_ref + 1) + ref`
    in 64-bit arithmetic, and which of the two maps supplies `max_ref` changes with the direction, so
    beyond the bound the two directions can wrap differently. Counterexample without `hb`:
    `pred = [2^63]`, `ref = [2]`, `s = [1]`, IoU — `scoredCands .IOU ⟨s, ref⟩ ⟨s, pred⟩` has the single
    candidate `(ref, pred) = (1, 1)`, whereas `(scoredCands .IOU ⟨s, pred⟩ ⟨s, ref⟩).map swapCand` has
    `(ref, pred) = (3074457345618258603, 1)`; with threshold `.exact 0` the two label maps are
    `[(3074457345618258603, 1)]` and `[(1, 1)]`, so `runMatcher_swap` fails as well (the single
    candidate makes `Determined` hold trivially). -/
theorem scoredCands_swap (m : Metric) (hm : symMetric m) (s : List Nat) (pred ref : Flat)
    (hlen : pred.length = ref.length) (hb : ∀ x ∈ pred ++ ref, x < 2 ^ 32 - 1) :
    (scoredCands m ⟨s, ref⟩ ⟨s, pred⟩).Perm ((scoredCands m ⟨s, pred⟩ ⟨s, ref⟩).map swapCand) := by
  exact Mirror.scoredCands_swap_bdd m hm s pred ref hlen hb

/-- the matcher's label map of the mirrored pair is the mirrored label map (as a set of pairs) -/
theorem runMatcher_swap (mc : MatcherCfg) (hk : mc.kind = .naive false) (hm : symMetric mc.metric)
    (ht : ∃ q, mc.thr = .exact q) (s : List Nat) (pred ref : Flat) (hlen : pred.length = ref.length)
    (hb : ∀ x ∈ pred ++ ref, x < 2 ^ 32 - 1)
    (hdet : C03.Determined Score.le mc.metric.decreasing mc.thr (scoredCands mc.metric ⟨s, pred⟩ ⟨s, ref⟩))
    (lm lm' : LMap) (h : runMatcher mc ⟨s, pred⟩ ⟨s, ref⟩ = .ok lm) (h' : runMatcher mc ⟨s, ref⟩ ⟨s, pred⟩ = .ok lm') :
    ∀ p r, (p, r) ∈ lm ↔ (r, p) ∈ lm' := by
  exact Mirror.runMatcher_swap_bdd mc hk hm ht s pred ref hlen hb hdet lm lm' h h'

/-- with a one-to-one matcher the relabelled prediction has as many instances as the prediction -/
theorem nPred_one_to_one (cfg : Config) (mc : MatcherCfg) (hin : cfg.input = .UNMATCHED) (hm : cfg.matcher = some mc)
    (hk : mc.kind = .naive false) (bits : Nat) (s : List Nat) (pred ref : Flat)
    (hlen : pred.length = ref.length) (hb : ∀ x ∈ pred ++ ref, x < 2 ^ 32 - 1)
    (hp : labelsOf pred ≠ []) (hr : labelsOf ref ≠ [])
    (out : PipeOut) (h : pipeline cfg bits ⟨s, pred⟩ ⟨s, ref⟩ = .ok out) :
    out.nPred = (labelsOf pred).length ∧ out.nRef = (labelsOf ref).length := by
  exact Mirror.nPred_core cfg mc hin hm hk bits s pred ref hlen hb hp hr out h

/-- end to end -/
theorem pipeline_mirror (cfg : Config) (mc : MatcherCfg) (hc : MirrorCfg cfg mc) (bits : Nat) (s : List Nat)
    (pred ref : Flat) (hlen : pred.length = ref.length) (hb : ∀ x ∈ pred ++ ref, x < 2 ^ 32 - 1)
    (hp : labelsOf pred ≠ []) (hr : labelsOf ref ≠ [])
    (hdet : C03.Determined Score.le mc.metric.decreasing mc.thr (scoredCands mc.metric ⟨s, pred⟩ ⟨s, ref⟩))
    (out out' : PipeOut) (h : pipeline cfg bits ⟨s, pred⟩ ⟨s, ref⟩ = .ok out)
    (h' : pipeline cfg bits ⟨s, ref⟩ ⟨s, pred⟩ = .ok out') :
    out'.tp = out.tp ∧ out'.nRef = out.nPred ∧ out'.nPred = out.nRef ∧
    ∀ m ∈ cfg.evalMetrics, ∀ vals vals', (m, vals) ∈ out.lists → (m, vals') ∈ out'.lists → vals.Perm vals' := by
  exact Mirror.pipeline_mirror_core cfg mc hc.input hc.matcher hc.kind hc.mmetric hc.thrExact hc.metrics
    bits s pred ref hlen hb hp hr hdet out out' h h'

/-- non-vacuity: a covered configuration -/
def exCfg : Config where
  input := .UNMATCHED
  backend := none
  matcher := some { kind := .naive false, metric := .IOU, thr := .exact (1/2) }
  evalMetrics := [.IOU, .DSC]
  decision := some (.DSC, .exact (3/5))
  handler := { table := [], emptyListStd := .NAN }

example : MirrorCfg exCfg { kind := .naive false, metric := .IOU, thr := .exact (1/2) } :=
  ⟨rfl, rfl, rfl, Or.inl rfl, ⟨_, rfl⟩, by simp [exCfg, symMetric], by simp [exCfg, symMetric]⟩

end Panoptica.C11
