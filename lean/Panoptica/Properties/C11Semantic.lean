/-
  C11, end to end, for *semantic* input — exchanging prediction and reference mirrors the result also when the
  instances are approximated first: the components of each map do not depend on the other map, so the SEMANTIC branch of
  the exchanged call is the UNMATCHED pipeline on the exchanged component arrays (`C10.pipeline_semantic_unfold`), and
  `C11.pipeline_mirror` applies.  One-to-one threshold matcher with a symmetric matching metric, symmetric instance
  metrics, determined candidates.
-/
import Panoptica.Properties.C11Pipeline
import Panoptica.Properties.C10Semantic
import Panoptica.Proofs.MirrorSemantic
namespace Panoptica.C11
open Panoptica

/-- configurations covered: semantic input whose instance part is a `MirrorCfg` -/
structure MirrorCfgSemantic (cfg : Config) (mc : MatcherCfg) : Prop where
  input : cfg.input = .SEMANTIC
  mirror : MirrorCfg { cfg with input := .UNMATCHED } mc

theorem pipeline_mirror_semantic (cfg : Config) (mc : MatcherCfg) (hc : MirrorCfgSemantic cfg mc) (bits bits₂ : Nat)
    (pred ref : Arr) (b : Backend) (hb : b = cfg.backend.getD (defaultBackend pred.shape.length))
    (hs : ref.shape = pred.shape)
    (hwp : pred.data.length = shapeSize pred.shape) (hwr : ref.data.length = shapeSize ref.shape)
    (hbnd : (connectedComponents b pred).2 < 2 ^ 32 - 1 ∧ (connectedComponents b ref).2 < 2 ^ 32 - 1)
    (hdet : C03.Determined Score.le mc.metric.decreasing mc.thr
      (scoredCands mc.metric (connectedComponents b pred).1 (connectedComponents b ref).1))
    (out out' : PipeOut) (h : pipeline cfg bits pred ref = .ok out) (h' : pipeline cfg bits₂ ref pred = .ok out') :
    out'.tp = out.tp ∧ out'.nRef = out.nPred ∧ out'.nPred = out.nRef ∧
    ∀ m ∈ cfg.evalMetrics, ∀ vals vals', (m, vals) ∈ out.lists → (m, vals') ∈ out'.lists → vals.Perm vals' := by
  exact MirrorSemantic.pipeline_mirror_semantic_core cfg mc hc.input hc.mirror.matcher hc.mirror.kind
    hc.mirror.mmetric hc.mirror.thrExact hc.mirror.metrics bits bits₂ pred ref b hb.symm hs hwp hwr
    hbnd.1 hbnd.2 hdet out out' h h'

/-- non-vacuity: a covered configuration -/
example : MirrorCfgSemantic { exCfg with input := .SEMANTIC } { kind := .naive false, metric := .IOU, thr := .exact (1/2) } := by
  exact ⟨rfl, ⟨rfl, rfl, rfl, Or.inl rfl, ⟨_, rfl⟩, by simp [exCfg, symMetric], by simp [exCfg, symMetric]⟩⟩

end Panoptica.C11
