/-
  C12 — class groups are evaluated independently and completely.
-/
import Panoptica.Proofs.Groups
namespace Panoptica.C12
open Panoptica

/-- restriction keeps exactly the group's labels (binarised for a merge group), everything else
    becomes background -/
theorem extract_spec (g : Group) (a : Flat) (i : Nat) (h : i < a.length) :
    (g.extract a)[i]'(by simpa [Group.extract] using h) =
      if g.labels.contains a[i] then (if g.merge then 1 else a[i]) else 0 := by
  simp only [Group.extract, List.getElem_map]

theorem extract_length (g : Group) (a : Flat) : (g.extract a).length = a.length := by
  simp only [Group.extract, List.length_map]

/-- the result reported for a group is the pipeline's result on the two restricted arrays: with the
    evaluator's own configuration for plain and merge groups, and as one already-matched instance
    for a single-instance group -/
theorem group_result (cfg : Config) (bits : Nat) (g : Group) (pred ref : Arr) (h : g.single = false ∨ cfg.input = .MATCHED) :
    evaluateGroup cfg bits g pred ref =
      pipeline cfg bits { pred with data := g.extract pred.data } { ref with data := g.extract ref.data } := by
  unfold evaluateGroup
  have : (g.single && cfg.input != .MATCHED) = false := by
    rcases h with h | h
    · rw [h]; rfl
    · rw [h]; cases g.single <;> rfl
  simp only [this]
  rfl

theorem single_group_result (cfg : Config) (bits : Nat) (g : Group) (pred ref : Arr)
    (h : g.single = true) (hi : cfg.input ≠ .MATCHED) (hd : cfg.decision = none) :
    evaluateGroup cfg bits g pred ref =
      pipeline { cfg with input := .MATCHED } bits
        { pred with data := g.extract pred.data } { ref with data := g.extract ref.data } := by
  unfold evaluateGroup
  have : (g.single && cfg.input != .MATCHED) = true := by
    rw [h]; cases hc : cfg.input
    · rfl
    · rfl
    · exact absurd hc hi
  simp only [this, hd]
  rfl

/-- voxels of other groups never influence a group's result -/
theorem non_interference (cfg : Config) (bits : Nat) (g : Group) (shape : List Nat) (pred pred' ref ref' : Flat)
    (hp : g.extract pred = g.extract pred') (hr : g.extract ref = g.extract ref') :
    evaluateGroup cfg bits g ⟨shape, pred⟩ ⟨shape, ref⟩ = evaluateGroup cfg bits g ⟨shape, pred'⟩ ⟨shape, ref'⟩ := by
  unfold evaluateGroup
  simp only [hp, hr]

/-- in particular, changing labels that do not belong to the group changes nothing -/
theorem extract_ignores_others (g : Group) (a a' : Flat) (hlen : a.length = a'.length)
    (h : ∀ i (h1 : i < a.length) (h2 : i < a'.length), a[i] = a'[i] ∨ (g.labels.contains a[i] = false ∧ g.labels.contains a'[i] = false)) :
    g.extract a = g.extract a' := by
  apply List.ext_getElem
  · simp only [Group.extract, List.length_map, hlen]
  · intro i h1 h2
    have h1' : i < a.length := by simpa [Group.extract] using h1
    have h2' : i < a'.length := by simpa [Group.extract] using h2
    simp only [Group.extract, List.getElem_map]
    rcases h i h1' h2' with e | ⟨e1, e2⟩
    · rw [e]
    · rw [e1, e2]; rfl

/-- input containing a non-zero label that belongs to no group is rejected, before any group is
    evaluated; fully defined input yields one result per group, in the groups' order -/
theorem undefined_rejected (cfg : Config) (bits : Nat) (gs : List Group) (pred ref : Arr) :
    (∃ l, (l ∈ labelsOf pred.data ∨ l ∈ labelsOf ref.data) ∧ ∀ g ∈ gs, g.labels.contains l = false) ↔
      ∃ e, evaluateGroups cfg bits gs pred ref = .error e := by
  constructor
  · rintro ⟨l, hl, hg⟩
    cases hp : undefinedLabel gs pred.data with
    | some l' => exact ⟨_, by unfold evaluateGroups; rw [hp]⟩
    | none =>
      cases hr : undefinedLabel gs ref.data with
      | some l' => exact ⟨_, by unfold evaluateGroups; rw [hp, hr]⟩
      | none =>
        exfalso
        rcases hl with hl | hl
        · obtain ⟨g, hgm, hc⟩ := (undefinedLabel_eq_none gs pred.data).mp hp l hl
          rw [hg g hgm] at hc; cases hc
        · obtain ⟨g, hgm, hc⟩ := (undefinedLabel_eq_none gs ref.data).mp hr l hl
          rw [hg g hgm] at hc; cases hc
  · rintro ⟨e, he⟩
    cases hp : undefinedLabel gs pred.data with
    | some l' =>
      have := undefinedLabel_eq_some gs pred.data l' hp
      exact ⟨l', Or.inl this.1, this.2⟩
    | none =>
      cases hr : undefinedLabel gs ref.data with
      | some l' =>
        have := undefinedLabel_eq_some gs ref.data l' hr
        exact ⟨l', Or.inr this.1, this.2⟩
      | none =>
        rw [evaluateGroups_ok_iff cfg bits gs pred ref ⟨hp, hr⟩] at he
        cases he

theorem defined_all_groups (cfg : Config) (bits : Nat) (gs : List Group) (pred ref : Arr)
    (h : ∀ l, (l ∈ labelsOf pred.data ∨ l ∈ labelsOf ref.data) → ∃ g ∈ gs, g.labels.contains l = true) :
    evaluateGroups cfg bits gs pred ref = .ok (gs.map (fun g => (g.name, evaluateGroup cfg bits g pred ref))) := by
  apply evaluateGroups_ok_iff
  exact ⟨(undefinedLabel_eq_none gs pred.data).mpr (fun l hl => h l (Or.inl hl)),
         (undefinedLabel_eq_none gs ref.data).mpr (fun l hl => h l (Or.inr hl))⟩

/-- non-vacuity -/
example : ({ name := "a", labels := [2, 3], merge := true, single := false } : Group).extract [0, 1, 2, 3, 4] = [0, 0, 1, 1, 0] := by decide

end Panoptica.C12
