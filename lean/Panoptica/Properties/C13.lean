/-
  C13 — global binary metrics depend only on the two foregrounds.
-/
import Panoptica.Proofs.Result
namespace Panoptica.C13
open Panoptica

/-- binarisation performed by the result constructor -/
def binarise (a : Flat) : Flat := a.map (fun x => if x != 0 then 1 else 0)

def isEmptyFg (a : Flat) : Bool := a.all (· == 0)

/-- the modelled `global_bin_<m>` for the count-based metrics: handler value on an empty side,
    otherwise the metric on the binarised arrays -/
def globalBinOf (h : Handler) (m : Metric) (pred ref : Flat) : Option RVal :=
  let v : RVal := match m with
    | .IOU => .num (iou (binarise ref) (binarise pred))
    | .DSC => .num (dice (binarise ref) (binarise pred))
    | .RVD => (match rvd (binarise ref) (binarise pred) with | .ok q => .num q | .error _ => .nan)
    | _ => .nan
  globalBin h m (isEmptyFg pred) (isEmptyFg ref) v

/-- the value depends only on the foregrounds: two label maps with the same foreground (however
    it is divided into instances) give the same global value -/
theorem global_only_foreground (h : Handler) (m : Metric) (pred pred' ref ref' : Flat)
    (hp : binarise pred = binarise pred') (hr : binarise ref = binarise ref') :
    globalBinOf h m pred ref = globalBinOf h m pred' ref' := by
  have he : ∀ a : Flat, isEmptyFg a = isEmptyFg (binarise a) := fun a =>
    (all_zero_binarise a).symm
  unfold globalBinOf
  rw [he pred, he ref, he pred', he ref', hp, hr]

/-- non-empty foregrounds: the metric on the binarised arrays -/
theorem global_value (h : Handler) (m : Metric) (v : RVal) : globalBin h m false false v = some v := by
  rfl

/-- empty prediction, non-empty reference: the handler's EMPTY_PRED value -/
theorem global_empty_pred (h : Handler) (m : Metric) (z : ZeroTP) (v : RVal)
    (hh : h.lookup m = some z) : globalBin h m true false v = some (edgeToVal z.emptyPred) := by
  simp only [globalBin, Bool.true_or, if_true, Bool.false_eq_true, if_false,
    handleZeroTP_zero h m z 0 1 hh]
  rfl

/-- empty reference, non-empty prediction: the handler's EMPTY_REF value -/
theorem global_empty_ref (h : Handler) (m : Metric) (z : ZeroTP) (v : RVal)
    (hh : h.lookup m = some z) : globalBin h m false true v = some (edgeToVal z.emptyRef) := by
  simp only [globalBin, Bool.or_true, if_true, Bool.false_eq_true, if_false,
    handleZeroTP_zero h m z 1 0 hh]
  rfl

/-- both empty: the handler's NO_INSTANCES value -/
theorem global_no_instances (h : Handler) (m : Metric) (z : ZeroTP) (v : RVal)
    (hh : h.lookup m = some z) : globalBin h m true true v = some (edgeToVal z.noInstances) := by
  simp only [globalBin, Bool.or_true, if_true,
    handleZeroTP_zero h m z 0 0 hh]
  rfl

/-- regression (repaired defect): the pre-fix call passed emptiness flags where counts are
    expected, exchanging EMPTY_PRED / EMPTY_REF and mapping both-empty to NORMAL -/
example :
    let h : Handler := { table := [(.DSC, { noInstances := .NAN, emptyPred := .ZERO, emptyRef := .ONE, normal := .INF })],
                         emptyListStd := .NAN }
    globalBinLegacy h .DSC true false (.num 7) = some (.num 1) ∧
    globalBin h .DSC true false (.num 7) = some (.num 0) ∧
    globalBinLegacy h .DSC true true (.num 7) = some .inf ∧
    globalBin h .DSC true true (.num 7) = some .nan := by
  refine ⟨?_, ?_, ?_, ?_⟩ <;> rfl

end Panoptica.C13
