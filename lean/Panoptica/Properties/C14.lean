/-
  C14 — the merge matcher only merges when it improves the match.
  For an arbitrary score type with total preorder `le`, both directions, every threshold, every
  candidate list and every combined-score function `comb`.
-/
import Panoptica.Proofs.Merge
namespace Panoptica.C14
open Panoptica

variable {S : Type} (le : S → S → Bool) (dec : Bool) (thr : S) (comb : Lab → List Lab → S)

/-- "at least as good" in the metric's preferred direction -/
def betterEqS (a b : S) : Bool := if dec then le a b else le b a

/-- every predicted instance is assigned to at most one reference -/
theorem merge_functional (cs : List (Cand S)) :
    ((mergeLoop le dec thr comb cs).lmap.map (·.1)).Nodup := by
  unfold mergeLoop
  exact foldl_inv (mergeStep le dec thr comb) InvNodup (fun _ => True)
    (fun st c _ h => InvNodup_step le dec thr comb st c h) cs _ (fun _ _ => trivial)
    (by simp [InvNodup])

/-- the score table is defined exactly on the matched references (so the `score_ref[ref_label]`
    lookup of the loop never fails) -/
theorem scores_defined (cs : List (Cand S)) (r : Lab) :
    ((mergeLoop le dec thr comb cs).scores.get? r).isSome = (mergeLoop le dec thr comb cs).lmap.containsRef r := by
  unfold mergeLoop
  exact foldl_inv (mergeStep le dec thr comb) InvDef (fun _ => True)
    (fun st c _ h => InvDef_step le dec thr comb st c h) cs _ (fun _ _ => trivial)
    (by intro r; simp [ScoreRef.get?, LMap.containsRef]) r

/-- a reference is matched only if some single prediction meets the threshold on its own:
    the first prediction assigned to it (the founder) is a candidate whose own score meets the threshold -/
theorem founder_eligible (cs : List (Cand S)) (r : Lab)
    (h : (mergeLoop le dec thr comb cs).lmap.containsRef r = true) :
    ∃ c ∈ cs, c.ref = r ∧ beats le dec c.score thr = true ∧
      ((mergeLoop le dec thr comb cs).lmap.predsOf r).head? = some c.pred := by
  have key : InvFounder le dec thr (· ∈ cs) (mergeLoop le dec thr comb cs) := by
    unfold mergeLoop
    exact foldl_inv (mergeStep le dec thr comb) (InvFounder le dec thr (· ∈ cs)) (· ∈ cs)
      (fun st c hq h => InvFounder_step le dec thr comb _ st c hq h) cs _ (fun _ h => h)
      (by intro r hr; simp [LMap.containsRef] at hr)
  obtain ⟨c, h1, h2, h3, h4⟩ := key r h
  exact ⟨c, h1, h2, h3, h4⟩

/-- one step: a further prediction is merged into an already matched reference only if the combined
    score is strictly better, in the metric's direction, than the score recorded before; the
    recorded score then becomes the combined score -/
theorem merge_strict (st : MergeState S) (c : Cand S)
    (hp : st.lmap.containsPred c.pred = false) (hr : st.lmap.containsRef c.ref = true)
    (hchg : (mergeStep le dec thr comb st c).lmap ≠ st.lmap) :
    ∃ old, st.scores.get? c.ref = some old ∧
      strictlyBetter le dec (comb c.ref (st.lmap.predsOf c.ref ++ [c.pred])) old = true ∧
      (mergeStep le dec thr comb st c).lmap = st.lmap ++ [(c.pred, c.ref)] ∧
      (mergeStep le dec thr comb st c).scores.get? c.ref = some (comb c.ref (st.lmap.predsOf c.ref ++ [c.pred])) := by
  have _ := hp
  rcases mergeStep_cases le dec thr comb st c with e | ⟨_, hr', _, _⟩ | ⟨_, _, old, ho, hsb, e⟩
  · rw [e] at hchg; exact absurd rfl hchg
  · rw [hr] at hr'; exact Bool.noConfusion hr'
  · refine ⟨old, ho, hsb, ?_, ?_⟩
    · rw [e]
    · rw [e]; exact ScoreRef.get?_set_self _ _ _

/-- one step: nothing else ever changes the assignment — a step either leaves the state alone,
    founds a new reference with an eligible candidate, or is a strict-improvement merge -/
theorem step_cases (st : MergeState S) (c : Cand S) :
    mergeStep le dec thr comb st c = st ∨
    (st.lmap.containsPred c.pred = false ∧ st.lmap.containsRef c.ref = false ∧
       beats le dec c.score thr = true ∧
       (mergeStep le dec thr comb st c).lmap = st.lmap ++ [(c.pred, c.ref)]) ∨
    (st.lmap.containsPred c.pred = false ∧ st.lmap.containsRef c.ref = true ∧
       (mergeStep le dec thr comb st c).lmap = st.lmap ++ [(c.pred, c.ref)]) := by
  rcases mergeStep_cases le dec thr comb st c with e | ⟨hp, hr, hb, e⟩ | ⟨hp, hr, _, _, _, e⟩
  · exact Or.inl e
  · exact Or.inr (Or.inl ⟨hp, hr, hb, by rw [e]⟩)
  · exact Or.inr (Or.inr ⟨hp, hr, by rw [e]⟩)

/-- bookkeeping invariant: when the candidates' own scores are consistent with `comb`
    (`score = comb ref [pred]`, as in the code where both come from the matching metric), the
    recorded score of every matched reference is the combined score of exactly the predictions
    assigned to it -/
theorem score_invariant (cs : List (Cand S)) (hcons : ∀ c ∈ cs, c.score = comb c.ref [c.pred])
    (r : Lab) (s : S) (h : (mergeLoop le dec thr comb cs).scores.get? r = some s) :
    s = comb r ((mergeLoop le dec thr comb cs).lmap.predsOf r) := by
  have key : InvScore comb (mergeLoop le dec thr comb cs) := by
    unfold mergeLoop
    exact foldl_inv (mergeStep le dec thr comb) (InvScore comb)
      (fun c => c.score = comb c.ref [c.pred])
      (fun st c hq h => InvScore_step le dec thr comb st c hq h) cs _ hcons
      (by intro r s hs; simp [ScoreRef.get?] at hs)
  exact key r s h

/-- the final score of every matched reference meets the threshold -/
theorem final_meets_threshold
    (htrans : ∀ a b c, le a b = true → le b c = true → le a c = true)
    (cs : List (Cand S)) (r : Lab) (s : S)
    (h : (mergeLoop le dec thr comb cs).scores.get? r = some s) :
    beats le dec s thr = true := by
  have key : InvThr le dec thr (mergeLoop le dec thr comb cs) := by
    unfold mergeLoop
    exact foldl_inv (mergeStep le dec thr comb) (InvThr le dec thr) (fun _ => True)
      (fun st c _ h => InvThr_step le dec thr comb htrans st c h) cs _ (fun _ _ => trivial)
      (by intro r s hs; simp [ScoreRef.get?] at hs)
  exact key r s h

/-- the final score of every matched reference is at least as good as the own score of its founder,
    which (candidates being processed best-first) is its best single candidate -/
theorem final_at_least_founder
    (hrefl : ∀ a, le a a = true)
    (htrans : ∀ a b c, le a b = true → le b c = true → le a c = true)
    (cs : List (Cand S)) (r : Lab) (s : S)
    (h : (mergeLoop le dec thr comb cs).scores.get? r = some s) :
    ∃ c ∈ cs, c.ref = r ∧ ((mergeLoop le dec thr comb cs).lmap.predsOf r).head? = some c.pred ∧
      betterEqS le dec s c.score = true := by
  have key : InvBest le dec (· ∈ cs) (mergeLoop le dec thr comb cs) := by
    unfold mergeLoop
    exact foldl_inv (mergeStep le dec thr comb) (InvBest le dec (· ∈ cs)) (· ∈ cs)
      (fun st c hq h => InvBest_step le dec thr comb hrefl htrans _ st c hq h) cs _ (fun _ h => h)
      (by intro r s hs; simp [ScoreRef.get?] at hs)
  obtain ⟨c, h1, h2, h3, h4⟩ := key r s h
  exact ⟨c, h1, h2, h3, h4⟩

/-- non-vacuity / regression: with a lower-is-better metric a fragment that makes the score worse
    (10 → 25) is rejected and one that improves it (10 → 7) is merged -/
example :
    (mergeLoop (fun (a b : Nat) => decide (a ≤ b)) true 12
      (fun _ ps => if ps == [1, 2] then 25 else if ps == [1, 3] then 7 else 99)
      [⟨10, 1, 1⟩, ⟨30, 1, 2⟩, ⟨40, 1, 3⟩]).lmap = [(1, 1), (3, 1)] := by decide

end Panoptica.C14
