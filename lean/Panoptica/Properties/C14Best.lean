/-
  C14, the "hence" clause at full strength — the final score of every matched reference is at least as
  good as that of its *best single candidate*: best-first processing makes the founder of a reference
  the best of all its candidates that were still free, so the only candidates of a matched reference
  that may score better than its final score are predictions that went to a *different* reference.
  (This is the oracle the C14 check applies to the implementation's label map.)
  For an arbitrary score type with a total preorder `le`, both directions, every threshold, every
  candidate list (duplicates and inconsistent scores included) and every combined-score function.
-/
import Panoptica.Proofs.MergeBest
import Panoptica.Properties.C14
namespace Panoptica.C14
open Panoptica

variable {S : Type} (le : S → S → Bool) (dec : Bool) (thr : S) (comb : Lab → List Lab → S)

/-- the final score of a matched reference is at least as good as the own score of every one of its
    candidates whose prediction was not assigned to another reference -/
theorem final_at_least_best_free
    (hrefl : ∀ a, le a a = true)
    (htrans : ∀ a b c, le a b = true → le b c = true → le a c = true)
    (htotal : ∀ a b, le a b = true ∨ le b a = true)
    (cs : List (Cand S)) (r : Lab) (s : S)
    (h : (mergeMatch le dec thr comb cs).scores.get? r = some s) :
    ∀ c ∈ cs, c.ref = r →
      (∃ r', r' ≠ r ∧ (c.pred, r') ∈ (mergeMatch le dec thr comb cs).lmap) ∨
      betterEqS le dec s c.score = true := by
  intro c hc hcr
  unfold mergeMatch mergeLoop at h ⊢
  exact best_free_fold le dec thr comb hrefl htrans r (sortBest le dec cs) _
    (sortBest_pairwise le dec htrans htotal cs)
    (by intro r; simp [ScoreRef.get?, LMap.containsRef])
    (by intro r s hs; simp [ScoreRef.get?] at hs)
    s h c ((mem_sortBest le dec cs c).mpr hc) hcr

/-- a reference stays unmatched only if every one of its candidates that meets the threshold on its own
    went to another reference (in whatever order the candidates are processed) -/
theorem unmatched_has_no_free_eligible
    (cs : List (Cand S)) (r : Lab)
    (h : (mergeLoop le dec thr comb cs).lmap.containsRef r = false) :
    ∀ c ∈ cs, c.ref = r → beats le dec c.score thr = true →
      ∃ r', r' ≠ r ∧ (c.pred, r') ∈ (mergeLoop le dec thr comb cs).lmap := by
  unfold mergeLoop at h ⊢
  exact unmatched_free_fold le dec thr comb r cs _ h

/-- non-vacuity: reference 1 has candidates 16 (score 60) and 3 (score 35), reference 2 takes
    prediction 16 first (score 90; the list is in best-first order); reference 1 ends with prediction 3 alone, and the only candidate
    scoring better than its final score went to reference 2 -/
example :
    (mergeLoop (fun (a b : Nat) => decide (a ≤ b)) false 30 (fun _ _ => 0)
      [⟨90, 2, 16⟩, ⟨60, 1, 16⟩, ⟨35, 1, 3⟩]).lmap = [(16, 2), (3, 1)] := by decide

end Panoptica.C14
