/-
  C15 — evaluation is pure: no history, option or worker dependence.
  The model's inputs are immutable values and `starmap f xs = xs.map f`; non-mutation of the
  caller's arrays and serial-vs-pool equality are observations about the real code (harness).
  What is proved here is the part that is logic: along EVERY sequence of operations on any number
  of evaluators and aggregators, an evaluator's configuration and advertised keys never change and
  every `evaluate` returns the value determined by its configuration and input alone.
-/
import Panoptica.Proofs.Purity
namespace Panoptica.C15
open Panoptica.Pure

/-- well-formed world: every cached location exists, is private to its evaluator and is not an
    aggregator's key list; aggregator key lists exist -/
def WF (w : World) : Prop :=
  ∀ (e : Nat) (ev : Evaluator), w.evals[e]? = some ev → ∀ c, ev.cache = some c → c < w.heap.length ∧
    (∀ (e' : Nat) (ev' : Evaluator), w.evals[e']? = some ev' → ev'.cache = some c → e' = e) ∧ c ∉ w.aggKeys ∧
    (∀ l ∈ w.aggKeys, l < w.heap.length)

/-- no operation changes any evaluator's configuration, and evaluators are never removed -/
theorem cfg_stable (w : World) (op : Op) (e : Nat) (ev : Evaluator) (h : w.evals[e]? = some ev) :
    ∃ ev', (step w op).1.evals[e]? = some ev' ∧ ev'.cfg = ev.cfg := by
  sorry

/-- the advertised metric keys of every existing evaluator are unchanged by every operation
    (in particular by constructing aggregators with `log_times=True` from it) -/
theorem keys_stable_step (w : World) (hw : WF w) (op : Op) (e : Nat) (ks : List String)
    (h : advertised w e = some ks) : advertised (step w op).1 e = some ks ∧ WF (step w op).1 := by
  sorry

/-- ... hence along every history: the keys are those determined by the configuration -/
theorem keys_stable (ops : List Op) (e : Nat) (ev : Evaluator)
    (h : (runOps step empty ops).1.evals[e]? = some ev) :
    advertised (runOps step empty ops).1 e = some (resultKeys ev.cfg.evalMetrics ev.cfg.globalMetrics) := by
  sorry

/-- history and option independence: whatever happened before (`pre`), whatever options are passed,
    `evaluate` on evaluator `e` returns the result determined by the configuration it was built
    with and the input alone, and never fails for an existing evaluator -/
theorem history_independent (pre : List Op) (e : Nat) (ev : Evaluator) (input : Nat) (o : Opts)
    (h : (runOps step empty pre).1.evals[e]? = some ev) :
    ∃ t, (step (runOps step empty pre).1 (Op.evaluate e input o)).2 = Out.result ev.cfg input t := by
  sorry

/-- the configuration an evaluator saves after any history is the one it was constructed with -/
theorem config_stable (pre post : List Op) (cfg : EvalCfg) :
    let w1 := (runOps step empty (pre ++ [Op.newEvaluator cfg])).1
    let e := (runOps step empty pre).1.evals.length
    (step (runOps step w1 post).1 (Op.saveConfig e)).2 = Out.config cfg := by
  sorry

/-- regression (repaired defect): with the cached list handed out by reference, one aggregator
    with `log_times=True` changed the evaluator's advertised keys -/
example :
    let cfg : EvalCfg := { evalMetrics := [.IOU], globalMetrics := [], saveGroupTimes := false, tag := 0 }
    advertised (runOps stepLegacy empty [Op.newEvaluator cfg, Op.newAggregator 0 true]).1 0
      ≠ some (resultKeys [.IOU] []) ∧
    advertised (runOps step empty [Op.newEvaluator cfg, Op.newAggregator 0 true]).1 0
      = some (resultKeys [.IOU] []) := by
  constructor <;> decide

end Panoptica.C15
