/-
  C15 — evaluation is pure: no history, option or worker dependence.
  The model's inputs are immutable values and `starmap f xs = xs.map f`; non-mutation of the
  caller's arrays and serial-vs-pool equality are observations about the real code (harness).
  What is proved here is the part that is logic: along EVERY sequence of operations on any number
  of evaluators and aggregators, an evaluator's configuration and advertised keys never change and
  every `evaluate` returns the value determined by its configuration and input alone.
-/
import Panoptica.Proofs.Purity
namespace Panoptica.C15
open Panoptica.Pure

/-- well-formed world: every aggregator key list exists; every cached location exists, is private
    to its evaluator and is not an aggregator's key list -/
def WF (w : World) : Prop :=
  (∀ l : Nat, l ∈ w.aggKeys → l < w.heap.length) ∧
  ∀ (e : Nat) (ev : Evaluator) (c : Nat), w.evals[e]? = some ev → ev.cache = some c →
    c < w.heap.length ∧ c ∉ w.aggKeys ∧
    ∀ (e' : Nat) (ev' : Evaluator), w.evals[e']? = some ev' → ev'.cache = some c → e' = e

/-- no operation changes any evaluator's configuration, and evaluators are never removed -/
theorem cfg_stable (w : World) (op : Op) (e : Nat) (ev : Evaluator) (h : w.evals[e]? = some ev) :
    ∃ ev', (step w op).1.evals[e]? = some ev' ∧ ev'.cfg = ev.cfg :=
  cfg_stable_step w op e ev h

/-- the advertised metric keys of every existing evaluator are unchanged by every operation
    (in particular by constructing aggregators with `log_times=True` from it), and well-formedness
    is preserved -/
theorem keys_stable_step (w : World) (hw : WF w) (op : Op) (e : Nat) (ks : List String)
    (h : advertised w e = some ks) : advertised (step w op).1 e = some ks ∧ WF (step w op).1 := by
  obtain ⟨h1, h2⟩ := step_strong w hw op
  exact ⟨h2 e ks h, h1⟩

/-- every reachable world is well-formed -/
theorem WF_reachable (ops : List Op) : WF (runOps step empty ops).1 :=
  (Good_run ops).1

/-- ... hence along every history: the keys are those determined by the configuration -/
theorem keys_stable (ops : List Op) (e : Nat) (ev : Evaluator)
    (h : (runOps step empty ops).1.evals[e]? = some ev) :
    advertised (runOps step empty ops).1 e = some (resultKeys ev.cfg.evalMetrics ev.cfg.globalMetrics) :=
  (Good_run ops).2 e ev h

/-- history and option independence: whatever happened before (`pre`), whatever options are passed,
    `evaluate` on evaluator `e` returns the result determined by the configuration it was built
    with and the input alone, and never fails for an existing evaluator -/
theorem history_independent (pre : List Op) (e : Nat) (ev : Evaluator) (input : Nat) (o : Opts)
    (h : (runOps step empty pre).1.evals[e]? = some ev) :
    ∃ t, (step (runOps step empty pre).1 (Op.evaluate e input o)).2 = Out.result ev.cfg input t :=
  ⟨_, step_evaluate _ e input o ev h⟩

/-- the configuration an evaluator saves after any history is the one it was constructed with -/
theorem config_stable (pre post : List Op) (cfg : EvalCfg) :
    let w1 := (runOps step empty (pre ++ [Op.newEvaluator cfg])).1
    let e := (runOps step empty pre).1.evals.length
    (step (runOps step w1 post).1 (Op.saveConfig e)).2 = Out.config cfg := by
  intro w1 e
  have h1 : w1.evals[e]? = some { cfg := cfg, cache := none } := by
    show (runOps step empty (pre ++ [Op.newEvaluator cfg])).1.evals[e]? = _
    rw [runOps_append_fst]
    show ((runOps step empty pre).1.evals ++ [{ cfg := cfg, cache := none }])[e]? = _
    simp [e]
  obtain ⟨ev', h2, hc⟩ := cfg_stable_run w1 post e _ h1
  rw [step_saveConfig _ e ev' h2, hc]

/-- regression (repaired defect): with the cached list handed out by reference, one aggregator
    with `log_times=True` changed the evaluator's advertised keys -/
example :
    let cfg : EvalCfg := { evalMetrics := [.IOU], globalMetrics := [], saveGroupTimes := false, tag := 0 }
    advertised (runOps stepLegacy empty [Op.newEvaluator cfg, Op.newAggregator 0 true]).1 0
      ≠ some (resultKeys [.IOU] []) ∧
    advertised (runOps step empty [Op.newEvaluator cfg, Op.newAggregator 0 true]).1 0
      = some (resultKeys [.IOU] []) := by
  constructor <;> decide

end Panoptica.C15
