/-
  C16 — concurrent aggregation records every subject exactly once, intact.
  For any number `N` of threads (each an `evaluate(subject)` or a `make_statistic()` call), any
  assignment of subject names (distinct or colliding) and EVERY schedule (list of thread numbers
  below `N`), starting from the state the constructor leaves (`initSt kind old`).
-/
import Panoptica.Proofs.Aggregator
namespace Panoptica.C16
open Panoptica.Agg

variable (name : Nat → Nat) (kind : Nat → Kind)

/-- thread holds `inevalfilelock` -/
def inL1 : PC → Bool
  | .read | .writeBuf | .relL1 | .relL1Skip => true
  | _ => false

/-- thread holds `filelock` -/
def inL2 : PC → Bool
  | .writeOut1 | .writeOut2 | .relL2 | .sRead | .sRel => true
  | _ => false

/-- well-formed starting point: the rows already in the file are complete and name distinct subjects -/
def OldOK (old : List Row) : Prop := (old.map (·.name)).Nodup ∧ ∀ r ∈ old, r.complete = true

/-- no subject is ever recorded twice, in any reachable state -/
theorem rows_unique (old : List Row) (hold : OldOK old) (sched : List Nat) :
    ((run name (initSt kind old) sched).out.map (·.name)).Nodup := by
  have hinv := run_inv name kind old sched _ (init_inv name kind old hold.1 hold.2)
  exact hinv.outNodup

/-- mutual exclusion: the lock owner is exactly the thread inside the section -/
theorem lock_exclusion (old : List Row) (hold : OldOK old) (sched : List Nat) (i : Nat) :
    (inL1 ((run name (initSt kind old) sched).pc i) = true ↔ (run name (initSt kind old) sched).l1 = some i) ∧
    (inL2 ((run name (initSt kind old) sched).pc i) = true ↔ (run name (initSt kind old) sched).l2 = some i) := by
  have hinv := run_inv name kind old sched _ (init_inv name kind old hold.1 hold.2)
  have e1 : inL1 = holds1 := by funext p; cases p <;> rfl
  have e2 : inL2 = holds2 := by funext p; cases p <;> rfl
  rw [e1, e2]
  exact ⟨hinv.l1Own i, hinv.l2Own i⟩

/-- an incomplete row exists only while its writer holds the file lock in the middle of the write -/
theorem partial_only_under_lock (old : List Row) (hold : OldOK old) (sched : List Nat)
    (r : Row) (hr : r ∈ (run name (initSt kind old) sched).out) (hc : r.complete = false) :
    (run name (initSt kind old) sched).pc r.tid = .writeOut2 ∧ (run name (initSt kind old) sched).l2 = some r.tid := by
  have hinv := run_inv name kind old sched _ (init_inv name kind old hold.1 hold.2)
  have h1 := hinv.partialB r hr hc
  exact ⟨h1, (hinv.l2Own r.tid).mp (by rw [h1]; rfl)⟩

/-- a statistics object built at any moment reflects only complete rows -/
theorem stat_complete_rows (old : List Row) (hold : OldOK old) (sched : List Nat) (i : Nat) :
    ∀ r ∈ (run name (initSt kind old) sched).seen i, r.complete = true := by
  have hinv := run_inv name kind old sched _ (init_inv name kind old hold.1 hold.2)
  exact hinv.seenC i

/-- when all calls have returned the file holds exactly one complete row for every distinct subject
    submitted (also when a name was submitted concurrently more than once); previously recorded rows
    are kept; every new row was written by a thread that submitted that subject -/
theorem final_rows (old : List Row) (hold : OldOK old) (N : Nat) (sched : List Nat)
    (hsched : ∀ i ∈ sched, i < N)
    (hdone : ∀ i < N, (run name (initSt kind old) sched).pc i = .done) :
    let s := run name (initSt kind old) sched
    (s.out.map (·.name)).Nodup ∧ (∀ r ∈ s.out, r.complete = true) ∧
    (∀ i < N, kind i = .eval → ∃ r ∈ s.out, r.name = name i) ∧
    (∀ r ∈ old, r ∈ s.out) ∧
    (∀ r ∈ s.out, r ∈ old ∨ (r.tid < N ∧ kind r.tid = .eval ∧ name r.tid = r.name)) := by
  have hinv := run_inv name kind old sched _ (init_inv name kind old hold.1 hold.2)
  exact final_rows_gen name kind old N _ hinv
    (run_moved name kind N sched _ hsched (init_moved kind old N)) hdone

/-- every step makes progress for the stepping thread and touches no other thread's program counter -/
theorem step_progress (s s' : St) (i : Nat) (h : step name s i = some s') :
    remaining (s'.pc i) < remaining (s.pc i) ∧ ∀ j, j ≠ i → s'.pc j = s.pc j := by
  exact Agg.step_progress name s s' i h

/-- no deadlock: in every reachable state with an unfinished thread some thread below `N` can step -/
theorem no_deadlock (old : List Row) (hold : OldOK old) (N : Nat) (sched : List Nat)
    (hsched : ∀ i ∈ sched, i < N) (i : Nat) (hi : i < N)
    (hnd : (run name (initSt kind old) sched).pc i ≠ .done) :
    ∃ j, j < N ∧ (step name (run name (initSt kind old) sched) j).isSome = true := by
  have hinv := run_inv name kind old sched _ (init_inv name kind old hold.1 hold.2)
  exact no_deadlock_gen name kind old N _ hinv
    (run_moved name kind N sched _ hsched (init_moved kind old N)) i hi hnd

/-- no call blocks forever: from every reachable state some continuation of the schedule finishes
    every thread (and, by `step_progress`, at most `14·N` effective steps can be taken at all) -/
theorem can_finish (old : List Row) (hold : OldOK old) (N : Nat) (sched : List Nat)
    (hsched : ∀ i ∈ sched, i < N) :
    ∃ more : List Nat, (∀ i ∈ more, i < N) ∧ ∀ i < N, (run name (initSt kind old) (sched ++ more)).pc i = .done := by
  have hinv := run_inv name kind old sched _ (init_inv name kind old hold.1 hold.2)
  obtain ⟨more, h1, h2⟩ := can_finish_gen name kind old N _ _ rfl hinv
    (run_moved name kind N sched _ hsched (init_moved kind old N))
  exact ⟨more, h1, fun i hi => by rw [run_append]; exact h2 i hi⟩

/-- non-vacuity: two threads racing for the same subject name 7 and a statistics thread -/
example :
    let kd : Nat → Kind := fun i => if i = 2 then Kind.stat else Kind.eval
    let s := run (fun _ => 7) (initSt kd []) [0, 0, 0, 0, 1, 1, 1, 0, 0, 2, 0, 0, 0, 2, 2, 2]
    s.out = [⟨7, 0, true⟩] ∧ s.pc 0 = .done ∧ s.pc 1 = .done ∧ s.pc 2 = .done ∧ s.seen 2 = [⟨7, 0, true⟩] := by
  decide

end Panoptica.C16
