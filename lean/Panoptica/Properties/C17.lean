/-
  C17 — aggregation survives crashes, restarts and neighbouring aggregators.
  A history is any list of operations on one output path: start a new aggregator session (only
  possible when no session is live), take the next constructor step, let thread `i` take a step,
  or crash (kill the process: threads and locks vanish, both files stay as they are). Crash points
  are all points between two file/lock operations (a kill inside a single `write` is excluded).
-/
import Panoptica.Proofs.Aggregator
namespace Panoptica.C17
open Panoptica.Agg

variable (name : Nat → Nat)

/-- the output file is well formed: absent/empty without rows, or a single header followed by rows
    that name pairwise distinct subjects; an incomplete row exists only in the middle of a write -/
def FileOK (w : World) : Prop :=
  (w.outExists = false → w.hdrs = 0 ∧ w.st.out = []) ∧
  w.hdrs ≤ 1 ∧
  (w.st.out ≠ [] → w.hdrs = 1) ∧
  (w.st.out.map (·.name)).Nodup ∧
  (∀ r ∈ w.st.out, r.complete = false → w.phase = .running ∧ w.st.pc r.tid = .writeOut2)

/-- the initial file states the property lists (absent, empty, header only, header + rows), with
    any leftover buffer file -/
theorem initial_states_ok (rows : List Row) (hrows : (rows.map (·.name)).Nodup ∧ ∀ r ∈ rows, r.complete = true)
    (bufExists : Bool) (buf : List Nat) :
    FileOK (initWorld false false [] bufExists buf) ∧ FileOK (initWorld true false [] bufExists buf) ∧
    FileOK (initWorld true true [] bufExists buf) ∧ FileOK (initWorld true true rows bufExists buf) := by
  refine ⟨?_, ?_, ?_, ?_⟩ <;> simp [FileOK, initWorld, hrows.1] <;> grind

/-- the file stays well formed along every history (every interleaving, every crash point, any
    number of sessions), and a session never fails on a well-formed file -/
theorem file_inv (w : World) (hw : FileOK w) (hidle : w.phase = .idle) (ops : List Op) :
    FileOK (wrun name w ops) ∧ (wrun name w ops).phase ≠ .failed := by
  have h := winv_run name ops w (winv_of_idle name w hw hidle)
  refine ⟨h.1, ?_⟩
  intro hf
  have := h.2
  rw [hf] at this
  exact this

/-- rows once recorded are never lost or altered by any later history -/
theorem rows_kept (w : World) (hw : FileOK w) (hidle : w.phase = .idle) (ops : List Op)
    (r : Row) (hr : r ∈ w.st.out) (hc : r.complete = true) : r ∈ (wrun name w ops).st.out := by
  have _ := hw
  have _ := hidle
  exact wrun_out_kept name ops w r hr hc

/-- the constructor, run to completion on a well-formed file, leaves: the header present exactly
    once, the rows untouched, the claim buffer equal to the recorded subjects, both locks free -/
theorem ctor_completes (w : World) (hw : FileOK w) (hidle : w.phase = .idle) (kind : Nat → Kind) :
    let w' := wrun name w (Op.newSession kind :: List.replicate 12 Op.ctor)
    w'.phase = .running ∧ w'.outExists = true ∧ w'.hdrs = 1 ∧ w'.st.out = w.st.out ∧
    w'.st.buf = w.st.out.map (·.name) ∧ w'.st.l1 = none ∧ w'.st.l2 = none ∧ w'.bufExists = true := by
  have e := ctor_run_eq name w hw hidle kind
  intro w'
  have e' : w' = _ := e
  rw [e']
  exact ⟨rfl, rfl, rfl, rfl, rfl, rfl, rfl, rfl⟩

/-- restart: after ANY earlier history (whose only trace is a well-formed file and possibly a stale
    buffer), a new session in which all calls return leaves the header exactly once and exactly one
    complete row for every subject submitted in it; subjects finished earlier are skipped (their
    rows kept, none duplicated), unfinished ones are evaluated again -/
theorem restart_exact (w : World) (hw : FileOK w) (hidle : w.phase = .idle) (kind : Nat → Kind)
    (N : Nat) (sched : List Nat) (hsched : ∀ i ∈ sched, i < N)
    (hdone : ∀ i < N,
      (wrun name w (Op.newSession kind :: List.replicate 12 Op.ctor ++ sched.map Op.thread)).st.pc i = .done) :
    let w' := wrun name w (Op.newSession kind :: List.replicate 12 Op.ctor ++ sched.map Op.thread)
    w'.hdrs = 1 ∧ (w'.st.out.map (·.name)).Nodup ∧ (∀ r ∈ w'.st.out, r.complete = true) ∧
    (∀ i < N, kind i = .eval → ∃ r ∈ w'.st.out, r.name = name i) ∧
    (∀ r ∈ w.st.out, r ∈ w'.st.out) ∧
    (∀ r ∈ w'.st.out, r ∈ w.st.out ∨ (r.tid < N ∧ kind r.tid = .eval ∧ name r.tid = r.name)) := by
  exact restart_gen name w hw hidle kind N sched hsched hdone

/-! ### neighbouring aggregators: the buffer file is private to its output file -/

/-- different output files (in one directory) have different buffer files -/
theorem bufName_injective (a b : String) (h : bufName a = bufName b) : a = b := by
  unfold bufName at h
  exact (String.append_left_inj _).mp h

/-- a buffer file is not the output file `b.tsv` of a neighbour, unless that neighbour is itself
    named like a buffer file -/
theorem bufName_not_output (a b : String) (h : bufName a = b ++ ".tsv") :
    b = a ++ "_panoptica_aggregator_tmp" := by
  have e : "_panoptica_aggregator_tmp.tsv" = "_panoptica_aggregator_tmp" ++ ".tsv" := by decide
  unfold bufName at h
  rw [e, ← String.append_assoc] at h
  exact ((String.append_left_inj _).mp h).symm

/-- regression (repaired defect): the pre-fix name was the same for every output file -/
example : bufNameLegacy "x" = bufNameLegacy "y" ∧ bufName "x" ≠ bufName "y" := by
  constructor
  · rfl
  · decide

/-- non-vacuity: a crash between claim and row write, then a restart that resubmits the subject -/
example :
    let kd : Nat → Kind := fun _ => Kind.eval
    let ops := [Op.newSession kd] ++ List.replicate 12 Op.ctor ++ [Op.thread 0, Op.thread 0, Op.thread 0, Op.thread 0, Op.crash]
             ++ [Op.newSession kd] ++ List.replicate 12 Op.ctor ++ (List.replicate 10 (Op.thread 0))
    let w := wrun (fun _ => 7) (initWorld false false [] false []) ops
    w.hdrs = 1 ∧ w.st.out = [⟨7, 0, true⟩] ∧ w.st.pc 0 = .done := by
  decide

end Panoptica.C17
