/-
  C18 — what the aggregator writes is what the statistics loader reads.
  For any number of groups with arbitrary names (incl. '-', '_', spaces), any subject names, any
  selection of metric keys without '-', any result values incl. NaN/inf/None/absent.
-/
import Panoptica.Proofs.Table
namespace Panoptica.C18
open Panoptica.Tbl

/-- a header cell splits back into exactly its group and metric, whatever the group name contains -/
theorem rsplit_headerCell (g m : Str) (hm : '-' ∉ m) : rsplitDash (headerCell g m) = (g, m) := by
  exact rsplitDash_headerCell g m hm

/-- the loader recovers the (group, metric) key of every column, in order -/
theorem header_roundtrip {F : Type} (groups keys : List Str) (hk : ∀ m ∈ keys, '-' ∉ m)
    (rows : List (Str × List (Option (WVal F)))) :
    (load (mkHeader groups keys) rows).keys = groups.flatMap (fun g => keys.map (fun m => (g, m))) := by
  exact keys_mkHeader groups keys hk rows

/-- the metric identifiers a result can expose contain no '-' -/
def metricKeys : List Str :=
  ["num_ref_instances", "num_pred_instances", "tp", "fp", "fn", "prec", "rec", "rq", "sq", "sq_std", "pq",
   "sq_dsc", "sq_dsc_std", "pq_dsc", "sq_cldsc", "sq_cldsc_std", "pq_cldsc", "sq_assd", "sq_assd_std",
   "sq_rvd", "sq_rvd_std", "global_bin_dsc", "global_bin_iou", "global_bin_assd", "global_bin_cldsc",
   "global_bin_rvd", "computation_time"].map String.toList

theorem metricKeys_no_dash : ∀ m ∈ metricKeys, '-' ∉ m := by
  decide

/-- only finite values survive; NaN, ±inf, None and uncomputed (absent) values are missing -/
theorem classify_spec {F : Type} (x : F) :
    classify (some (WVal.fin x)) = some x ∧ classify (some (WVal.nan : WVal F)) = none ∧
    classify (some (WVal.inf : WVal F)) = none ∧ classify (some (WVal.ninf : WVal F)) = none ∧
    classify (some (WVal.none : WVal F)) = none ∧ classify (Option.none : Option (WVal F)) = none := by
  exact ⟨rfl, rfl, rfl, rfl, rfl, rfl⟩

/-- alignment: every value a result reports for subject `s`, group `g`, metric `m` is recovered under
    exactly that subject, group and metric (missing iff not finite); no value is attributed to
    another group or metric -/
theorem aligned {F : Type} (groups keys subjects : List Str) (res : Str → Str → Str → Option (WVal F))
    (hg : groups.Nodup) (hkn : keys.Nodup) (hk : ∀ m ∈ keys, '-' ∉ m) (hs : subjects.Nodup)
    (s g m : Str) (hsm : s ∈ subjects) (hgm : g ∈ groups) (hmm : m ∈ keys) :
    (load (mkHeader groups keys) (subjects.map (fun s => mkRow groups keys s (res s)))).get s g m
      = some (classify (res s g m)) := by
  -- the Nodup hypotheses are not needed: lookups take the first matching index
  have _ := And.intro hg (And.intro hkn hs)
  exact get_aligned groups keys subjects res hk s g m hsm hgm hmm

/-- every row has one cell per header column -/
theorem row_width {F : Type} (groups keys : List Str) (s : Str) (res : Str → Str → Option (WVal F)) :
    (mkRow groups keys s res).2.length + 1 = (mkHeader groups keys).length := by
  simp only [mkRow, mkHeader, List.length_cons]
  rw [length_row groups keys res (fun g m => headerCell g m)]

/-- non-vacuity / regression (repaired defect: the loader used to split on every '-') -/
example : rsplitDash "my-grp-sq_dsc".toList = ("my-grp".toList, "sq_dsc".toList) := by decide

end Panoptica.C18
