/-
  C19 — saving and loading a configuration reproduces the same evaluator.
  Generic part: for EVERY class descriptor that is `WellFormed` (decidable), every value type,
  every constructor-default table and every argument table, saving → loading → saving reproduces
  the saved mapping, and the reloaded object has the same represented settings.
  Specific part: panoptica's descriptors — as extracted from the current source on every run
  (Extracted/Config.lean: `Generated.classes = expectedClasses`) — are well formed.
-/
import Panoptica.Proofs.Basic
import Panoptica.Proofs.Config
namespace Panoptica.C19
open Panoptica.Cfg

variable {V : Type}

/-- assumptions on the value domain: None is recognisable, freshly created default objects are not
    None, and the normalisations applied in constructors are idempotent
    (`list(set(list(set(x)))) = list(set(x))`, lower-casing of names) -/
structure SemOK (S : Sem V) : Prop where
  none_eq : ∀ v, S.isNone v = true → v = S.none
  new_not_none : ∀ c, S.isNone (S.new c) = false
  norm_idem : ∀ n v, S.norm n (S.norm n v) = S.norm n v

/-- what is written to the file for an object built from the argument table `data` -/
def saved (S : Sem V) (defaults : String → V) (d : ClassDesc) (data : List (String × V)) : List (String × V) :=
  represent d (construct S defaults d data)

/-- save → load → save reproduces the same file: the mapping saved from the reloaded object equals
    the mapping saved from the original one -/
theorem save_load_save (S : Sem V) (hS : SemOK S) (defaults : String → V) (d : ClassDesc)
    (hd : WellFormed d = true) (hdef : ∀ q ∈ d.noneDefault, defaults q = S.none)
    (data : List (String × V)) :
    saved S defaults d (saved S defaults d data) = saved S defaults d data := by
  unfold saved
  exact represent_congr d _ _ (fun k a hk =>
    construct_saved_lookup S hS.none_eq hS.new_not_none hS.norm_idem defaults
      (wf_of_wellFormed hd) hdef data hk)

/-- every YAML key is written (nothing a well-formed class represents is dropped on saving) -/
theorem saved_keys (S : Sem V) (defaults : String → V) (d : ClassDesc) (hd : WellFormed d = true)
    (data : List (String × V)) :
    (saved S defaults d data).map (·.1) = reprKeys d := by
  exact represent_construct_keys S defaults (wf_of_wellFormed hd) data

/-- the reloaded object has identical represented settings: every attribute that some YAML key
    reads has the same value in the reloaded object as in the original -/
theorem reload_same_settings (S : Sem V) (hS : SemOK S) (defaults : String → V) (d : ClassDesc)
    (hd : WellFormed d = true) (hdef : ∀ q ∈ d.noneDefault, defaults q = S.none)
    (data : List (String × V)) (k a : String) (hk : (k, ReprE.attr a) ∈ d.repr) :
    lookup (construct S defaults d (saved S defaults d data)) a = lookup (construct S defaults d data) a := by
  exact construct_saved_lookup S hS.none_eq hS.new_not_none hS.norm_idem defaults
    (wf_of_wellFormed hd) hdef data hk

/-- a transformed value on the way out (example of what the decidable check rejects) -/
def badTransformed : ClassDesc where
  name := "X"
  bases := []
  inherits := none
  params := ["a", "b"]
  noneDefault := []
  stores := [("a", .param "a" .id), ("b", .param "b" .id)]
  repr := [("a", .attr "a"), ("b", .other "round(node.b, 2)")]

/-- a YAML key that is not a constructor parameter -/
def badKey : ClassDesc where
  name := "X"
  bases := []
  inherits := none
  params := ["a"]
  noneDefault := []
  stores := [("a", .param "a" .id)]
  repr := [("c", .attr "a")]

example : WellFormed badTransformed = false ∧ WellFormed badKey = false := by decide

/-- panoptica's configurable classes (all but the one outside the extractor's subset) are well formed -/
theorem panoptica_wellformed :
    ∀ d ∈ expectedClasses, d.name ∉ manualClasses → WellFormed d = true := by
  intro d hd hn
  simp only [expectedClasses, List.mem_cons, List.not_mem_nil, or_false] at hd
  rcases hd with rfl | rfl | rfl | rfl | rfl | rfl | rfl | rfl | rfl | rfl | rfl <;>
    first | decide | (exfalso; revert hn; decide)

/-- every attribute that influences a well-formed panoptica class's saved state is represented:
    each constructor parameter either is a YAML key or only serves as a None-default fall-back -/
theorem panoptica_params_represented :
    ∀ d ∈ expectedClasses, d.name ∉ manualClasses →
      ∀ p ∈ d.params, p ∈ reprKeys d ∨
        (p ∈ d.noneDefault ∧ d.stores.any (fun e => match e.2 with | .ifNoneParam _ q => q == p | _ => false) = true) := by
  intro d hd hn
  simp only [expectedClasses, List.mem_cons, List.not_mem_nil, or_false] at hd
  rcases hd with rfl | rfl | rfl | rfl | rfl | rfl | rfl | rfl | rfl | rfl | rfl <;>
    first | decide | (exfalso; revert hn; decide)

/-- enum values are (de)serialised by member name: names are pairwise distinct within each enum -/
theorem enum_names_distinct : ∀ e ∈ expectedEnums, e.2.Nodup := by
  decide

/-- The one normalisation a constructor applies to a list-valued setting — `LabelGroup` stores
    `sorted(set(value_labels))`, in the model `uniqueSorted` — is idempotent and independent of the order
    in which the labels were given, so it satisfies `SemOK.norm_idem` by theorem, not by assumption.
    (Before the repair the code stored `list(set(value_labels))`; CPython iterates `{3, 19}` as `[19, 3]`
    or `[3, 19]` depending on insertion order, so that normalisation was neither: save → load → save wrote
    a different file. Found by the class-group generator, repaired in /repo, see known_findings.json.) -/
theorem label_norm_idem (l : List Nat) : uniqueSorted (uniqueSorted l) = uniqueSorted l :=
  uniqueSorted_idem l

theorem label_norm_order_free (l l' : List Nat) (h : ∀ x, x ∈ l ↔ x ∈ l') : uniqueSorted l = uniqueSorted l' := by
  apply sorted_ext _ _ (uniqueSorted_sorted l) (uniqueSorted_sorted l')
  intro x
  rw [mem_uniqueSorted, mem_uniqueSorted]
  exact h x

example : uniqueSorted [19, 3] = uniqueSorted [3, 19] := by decide

end Panoptica.C19
