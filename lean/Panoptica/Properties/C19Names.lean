/-
  C19, configurations addressed by name — `byName` (Model/NameCode.lean; proved to be what `config_dir_by_name` computes,
  Extracted/NameCode.lean) for every name: the designated file name ends in ".yaml", keeps the whole name as a prefix (inner
  dots, version numbers and all), is the same whether or not the extension is spelled out, and two names designate the same
  file only if they are equal up to that optional extension — so configurations saved under different names never overwrite
  each other.
-/
import Panoptica.Model.NameCode
namespace Panoptica.C19
open Panoptica.NameCode

theorem byName_ends (n : List Char) : ext <:+ byName n := by
  unfold byName
  split
  · next h => exact List.isSuffixOf_iff_suffix.1 h
  · exact List.suffix_append n ext

theorem byName_prefix (n : List Char) : n <+: byName n := by
  unfold byName
  split
  · exact List.prefix_refl n
  · exact List.prefix_append n ext

theorem byName_idem (n : List Char) : byName (byName n) = byName n := by
  have h := List.isSuffixOf_iff_suffix.2 (byName_ends n)
  generalize byName n = m at h ⊢
  unfold byName
  rw [if_pos h]

/-- giving the extension explicitly designates the same file -/
theorem byName_with_ext (n : List Char) : byName (n ++ ext) = n ++ ext := by
  unfold byName
  rw [if_pos (List.isSuffixOf_iff_suffix.2 (List.suffix_append n ext))]

/-- two names designate the same file only if they agree up to the optional extension -/
theorem byName_inj (a b : List Char) (h : byName a = byName b) : a = b ∨ a = b ++ ext ∨ b = a ++ ext := by
  unfold byName at h
  split at h <;> split at h
  · exact Or.inl h
  · exact Or.inr (Or.inl h)
  · exact Or.inr (Or.inr h.symm)
  · exact Or.inl (List.append_cancel_right h)

/-- non-vacuity / the seeded regression: version-style names stay apart -/
example : byName "cfg_v1.0".toList ≠ byName "cfg_v1.5".toList ∧ byName "cfg_v1.0".toList = "cfg_v1.0.yaml".toList ∧
    byName "cfg.yaml".toList = "cfg.yaml".toList := by
  decide

end Panoptica.C19
