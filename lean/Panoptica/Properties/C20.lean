/-
  C20 — dataset summaries are the statistics of exactly the recorded finite values.
-/
import Panoptica.Proofs.Table
namespace Panoptica.C20
open Panoptica.Tbl

/-- missing entries (NaN, ±inf, None, absent — all `none` after loading, C18.classify_spec) do not
    influence a summary -/
theorem summary_ignores_missing (l₁ l₂ : List (Option Rat)) :
    summary (l₁ ++ none :: l₂) = summary (l₁ ++ l₂) := by
  simp only [summary, finite_append_none]

/-- the order of subjects is irrelevant -/
theorem summary_perm (l₁ l₂ : List (Option Rat)) (h : l₁.Perm l₂) : summary l₁ = summary l₂ := by
  exact summarize_perm (finite_perm h)

/-- average and population variance of exactly the finite values -/
theorem summary_avg_var (l : List (Option Rat)) :
    (summary l).avg = sumQ (finite l) / ((finite l).length : Rat) ∧
    (summary l).var = sumQ ((finite l).map (fun x => (x - (summary l).avg) * (x - (summary l).avg))) / ((finite l).length : Rat) := by
  exact ⟨rfl, rfl⟩

/-- minimum and maximum of exactly the finite values -/
theorem summary_min_max (l : List (Option Rat)) (hne : finite l ≠ []) :
    (summary l).min ∈ finite l ∧ (∀ x ∈ finite l, (summary l).min ≤ x) ∧
    (summary l).max ∈ finite l ∧ (∀ x ∈ finite l, x ≤ (summary l).max) := by
  exact ⟨(minQ_spec _ hne).1, (minQ_spec _ hne).2, (maxQ_spec _ hne).1, (maxQ_spec _ hne).2⟩

/-- the finite values are exactly the recorded finite entries -/
theorem mem_finite (l : List (Option Rat)) (x : Rat) : x ∈ finite l ↔ some x ∈ l := by
  exact mem_finite_iff l x

/-- the across-groups summary is the same statistics taken over the per-group averages -/
theorem across_groups (cols : List (List (Option Rat))) :
    acrossGroups cols = summarize (cols.map (fun c => (summarize (finite c)).avg)) := by
  rfl

/-- per-subject lookup returns that subject's own entry of the column -/
theorem one_subject {F : Type} (t : Loaded F) (s g m : Str) (i j : Nat)
    (hi : t.subjects.idxOf? s = some i) (hj : t.keys.idxOf? (g, m) = some j)
    (row : List (Option F)) (hr : t.cols[i]? = some row) :
    t.get s g m = row[j]? ∧ (t.column g m)[i]? = some ((row[j]?).getD none) := by
  exact get_column t s g m i j hi hj row hr

/-- non-vacuity -/
example : finite [some 1, none, some 3] = [1, 3] := by decide

end Panoptica.C20
