/-
  Link between the abstractions used by the semantic extraction obligations (Model/Sites.lean,
  Extracted/Sites.lean) and the model the property theorems are about.
-/
import Panoptica.Model.Sites
import Panoptica.Model.Matching
import Panoptica.Model.Evaluate
namespace Panoptica.Sites
open Panoptica

/-- `beats` only depends on how the score compares with the threshold -/
theorem beats_abs {S : Type} (le : S → S → Bool) (htot : ∀ a b, le a b = true ∨ le b a = true)
    (dec : Bool) (s t : S) : beats le dec s t = beatsAbs dec (ord3 le s t) := by
  unfold beats beatsAbs ord3
  rcases htot s t with h | h <;> cases hst : le s t <;> cases hts : le t s <;> cases dec <;> simp_all

/-- the scenario only depends on which counts are zero -/
theorem scenarioOf_abs (nPred nRef : Nat) :
    scenarioOf nPred nRef = scenarioOf (if nPred = 0 then 0 else 1) (if nRef = 0 then 0 else 1) := by
  unfold scenarioOf
  by_cases hp : nPred = 0 <;> by_cases hr : nRef = 0 <;> simp [hp, hr] <;> omega

/-- `MetricZeroTPEdgeCaseHandling.__call__` of the model, read through the abstraction -/
theorem call_abs (z : ZeroTP) (tp nPred nRef : Nat) :
    (z.call tp nPred nRef).1 = (tp == 0) ∧
    (tp = 0 → modelChain true (nPred == 0) (nRef == 0) = .scenario (scenarioName (scenarioOf nPred nRef))) := by
  constructor
  · unfold ZeroTP.call; by_cases h : tp = 0 <;> simp [h]
  · intro _
    unfold modelChain
    rw [scenarioOf_abs nPred nRef]
    by_cases hp : nPred = 0 <;> by_cases hr : nRef = 0 <;> simp [hp, hr]

/-! matcher loops -/

theorem LEnv.mem_all (v : LEnv) : v ∈ LEnv.all := by
  obtain ⟨cp, cr, m2o, b, dec, o⟩ := v
  cases cp <;> cases cr <;> cases m2o <;> cases b <;> cases dec <;> cases o <;> decide

/-- strict improvement only depends on how the new score compares with the old one -/
theorem strictlyBetter_abs {S : Type} (le : S → S → Bool) (htot : ∀ a b, le a b = true ∨ le b a = true)
    (dec : Bool) (new old : S) : strictlyBetter le dec new old = strictlyBetterAbs dec (ord3 le new old) := by
  unfold strictlyBetter strictlyBetterAbs ord3
  rcases htot new old with h | h <;> cases hst : le new old <;> cases hts : le old new <;> cases dec <;> simp_all

/-- the abstract situation of one iteration of the naive loop -/
def naiveEnv {S : Type} (le : S → S → Bool) (dec : Bool) (thr : S) (m2o : Bool) (m : LMap) (c : Cand S) : LEnv :=
  ⟨m.containsPred c.pred, m.containsRef c.ref, m2o, beats le dec c.score thr, dec, .eq⟩

/-- the model's `naiveStep` performs exactly the actions of `naiveAbs` -/
theorem naiveStep_abs {S : Type} (le : S → S → Bool) (dec : Bool) (thr : S) (m2o : Bool) (m : LMap) (c : Cand S) :
    naiveStep le dec thr m2o m c =
      (if LAct.add ∈ naiveAbs (naiveEnv le dec thr m2o m c) then m ++ [(c.pred, c.ref)] else m) := by
  unfold naiveStep naiveSkip naiveAbs naiveEnv
  cases m.containsPred c.pred <;> cases m.containsRef c.ref <;> cases m2o <;>
    cases beats le dec c.score thr <;> simp

/-- the abstract situation of one iteration of the merge loop (`old` = stored score of the reference) -/
def mergeEnv {S : Type} (le : S → S → Bool) (dec : Bool) (thr : S) (comb : Lab → List Lab → S)
    (st : MergeState S) (c : Cand S) (old : S) : LEnv :=
  ⟨st.lmap.containsPred c.pred, st.lmap.containsRef c.ref, true, beats le dec c.score thr, dec,
   ord3 le (comb c.ref (st.lmap.predsOf c.ref ++ [c.pred])) old⟩

def applyMerge {S : Type} (comb : Lab → List Lab → S) (st : MergeState S) (c : Cand S) : List LAct → MergeState S
  | [.add, .setNew] => { lmap := st.lmap ++ [(c.pred, c.ref)],
                         scores := st.scores.set c.ref (comb c.ref (st.lmap.predsOf c.ref ++ [c.pred])) }
  | [.add, .setMatch] => { lmap := st.lmap ++ [(c.pred, c.ref)], scores := st.scores.set c.ref c.score }
  | _ => st

/-- the model's `mergeStep` performs exactly the actions of `mergeAbs`; the stored score exists
    whenever the reference is assigned (invariant `scores_def` of C14) -/
theorem mergeStep_abs {S : Type} (le : S → S → Bool) (htot : ∀ a b, le a b = true ∨ le b a = true)
    (dec : Bool) (thr : S) (comb : Lab → List Lab → S) (st : MergeState S) (c : Cand S) (old : S)
    (hold : st.lmap.containsRef c.ref = true → st.scores.get? c.ref = some old) :
    mergeStep le dec thr comb st c = applyMerge comb st c (mergeAbs (mergeEnv le dec thr comb st c old)) := by
  unfold mergeStep mergeAbs mergeEnv
  cases hcp : st.lmap.containsPred c.pred
  · cases hcr : st.lmap.containsRef c.ref
    · cases hb : beats le dec c.score thr <;> simp [applyMerge]
    · simp only [hold hcr]
      rw [strictlyBetter_abs le htot]
      cases hs : strictlyBetterAbs dec (ord3 le (comb c.ref (st.lmap.predsOf c.ref ++ [c.pred])) old) <;>
        simp [applyMerge]
  · simp [applyMerge]

/-! decision loop -/

/-- does the instance's decision value beat the threshold (false when the value is missing) -/
def decisionBeats {V : Type} (le : V → V → Bool) (decision : Option (Metric × V)) (d : List (Metric × V)) : Bool :=
  match decision with
  | none => false
  | some (dm, thr) => match d.find? (fun e => e.1 == dm) with
    | some (_, v) => beats le dm.decreasing v thr
    | none => false

/-- the model's `passesDecision` is the extracted loop's guard: no decision metric, or threshold set
    and beaten (in the model metric and threshold come together, so "threshold set" = "metric set") -/
theorem passesDecision_abs {V : Type} (le : V → V → Bool) (decision : Option (Metric × V)) (d : List (Metric × V)) :
    passesDecision le decision d = (decision.isNone || (decision.isSome && decisionBeats le decision d)) := by
  unfold passesDecision decisionBeats
  cases decision with
  | none => simp
  | some p =>
    obtain ⟨dm, thr⟩ := p
    simp only [Option.isNone_some, Option.isSome_some, Bool.false_or, Bool.true_and]
    cases hf : d.find? (fun e => e.1 == dm) with
    | none => rfl
    | some q => rfl

end Panoptica.Sites
