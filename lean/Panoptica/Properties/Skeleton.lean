/-
  The event sequences used by the extraction obligations (`Extracted/Skeleton.lean`) are stated there
  for one concrete thread, subject and state. These lemmas lift them: from *any* state in which thread
  `i` is about to call `evaluate` / `make_statistic` and both locks are free, running alone it emits
  exactly that sequence — so the extracted program is compared with the model's behaviour for every
  thread number, subject name and file content, not for the sample.
-/
import Panoptica.Model.Skeleton
namespace Panoptica.Agg

theorem solo_fresh (name : Nat → Nat) (s : St) (i : Nat) (hpc : s.pc i = .start) (h1 : s.l1 = none)
    (h2 : s.l2 = none) (hn : name i ∉ s.buf) (n : Nat) :
    soloEvs name s i (n + 10) =
      [.acquire .l1, .act (.load .buf), .act (.write .buf), .release .l1, .act .compute,
       .acquire .l2, .act (.write .out), .release .l2] := by
  simp [soloEvs, soloTrace, step, upd, hpc, h1, h2, hn, pcEvs]

theorem solo_claimed (name : Nat → Nat) (s : St) (i : Nat) (hpc : s.pc i = .start) (h1 : s.l1 = none)
    (hn : name i ∈ s.buf) (n : Nat) :
    soloEvs name s i (n + 4) = [.acquire .l1, .act (.load .buf), .release .l1] := by
  simp [soloEvs, soloTrace, step, upd, hpc, h1, hn, pcEvs]

theorem solo_stat (name : Nat → Nat) (s : St) (i : Nat) (hpc : s.pc i = .sWant) (h2 : s.l2 = none) (n : Nat) :
    soloEvs name s i (n + 4) = [.acquire .l2, .act .statRead, .release .l2] := by
  simp [soloEvs, soloTrace, step, upd, hpc, h2, pcEvs]

/-- what the events say about the protocol: in the fresh path the claim is written while
    `inevalfilelock` is held, the computation holds no lock, and the row is written while `filelock`
    is held — read off the sequence -/
def heldAt : List Ev → List LockName → List (Act × List LockName)
  | [], _ => []
  | .acquire l :: es, held => heldAt es (l :: held)
  | .release l :: es, held => heldAt es (held.erase l)
  | .act a :: es, held => (a, held) :: heldAt es held
  | .raised :: _, _ => []

theorem fresh_locks (name : Nat → Nat) (s : St) (i : Nat) (hpc : s.pc i = .start) (h1 : s.l1 = none)
    (h2 : s.l2 = none) (hn : name i ∉ s.buf) :
    heldAt (soloEvs name s i 12) [] =
      [(.load .buf, [.l1]), (.write .buf, [.l1]), (.compute, []), (.write .out, [.l2])] := by
  rw [solo_fresh name s i hpc h1 h2 hn 2]; decide

example : (initSt (fun _ => .eval) []).pc 0 = .start ∧ (initSt (fun _ => .eval) []).l1 = none
    ∧ (5 : Nat) ∉ (initSt (fun _ => .eval) []).buf := by decide

end Panoptica.Agg
