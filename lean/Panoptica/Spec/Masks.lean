/-
  Panoptica.Spec.Masks — the set-theoretic vocabulary of the metric definitions.
  A mask is the indicator list `X : List Bool` of a voxel set over the array's positions;
  |X|, |X ∩ Y|, |X ∪ Y| are counts of positions.
-/
namespace Panoptica.Spec

def card (X : List Bool) : Nat := X.count true
def cardInter (X Y : List Bool) : Nat := (List.zipWith (· && ·) X Y).count true
def cardUnion (X Y : List Bool) : Nat := (List.zipWith (· || ·) X Y).count true

end Panoptica.Spec
