/-
  Panoptica.Spec.Reach — connectivity as a user would state it: `b` is reachable from `a` inside
  the voxel set `V` by a chain of adjacent voxels.
-/
namespace Panoptica.Spec

inductive Reach {α : Type} (adj : α → α → Bool) (V : List α) : α → α → Prop
  | refl (a : α) : a ∈ V → Reach adj V a a
  | step {a b c : α} : Reach adj V a b → c ∈ V → adj b c = true → Reach adj V a c

end Panoptica.Spec
