/-
  Panoptica.Spec.Transforms — the coordinate maps the invariance properties talk about.
-/
import Panoptica.Model.Geometry
namespace Panoptica.Spec
open Panoptica

/-- translation by the vector `t` -/
def translate (t : Coord) (c : Coord) : Coord := List.zipWith (· + ·) t c

/-- mirror axis `k` of an array with extent `n` along it: `x ↦ n - 1 - x` -/
def flipAxis (k : Nat) (n : Int) (c : Coord) : Coord := c.set k (n - 1 - c.getD k 0)

/-- exchange axes `i` and `j` -/
def swapAxes (i j : Nat) (c : Coord) : Coord := (c.set i (c.getD j 0)).set j (c.getD i 0)

/-- a map of coordinates that preserves squared distances and the face-neighbour structure -/
structure GridIsometry (f : Coord → Coord) (n : Nat) : Prop where
  len : ∀ c, c.length = n → (f c).length = n
  inj : ∀ a b, a.length = n → b.length = n → f a = f b → a = b
  dist : ∀ a b, a.length = n → b.length = n → sqDist (f a) (f b) = sqDist a b
  nbr : ∀ c x, c.length = n → (x ∈ faceNeighbours (f c) ↔ ∃ y ∈ faceNeighbours c, f y = x)

end Panoptica.Spec
